----------------------------- MODULE MC_Grammar -----------------------------
EXTENDS Grammar, Json

CONSTANT Depth       \* 2: all trees with <= 2 operator nodes over all operators; 3: adds 3-node trees over representatives

A == Atom("a")
B == Atom("b")
C == Atom("c")
One == Atom("1")
D == Atom("2")
Atoms == {A, B, C}
AtomsX == {A, One, Atom("'s'"), Atom("NULL"), Atom("t.a")}

\* one operator node over the given operand sets
Ops1(L, R) ==
  {Bin(op, l, r) : op \in BinOps, l \in L, r \in R}
  \cup {Neg(e) : e \in L} \cup {Not(e) : e \in L}
  \cup {CastT(e, "int") : e \in L} \cup {IdxT(e, i) : e \in L, i \in R}
  \cup {InT(ng, e, <<v>>) : ng \in BOOLEAN, e \in L, v \in R} \cup {InT(FALSE, e, <<v, One>>) : e \in L, v \in R}
  \cup {InT(ng, e, <<One, v>>) : ng \in BOOLEAN, e \in L, v \in R} \cup {InT(FALSE, e, <<One, v, v>>) : e \in L, v \in R}       \* every element of a list is an expression, not only the first
  \cup {CallT("least", <<r, e>>) : e \in L, r \in R} \cup {CaseT(One, e, r) : e \in L, r \in R}
  \cup {CallT("abs", <<e>>) : e \in L} \cup {CallT("least", <<e, r>>) : e \in L, r \in R}
  \cup {CaseT(e, r, One) : e \in L, r \in R}

\* representatives: one operator per level
RepOps == {"OR", "AND", "=", "+", "*"}
Rep1(L, R) ==
  {Bin(op, l, r) : op \in RepOps, l \in L, r \in R}
  \cup {Neg(e) : e \in L} \cup {Not(e) : e \in L} \cup {CastT(e, "int") : e \in L} \cup {IdxT(e, i) : e \in L, i \in R}
  \cup {InT(FALSE, e, <<v>>) : e \in L, v \in R}

\* list elements / arguments / CASE branches after the first that START with a literal and go on (1 + b, 's'::int, 1 = b, -1 ...): the whole expression is the element
LitStart == Ops1({One, Atom("'s'")}, {B})
LaterElems == {InT(ng, A, <<C, e>>) : ng \in BOOLEAN, e \in LitStart} \cup {InT(FALSE, A, <<One, e, C>>) : e \in LitStart}
              \cup {CallT("least", <<A, e>>) : e \in LitStart} \cup {CaseT(A, One, e) : e \in LitStart} \cup {Not(e) : e \in LitStart} \cup {Neg(e) : e \in LitStart}
T1 == Ops1({A}, {B})
T1x == Ops1(AtomsX, {B}) \cup Ops1({A}, AtomsX)
T2 == Ops1(T1 \cup {A}, {C}) \cup Ops1({C}, T1 \cup {B})
R1 == Rep1({A}, {B})
R2 == Rep1(R1 \cup {A}, {C}) \cup Rep1({C}, R1 \cup {B})
R3 == Rep1(R2, {A}) \cup Rep1({A}, R2) \cup {Bin(op, l, r) : op \in RepOps, l \in R1, r \in R1}

R4F(zz) == Rep1(R3, {B}) \cup Rep1({B}, R3)        \* four operator nodes over the representatives (thorough); parametrised: not evaluated at start-up
NegLit == {Bin(op, C, Neg(One)) : op \in BinOps} \cup {Bin(op, Neg(One), C) : op \in BinOps} \cup {IdxT(A, Neg(One)), InT(FALSE, A, <<Neg(One)>>), CallT("abs", <<Neg(One)>>)}
\* three operators in the shapes "low, tighter, low" and "tighter after low": a - b * c - d, a - b::int - c, a * b - c / d ...
ShapeOps == {"OR", "AND", "=", "+", "-", "*", "/"}
Tight(x, y) == {Bin(op, x, y) : op \in {"*", "/", "+", "-", "="}} \cup {CastT(x, "int"), IdxT(x, y), Neg(x)}
Shapes3 == {Bin(o3, Bin(o1, A, X), D) : o1 \in ShapeOps, o3 \in ShapeOps, X \in Tight(B, C)}
           \cup {Bin(o1, A, Bin(o3, X, D)) : o1 \in ShapeOps, o3 \in ShapeOps, X \in Tight(B, C)}
           \cup {Bin(o3, Bin(o1, X, A), D) : o1 \in ShapeOps, o3 \in ShapeOps, X \in Tight(B, C)}
\* wide expressions: one construct 66 / 130 times in one statement, combined by one operator into a balanced tree (nesting depth 8, far inside the depth bound):
\* IN lists of one and two elements, calls, subscripts, casts, CASE, parenthesised sums under a product -- the number of bracketed constructs in a statement is
\* not bounded by anything, only their nesting is
RECURSIVE Balanced(_, _, _)
Balanced(op, e, n) == IF n = 1 THEN e ELSE Bin(op, Balanced(op, e, n \div 2), Balanced(op, e, n - (n \div 2)))
WideLeaves == {InT(FALSE, A, <<One, D>>), InT(TRUE, A, <<One>>), CallT("least", <<A, B>>), IdxT(A, One), CastT(A, "int"), CaseT(A, B, One), Neg(A), Bin("+", A, B), Bin("OR", A, B)}
WideTrees == {Balanced(op, e, n) : op \in {"AND", "*"}, e \in WideLeaves, n \in {66, 130}}
             \cup {Bin("AND", Balanced("AND", InT(FALSE, A, <<One, D>>), n), Bin("OR", A, B)) : n \in {64, 65, 70}}        \* ... and a parenthesised operand after them
Trees == Shapes3 \cup T1 \cup T1x \cup T2 \cup NegLit \cup LaterElems \cup (IF Depth >= 3 THEN R3 \cup WideTrees ELSE {}) \cup (IF Depth >= 4 THEN R4F(0) ELSE {})

VARIABLE t
Init == t \in Trees
Next == UNCHANGED t
Spec == Init /\ [][Next]_t

RoundTripHolds == RoundTrip(t)
Emit == PrintT(<<"REPLAY", ToJson([min |-> Min(t), full |-> Full(t), tree |-> t])>>)
=============================================================================
