------------------------------- MODULE Extract -------------------------------
(***************************************************************************)
(* How a line becomes a row (TableDefinition::extract, src/data_model.rs;  *)
(* ValueType::parse / convert_from_json, src/model.rs) -- properties C01   *)
(* (regex / split columns), C02 (JSON-path columns) and the admission rule *)
(* of C06.  A transcription of the documented rules over abstract inputs:  *)
(*                                                                         *)
(*  line  = [inl, cap, extra, doc, tag]                                    *)
(*     cap    NoMatch or Match(the 7 groups of the capture pattern `p`, each   *)
(*            [ok |-> FALSE] (did not take part) or [ok |-> TRUE, s]       *)
(*     inl    the group of the inline pattern (same form)                  *)
(*     extra  further ';'-separated fields (the split pattern `s` sees the *)
(*            whole line as field 0, then the fields)                      *)
(*     doc    a JSON document, or NoDoc when the line is not JSON          *)
(*     tag    digits that a regex column finds in the raw JSON line        *)
(*  column = [src, refs, path, ty, el, nn, trim, conv, micro, def]         *)
(*                                                                         *)
(* The harness renders the definition to CREATE TABLE text and the line to *)
(* real text; the capture groups it sees are cross-checked with the regex  *)
(* crate directly.  Steps of the code, in order, per column:               *)
(*   MatchPattern . ExtractColumn . Trim . NotNullCut , then Admit.        *)
(***************************************************************************)
EXTENDS Expr

NoGroup == [ok |-> FALSE, s |-> <<>>]
NoMatchG == [ok |-> FALSE, s |-> <<-1>>]      \* the pattern did not match at all
NoMatch == [m |-> FALSE, gs |-> <<>>]
Match(gs) == [m |-> TRUE, gs |-> gs]
G(s) == [ok |-> TRUE, s |-> s]
NoDoc == [k |-> "nodoc"]
NoDef == [t |-> "nodef"]

\* ---- long integer literals around the 64-bit range -----------------------------------------
MaxText == <<57, 50, 50, 51, 51, 55, 50, 48, 51, 54, 56, 53, 52, 55, 55, 53, 56, 48, 55>>        \* 9223372036854775807
MaxPlus1Text == <<57, 50, 50, 51, 51, 55, 50, 48, 51, 54, 56, 53, 52, 55, 55, 53, 56, 48, 56>>   \* 9223372036854775808
MinText == <<45>> \o MaxPlus1Text                                                               \* -9223372036854775808
U32WrapText == <<52, 50, 57, 52, 57, 54, 55, 50, 57, 55>>                                        \* 4294967297 = 2^32 + 1
LongDigits == [i \in 1..25 |-> 49]                                                              \* 25 ones
ParseIntX(s) ==
  IF s = MaxText THEN MaxV(0) ELSE IF s = MinText THEN MinV(0)
  ELSE IF s \in {MaxPlus1Text, LongDigits, <<45>> \o LongDigits} THEN XNone
  ELSE IF s = U32WrapText THEN [t |-> "int", b |-> 2, i |-> 1]       \* a value beyond 32 bits that is neither near 0 nor near the extremes
  ELSE ParseInt(s)

\* ---- typed conversion of a group's text (ValueType::parse) ------------------------------------
\* result: a Value, XNone (not a literal of the type -> NULL) or XUnk (spelling not modelled)
ParseAs(ty, s) ==
  CASE ty = "text" -> TextV(s)
    [] ty = "int" -> ParseIntX(s)
    [] ty = "real" -> ParseReal(s)
    [] ty = "bool" -> IF s = <<116, 114, 117, 101>> THEN BoolV(TRUE) ELSE IF s = <<102, 97, 108, 115, 101>> THEN BoolV(FALSE) ELSE XNone
    [] ty = "ts" -> ParseTs(s)
    [] ty = "iv" -> ParseIv(s)
    [] OTHER -> XNone          \* an array type has no literal form

\* ---- what a pattern reference sees --------------------------------------------------------------
\* the text of the capture part as the harness renders it (needed for group 0 and for the split fields)
Marker(i) == 64 + i        \* A..G
RECURSIVE CapText(_, _)
CapText(gs, i) == IF i > Len(gs) THEN <<>>
                  ELSE (IF gs[i].ok THEN <<Marker(i), 60>> \o gs[i].s \o <<62>> ELSE <<>>) \o CapText(gs, i + 1)
CapPart(l) == IF ~l.cap.m THEN <<81, 58>> ELSE <<80, 58>> \o CapText(l.cap.gs, 1)      \* "Q:" never matches, "P:..." does
InlPart(l) == IF l.inl.ok THEN <<73, 60>> \o l.inl.s \o <<62, 32>> ELSE <<>>                  \* "I<..> "
RECURSIVE JoinSemi(_)
JoinSemi(fs) == IF fs = <<>> THEN <<>> ELSE <<59>> \o Head(fs) \o JoinSemi(Tail(fs))
LineTextOf(l) == InlPart(l) \o CapPart(l) \o JoinSemi(l.extra)

\* group `g` of pattern `p` for line l: [ok, s]; "nomatch" when the pattern does not match at all
GroupOf(l, ref) ==
  IF "pats" \in DOMAIN l THEN
     \* a recorded line (Trace_Extract): per pattern name what the regex crate itself reported -- m: the pattern matched (always, in split mode),
     \* gs: group 0 (the whole match / the whole line) followed by the groups (the split fields)
     (LET pr == l.pats[ref.p]
      IN IF ~pr.m THEN NoMatchG ELSE IF ref.g + 1 <= Len(pr.gs) THEN (IF pr.gs[ref.g + 1].ok THEN pr.gs[ref.g + 1] ELSE NoGroup) ELSE NoGroup)
  ELSE
  CASE ref.p = "p" -> IF ~l.cap.m THEN NoMatchG
                      ELSE IF ref.g = 0 THEN G(<<80, 58>> \o CapText(l.cap.gs, 1))
                      ELSE IF ref.g <= Len(l.cap.gs) THEN l.cap.gs[ref.g] ELSE NoGroup
    [] ref.p = "i" -> IF ~l.inl.ok THEN NoMatchG ELSE IF ref.g = 1 THEN l.inl ELSE IF ref.g = 0 THEN G(<<73, 60>> \o l.inl.s \o <<62>>) ELSE NoGroup
    [] ref.p = "s" -> \* split always "matches": field 0 is the whole line, then the ';'-separated fields
                      LET fields == <<LineTextOf(l), InlPart(l) \o CapPart(l)>> \o l.extra
                      IN IF ref.g + 1 <= Len(fields) THEN G(fields[ref.g + 1]) ELSE NoGroup
    [] ref.p = "tag" -> IF l.tag.ok THEN (IF ref.g = 1 THEN l.tag ELSE IF ref.g = 0 THEN G(<<35>> \o l.tag.s \o <<35>>) ELSE NoGroup) ELSE NoMatchG

\* extract_using_regex: BOOLEAN = the group's existence; absent pattern / group -> the default
ExtractRef(ty, l, ref, def) ==
  LET g == GroupOf(l, ref)
  IN IF g = NoMatchG THEN def
     ELSE IF ty = "bool" THEN BoolV(g.ok)
     ELSE IF ~g.ok THEN def
     ELSE LET v == ParseAs(ty, g.s) IN IF v.t = "none" THEN Null ELSE v

Default(col) == IF col.def = NoDef THEN Null ELSE col.def

MonthName(s) ==
  LET lo == [i \in 1..Len(s) |-> LowerC(s[i])]
  IN CASE lo = <<106, 97, 110>> -> 1 [] lo = <<102, 101, 98>> -> 2 [] lo = <<109, 97, 114>> -> 3 [] lo = <<97, 112, 114>> -> 4 [] lo = <<109, 97, 121>> -> 5
       [] lo \in {<<106, 117, 110>>, <<106, 117, 110, 101>>} -> 6 [] lo \in {<<106, 117, 108>>, <<106, 117, 108, 121>>} -> 7 [] lo = <<97, 117, 103>> -> 8
       [] lo \in {<<115, 101, 112>>, <<115, 101, 112, 116>>} -> 9 [] lo = <<111, 99, 116>> -> 10 [] lo = <<110, 111, 118>> -> 11 [] lo = <<100, 101, 99>> -> 12
       [] OTHER -> 0

\* TIMESTAMP assembled position by position: year, month (number or name), day, hour, minute, second, fraction
\* result: Value | XUnk
\* the loop of the code, part by part: <<kind, value>> with kind "go" (continue) | "ret" (return value)
RECURSIVE TsLoop(_, _, _, _)
TsLoop(col, l, i, f) ==
  IF i > Len(col.refs) \/ i > 7 THEN
     \* create_timestamp: calendar validation, else the column's default
     (LET y == f[1] m == f[2] d == f[3] h == f[4] mi == f[5] sc == f[6] us == f[7]
      IN IF ValidDate(y, m, d) /\ ValidTime(h, mi, sc) /\ us < 1000000 THEN TsV(<<y, m, d, h, mi, sc, us>>)
         ELSE IF y < 1 \/ y > 9999 \/ (us >= 1000000 /\ sc = 59) THEN XUnk     \* chrono's year range / leap-second encoding: not modelled
         ELSE Default(col))
  ELSE LET v == ExtractRef("int", l, col.refs[i], Null)
       IN IF v.t = "unk" THEN XUnk
          ELSE IF v.t = "int" THEN
               \* a part that does not fit its field is not a date part: the column's default, never a wrapped value
               (IF i = 1 THEN (IF v.b # 0 THEN Default(col) ELSE TsLoop(col, l, i + 1, [f EXCEPT ![1] = v.i]))
                ELSE IF v.b # 0 \/ v.i < 0 THEN Default(col)
                ELSE IF i = 7 THEN \* a fraction of two seconds or more is beyond even the leap-second encoding: not a fraction of a second
                                   \* (milliseconds are scaled by 1000: the product may not wrap around either)
                                   (IF (col.micro /\ v.i >= 2000000) \/ (~col.micro /\ v.i >= 2000) THEN Default(col)
                                    ELSE TsLoop(col, l, i + 1, [f EXCEPT ![7] = IF col.micro THEN v.i ELSE v.i * 1000]))
                ELSE TsLoop(col, l, i + 1, [f EXCEPT ![i] = v.i]))
          ELSE IF i = 2 THEN
               (LET tx == ExtractRef("text", l, col.refs[i], Null)
                IN IF tx.t = "text" THEN (IF MonthName(tx.s) = 0 THEN Null ELSE TsLoop(col, l, i + 1, [f EXCEPT ![2] = MonthName(tx.s)]))
                   ELSE XUnk)                 \* the month group did not take part: left open by the property
          ELSE Null                           \* a missing or non-numeric part: NULL
AssembleTs(col, l) == TsLoop(col, l, 1, <<0, 1, 1, 0, 0, 0, 0>>)

\* ---- JSON -----------------------------------------------------------------------------------------
JObj(fs) == [k |-> "obj", fs |-> fs]
JArr(xs) == [k |-> "arr", xs |-> xs]
JNum(v)  == [k |-> "num", v |-> v]              \* v: an INT or REAL value; [t |-> "big"] for integers beyond u64 / 1e999
JStr(s)  == [k |-> "str", s |-> s]
JBool(b) == [k |-> "bool", b |-> b]
JNull    == [k |-> "null"]
JBigU64  == [k |-> "num", v |-> [t |-> "u64big"]]      \* 9223372036854775808: fits u64, not i64
JHuge    == [k |-> "num", v |-> [t |-> "huge"]]        \* 18446744073709551616: beyond u64 (serde reads it as f64)

\* following a path: <<status, doc>>, status "found" | "absent"
RECURSIVE Walk(_, _)
Walk(path, d) ==
  IF path = <<>> THEN <<"found", d>>
  ELSE LET st == Head(path)
       IN IF st.k = "field"
          THEN (IF d.k # "obj" THEN <<"absent", d>>
                ELSE LET hits == SelectSeq(d.fs, LAMBDA f : f[1] = st.name)
                     IN IF hits = <<>> THEN <<"absent", d>>
                        ELSE IF Len(hits) > 1 THEN <<"unk", d>>                 \* duplicate keys: left open
                        ELSE Walk(Tail(path), hits[1][2]))
          ELSE (IF d.k # "arr" \/ st.i + 1 > Len(d.xs) THEN <<"absent", d>> ELSE Walk(Tail(path), d.xs[st.i + 1]))

RECURSIVE FromJson(_, _, _)
FromJson(ty, el, d) ==     \* convert_from_json: no coercion
  CASE ty = "int"  -> IF d.k = "num" /\ d.v.t = "int" THEN d.v ELSE Null
    [] ty = "real" -> IF d.k = "num" THEN (IF d.v.t = "int" THEN (IF d.v.b = 0 THEN RealV(d.v.i, 1) ELSE XUnk)
                                           ELSE IF d.v.t = "real" THEN d.v ELSE XUnk)
                      ELSE Null
    [] ty = "bool" -> IF d.k = "bool" THEN BoolV(d.b) ELSE Null
    [] ty = "text" -> IF d.k = "str" THEN TextV(d.s) ELSE Null
    [] ty = "arr"  -> IF d.k # "arr" THEN Null
                      ELSE LET xs == [i \in 1..Len(d.xs) |-> FromJson(el, "", d.xs[i])]
                           IN IF \E i \in 1..Len(xs) : xs[i].t = "unk" THEN XUnk ELSE ArrV(el, xs)
    [] OTHER -> Null            \* TIMESTAMP / INTERVAL have no JSON form (only CONVERT reaches them)

ExtractJson(col, l) ==
  IF l.doc = NoDoc THEN (IF col.def = NoDef THEN Null ELSE col.def)
  ELSE LET w == Walk(col.path, l.doc)
       IN IF w[1] = "unk" THEN XUnk
          ELSE IF w[1] = "absent" THEN (IF col.def = NoDef THEN Null ELSE col.def)
          ELSE IF col.conv THEN (IF w[2].k # "str" THEN Null
                                 ELSE LET v == ParseAs(col.ty, w[2].s) IN IF v.t = "none" THEN Null ELSE v)
          ELSE FromJson(col.ty, col.el, w[2])

\* ---- one column, one row ---------------------------------------------------------------------------
TrimS(s) ==
  LET ws(c) == IsWhiteSpace(c)      \* whitespace in the Unicode sense (White_Space)
      RECURSIVE lt(_) lt(x) == IF x # <<>> /\ ws(Head(x)) THEN lt(Tail(x)) ELSE x
      RECURSIVE rt(_) rt(x) == IF x # <<>> /\ ws(x[Len(x)]) THEN rt(SubSeq(x, 1, Len(x) - 1)) ELSE x
  IN rt(lt(s))

ExtractCol(col, l) ==
  LET raw ==
        CASE col.src = "one" -> ExtractRef(col.ty, l, col.refs[1], Default(col))
          [] col.src = "multi" ->
               (IF col.ty = "arr"
                THEN LET xs == [i \in 1..Len(col.refs) |-> ExtractRef(col.el, l, col.refs[i], Null)]
                     IN IF \E i \in 1..Len(xs) : xs[i].t = "unk" THEN XUnk
                        ELSE IF \E i \in 1..Len(xs) : xs[i].t # "null" THEN ArrV(col.el, xs) ELSE Default(col)
                ELSE IF col.ty = "ts" THEN AssembleTs(col, l)
                ELSE Default(col))
          [] col.src = "json" -> ExtractJson(col, l)
  IN IF col.trim /\ raw.t = "text" THEN TextV(TrimS(raw.s)) ELSE raw

\* the row: NOT NULL cut, then admission (C06): <<status, values>>, status "row" | "norow" | "unk"
RECURSIVE RowFrom(_, _, _)
RowFrom(cols, l, acc) ==
  IF cols = <<>> THEN (IF \E i \in 1..Len(acc) : acc[i].t # "null" THEN <<"row", acc>> ELSE <<"norow", <<>>>>)
  ELSE LET v == ExtractCol(Head(cols), l)
       IN IF v.t = "unk" THEN <<"unk", <<>>>>
          ELSE IF v.t = "null" /\ Head(cols).nn THEN <<"norow", <<>>>>
          ELSE RowFrom(Tail(cols), l, Append(acc, v))
ExtractRow(cols, l) == RowFrom(cols, l, <<>>)

\* ---- properties of the rules themselves (checked by TLC over the bounded menus) ------------------------
\* columns never influence each other: a column's value in a row is what it is alone
ColumnsIndependent(cols, l) ==
  LET r == ExtractRow(cols, l)
  IN r[1] = "row" => \A i \in 1..Len(cols) : r[2][i] = ExtractCol(cols[i], l)
\* admission (C06): a row iff some column is non-NULL and every NOT NULL column is non-NULL
AdmissionRule(cols, l) ==
  LET vs == [i \in 1..Len(cols) |-> ExtractCol(cols[i], l)]
      r == ExtractRow(cols, l)
  IN (\A i \in 1..Len(cols) : vs[i].t # "unk") =>
       ((r[1] = "row") <=> ((\E i \in 1..Len(cols) : vs[i].t # "null") /\ (\A i \in 1..Len(cols) : cols[i].nn => vs[i].t # "null")))
\* a value is never taken from another group: changing a group no column refers to changes nothing
=============================================================================
