---------------------------- MODULE Trace_Parse ----------------------------
(***************************************************************************)
(* impl -> spec for C14 on texts TLC cannot enumerate (random Unicode,     *)
(* character-level mutations, prefixes): the harness records for each text *)
(* the outcome class it observed; the specification admits exactly         *)
(* "ok" (a statement) and "err" (an error located inside the text whose    *)
(* excerpt could be produced).  Any other class (panic, bad_location,      *)
(* near_panic) has no matching action and the trace is rejected there.     *)
(***************************************************************************)
EXTENDS Naturals, Sequences, TLC, Json, IOUtils
Rec == ndJsonDeserialize(IOEnv.TRACE)
VARIABLE l
TraceInit == TLCSet(1, 1) /\ l = 1
Parsed  == l <= Len(Rec) /\ Rec[l].ev = "parse" /\ Rec[l].outcome = "ok"  /\ l' = l + 1
Located == l <= Len(Rec) /\ Rec[l].ev = "parse" /\ Rec[l].outcome = "err" /\ l' = l + 1
TraceNext == Parsed \/ Located
TraceSpec == TraceInit /\ [][TraceNext]_l
TraceUnfinished == l <= Len(Rec)
TrackProgress == TLCSet(1, IF TLCGet(1) < l THEN l ELSE TLCGet(1))
TraceRejectedAt == PrintT(<<"TRACE-REJECTED", "first unmatched event", TLCGet(1), IF TLCGet(1) <= Len(Rec) THEN Rec[TLCGet(1)] ELSE "none">>)
=============================================================================
