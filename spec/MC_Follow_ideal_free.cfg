SPECIFICATION Spec
CONSTANTS MaxLen = 4
          Caps = {1, 2, 3, 8}
          MaxIdle = 0
          WithInterrupt = FALSE
          FreeAppend = TRUE
          Dev = {}
VIEW view
INVARIANTS TypeOK DeliveredPrefix Conservation QuiescentComplete NeverFails
CHECK_DEADLOCK FALSE
