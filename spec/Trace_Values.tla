---------------------------- MODULE Trace_Values ----------------------------
(***************************************************************************)
(* impl -> spec: relations observed on the real Value type for random      *)
(* pairs (harness: `vh trace values`) must be the ones Values.tla gives.   *)
(* One event per compared pair: the pair and the observed ==, cmp,         *)
(* partial_cmp, <, >, <=, >= and hash equality.                            *)
(***************************************************************************)
EXTENDS Values, Json, IOUtils

Rec == ndJsonDeserialize(IOEnv.TRACE)
VARIABLE l
TraceInit == TLCSet(1, 1) /\ l = 1

EventOK(e) ==
  LET c == CmpB(e.a, e.b)
      q == EqB(e.a, e.b)
  IN /\ e.o.eq = q
     /\ e.o.cmp = c /\ e.o.pcmp = c
     /\ e.o.lt = (c < 0) /\ e.o.gt = (c > 0) /\ e.o.le = (c <= 0) /\ e.o.ge = (c >= 0)
     /\ (q => e.o.hasheq /\ e.o.vec_hasheq)
     /\ ((HashKeyB(e.a) = HashKeyB(e.b)) => e.o.hasheq)
     \* and, on the Ideal order when no deviation is in force, the laws themselves
     /\ (Dev = {} => (q <=> c = 0) /\ c = Cmp(e.a, e.b))

TraceNext == l <= Len(Rec) /\ EventOK(Rec[l]) /\ l' = l + 1
TraceSpec == TraceInit /\ [][TraceNext]_l
TraceUnfinished == l <= Len(Rec)
TrackProgress == TLCSet(1, IF TLCGet(1) < l THEN l ELSE TLCGet(1))
TraceRejectedAt == PrintT(<<"TRACE-REJECTED", "first unmatched event", TLCGet(1), IF TLCGet(1) <= Len(Rec) THEN Rec[TLCGet(1)] ELSE "none">>)
=============================================================================
