---------------------------- MODULE Trace_Sigint ----------------------------
(***************************************************************************)
(* impl -> spec for C19 at the level of the process: the real `sqlgrep`    *)
(* binary runs a query over a long input file and receives a real SIGINT   *)
(* (src/main.rs: the ctrl-c handler clears `running`).  The harness        *)
(* records what the process printed and how it ended; the specification    *)
(* admits exactly the interrupted runs C19 allows:                         *)
(*                                                                         *)
(*   SelectStopped   the rows printed are a prefix of the uninterrupted     *)
(*                   output (row i is line i), the process ends with       *)
(*                   status 0 and no error message, and it stops promptly: *)
(*                   at most Slack rows after the last row the harness had *)
(*                   read when it sent the signal (rows already in the     *)
(*                   pipe), unless the run had finished anyway             *)
(*   AggStopped      an aggregate prints one table, for exactly the lines  *)
(*                   consumed before the interrupt: the row count = MAX(line   *)
(*                   number) = the `processed n lines` statistic; over a   *)
(*                   JOIN in which every line has `fan` partners the row   *)
(*                   count is fan x that number (the harness divides and   *)
(*                   reports 0 when it is no whole multiple): an interrupt *)
(*                   that lands in the middle of a line's fan-out does not *)
(*                   leave half a line in the table                        *)
(*                                                                         *)
(* Anything else (an error line, a non-zero status, a gap or repetition in *)
(* the rows, a table that does not match the lines consumed, a run that    *)
(* ignores the signal) has no matching action: the trace is rejected.      *)
(***************************************************************************)
EXTENDS Naturals, Sequences, TLC, Json, IOUtils
CONSTANT Slack
Rec == ndJsonDeserialize(IOEnv.TRACE)
VARIABLE l
TraceInit == TLCSet(1, 1) /\ l = 1
E == Rec[l]
Clean == E.exit = 0 /\ ~E.err
SelectStopped ==
  /\ l <= Len(Rec) /\ E.ev = "sigint" /\ E.kind = "select"
  /\ Clean /\ E.prefix_ok
  /\ (E.out = E.total \/ E.out <= E.before + Slack)
  /\ E.processed = E.out                       \* every line read gave its row: no further line was consumed after the last row
  /\ l' = l + 1
AggStopped ==
  /\ l <= Len(Rec) /\ E.ev = "sigint" /\ E.kind = "agg"
  /\ Clean /\ E.records = 1
  /\ E.n >= 1 /\ E.n <= E.total /\ E.n = E.m /\ E.n = E.processed
  /\ l' = l + 1
\* an interrupt while the joined file is being loaded: the loader stops within ten lines -- the read offset of the joined file (in KiB) ends within a few
\* read-ahead buffers (LoadSlackKb) of where it stood when the signal was sent, unless the load had all but finished by then (inconclusive: admitted) --,
\* no input line is processed, nothing is printed by a SELECT (an aggregate prints no table either: no line was consumed), no error, status 0
LoadSlackKb == 8192
JoinLoadStopped ==
  /\ l <= Len(Rec) /\ E.ev = "sigint" /\ E.kind = "joinload"
  /\ Clean
  /\ \/ E.kb_at_signal + LoadSlackKb >= E.kb_size                  \* (the signal came too late to tell)
     \/ /\ E.kb_last <= E.kb_at_signal + LoadSlackKb
        /\ E.processed = 0 /\ E.records = 0
  /\ l' = l + 1
TraceNext == SelectStopped \/ AggStopped \/ JoinLoadStopped
TraceSpec == TraceInit /\ [][TraceNext]_l
TraceUnfinished == l <= Len(Rec)
TrackProgress == TLCSet(1, IF TLCGet(1) < l THEN l ELSE TLCGet(1))
TraceRejectedAt == PrintT(<<"TRACE-REJECTED", "first unmatched event", TLCGet(1), IF TLCGet(1) <= Len(Rec) THEN Rec[TLCGet(1)] ELSE "none">>)
=============================================================================
