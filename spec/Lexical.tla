------------------------------- MODULE Lexical -------------------------------
(***************************************************************************)
(* Layout, letter case and clause order do not change a statement's        *)
(* meaning (property C20); parsing is total (C14, see MC_Lexical).         *)
(*                                                                         *)
(* A statement is a head and permutable clauses of classified lexemes      *)
(* (LexBase.tla).  A layout state is                                       *)
(*   perm    the order of the clauses                                      *)
(*   cas     per lexeme: 0 as written, 1 lower, 2 UPPER, 3 Capitalised     *)
(*           (only lexemes of a case-insensitive class may be flipped)     *)
(*   sep     per gap between lexemes: an index into Separators             *)
(*   lead, trail   separators before the first / after the last lexeme     *)
(*   semi    trailing semicolon (queries only; CREATE TABLE requires it)   *)
(* Edit actions change one of these; every reachable layout state is       *)
(*   (1) checked by TLC: the ideal lexer reads the same token stream as    *)
(*       from the base layout (our edits really are layout-only), and      *)
(*   (2) rendered and parsed by the real parser, which must produce the    *)
(*       same statement as for the base layout.                            *)
(***************************************************************************)
EXTENDS Integers, Sequences, FiniteSets, TLC, LexBase

CONSTANTS MaxEdits, StmtIndexes, SepChoice, PermuteClauses

\* ---- characters -------------------------------------------------------------
SP == 32
TAB == 9
LF == 10
CR == 13
IsLetter(c) == (c >= 65 /\ c <= 90) \/ (c >= 97 /\ c <= 122)
IsDigit(c) == c >= 48 /\ c <= 57
IsWord(c) == IsLetter(c) \/ IsDigit(c) \/ c = 95
\* "the amount and kind of whitespace": the Unicode property White_Space (what char::is_whitespace goes by), not only the ASCII blanks
IsSpace(c) == (c >= 9 /\ c <= 13) \/ c \in {SP, 133, 160, 5760, 8232, 8233, 8239, 8287, 12288} \/ (c >= 8192 /\ c <= 8202)
Lower(c) == IF c >= 65 /\ c <= 90 THEN c + 32 ELSE c
Upper(c) == IF c >= 97 /\ c <= 122 THEN c - 32 ELSE c
LowerS(s) == [i \in 1..Len(s) |-> Lower(s[i])]
UpperS(s) == [i \in 1..Len(s) |-> Upper(s[i])]
CapS(s) == [i \in 1..Len(s) |-> IF i = 1 THEN Upper(s[i]) ELSE Lower(s[i])]

\* ---- separators ---------------------------------------------------------------
Comment == <<45, 45, 32, 99, 32, 39, 59>>          \* "-- c ';"  (quote and semicolon inside a comment are inert)
EmptyComment == <<45, 45>>                           \* "--" directly followed by the line break
Separators == << <<>>, <<SP>>, <<TAB>>, <<LF>>, <<CR, LF>>, <<SP, SP>>, <<SP>> \o Comment \o <<LF>>, Comment \o <<LF>>, <<LF>> \o Comment \o <<CR, LF>>,
                 <<SP>> \o EmptyComment \o <<LF>>, EmptyComment \o <<LF>>, <<SP>> \o EmptyComment \o <<CR, LF>>,
                 \* 13-15: comments holding a backslash (a quoted regex), a backslash right before the line break, non-ASCII text -- all inert
                 <<SP, 45, 45, 32, 39, 92, 100, 43, 39, LF>>, <<SP, 45, 45, 32, 99, 92, LF>>, <<SP, 45, 45, 32, 233, 8364, 32, 99, LF>>,
                 \* 16-22: whitespace that is not one of the ASCII blanks: VT, FF, NO-BREAK SPACE, NEL, LINE SEPARATOR, IDEOGRAPHIC SPACE, EM SPACE + tab
                 <<11>>, <<12>>, <<160>>, <<133>>, <<8232>>, <<12288>>, <<8195, TAB>> >>
SepNone == 1
SepSpace == 2
HasComment(k) == k >= 7 /\ k <= 15

\* two lexemes that would merge (or start a comment, or form another operator) when written without separation
Wordy(l) == l.c \in {"kw", "name", "id", "num"} \/ (l.c = "str" /\ FALSE)
LastC(l) == l.s[Len(l.s)]
FirstC(l) == l.s[1]
NeedsSep(a, b) ==
  \/ (IsWord(LastC(a)) /\ IsWord(FirstC(b)))                          \* SELECT k, 1 a
  \/ (a.c = "num" /\ FirstC(b) = 46) \/ (LastC(a) = 46 /\ b.c = "num")   \* 1 . / . 1 would become a number
  \/ (a.c = "op" /\ b.c = "op" /\ <<LastC(a), FirstC(b)>> \in {<<45, 45>>, <<60, 61>>, <<62, 61>>, <<33, 61>>, <<61, 62>>, <<58, 58>>, <<58, 58>>})
  \/ (a.c = "op" /\ LastC(a) = 58 /\ b.c = "op" /\ FirstC(b) = 58)
\* a comment may not follow a minus sign directly ("---" is a comment start after nothing)
StartsWithComment(k) == k \in {8, 11}
SepAllowed(a, b, k) == (NeedsSep(a, b) => k # SepNone) /\ ((StartsWithComment(k) /\ LastC(a) = 45) => FALSE)

\* ---- layout state -------------------------------------------------------------
VARIABLES si,      \* which base statement
          perm, cas, sep, lead, trail, semi,
          edits    \* number of edits applied

lvars == <<si, perm, cas, sep, lead, trail, semi, edits>>

Stmt == BaseStatements[si]
RECURSIVE ConcatAll(_)
ConcatAll(ss) == IF ss = <<>> THEN <<>> ELSE Head(ss) \o ConcatAll(Tail(ss))
LexemesIn(p) == Stmt.head \o ConcatAll([i \in 1..Len(p) |-> Stmt.clauses[p[i]]])
BaseLexemes == LexemesIn([i \in 1..Len(Stmt.clauses) |-> i])
NLex == Len(BaseLexemes)

CaseInsensitive(l) == l.c \in {"kw", "name"}
Cased(l, m) == CASE m = 0 -> l.s [] m = 1 -> LowerS(l.s) [] m = 2 -> UpperS(l.s) [] m = 3 -> CapS(l.s)

\* the text of the current layout: lexemes in clause order `perm`, flipped per `cas` (indexed by position in that order)
Render ==
  LET ls == LexemesIn(perm)
      RECURSIVE go(_)
      go(i) == IF i > Len(ls) THEN <<>>
               ELSE Cased(ls[i], cas[i]) \o (IF i < Len(ls) THEN Separators[sep[i]] ELSE <<>>) \o go(i + 1)
  IN Separators[lead] \o go(1) \o (IF semi THEN <<59>> ELSE <<>>) \o Separators[trail]

\* ---- the ideal lexer ------------------------------------------------------------
RECURSIVE SkipComment(_, _), ReadString(_, _, _), ReadWord(_, _), ReadNumber(_, _, _), LexFrom(_, _, _)
SkipComment(t, i) == IF i > Len(t) \/ t[i] = LF THEN i ELSE SkipComment(t, i + 1)
ReadString(t, i, acc) ==      \* i is after the opening quote: <<content incl. quotes as written, next index>>
  IF i > Len(t) THEN <<acc, i>>
  ELSE IF t[i] = 92 /\ i < Len(t) THEN ReadString(t, i + 2, acc \o <<92, t[i + 1]>>)
  ELSE IF t[i] = 39 THEN <<Append(acc, 39), i + 1>>
  ELSE ReadString(t, i + 1, Append(acc, t[i]))
ReadWord(t, i) == IF i <= Len(t) /\ IsWord(t[i]) THEN ReadWord(t, i + 1) ELSE i
ReadNumber(t, i, dot) == IF i <= Len(t) /\ IsDigit(t[i]) THEN ReadNumber(t, i + 1, dot)
                         ELSE IF i <= Len(t) /\ t[i] = 46 /\ ~dot THEN ReadNumber(t, i + 1, TRUE) ELSE i
TwoCharOps == {<<58, 58>>, <<61, 62>>, <<60, 61>>, <<62, 61>>, <<33, 61>>}
LexFrom(t, i, acc) ==
  IF i > Len(t) THEN acc
  ELSE LET c == t[i]
       IN IF IsSpace(c) THEN LexFrom(t, i + 1, acc)
          ELSE IF c = 45 /\ i < Len(t) /\ t[i + 1] = 45 THEN LexFrom(t, SkipComment(t, i), acc)
          ELSE IF c = 39 THEN (LET r == ReadString(t, i + 1, <<39>>) IN LexFrom(t, r[2], Append(acc, [c |-> "str", s |-> r[1]])))
          ELSE IF IsLetter(c) THEN (LET j == ReadWord(t, i) IN LexFrom(t, j, Append(acc, [c |-> "word", s |-> SubSeq(t, i, j - 1)])))
          ELSE IF IsDigit(c) THEN (LET j == ReadNumber(t, i, FALSE) IN LexFrom(t, j, Append(acc, [c |-> "num", s |-> SubSeq(t, i, j - 1)])))
          ELSE IF i < Len(t) /\ <<c, t[i + 1]>> \in TwoCharOps THEN LexFrom(t, i + 2, Append(acc, [c |-> "op", s |-> <<c, t[i + 1]>>]))
          ELSE LexFrom(t, i + 1, Append(acc, [c |-> "op", s |-> <<c>>]))
IdealLex(t) == LexFrom(t, 1, <<>>)

\* the token stream the layout must read as: the lexemes in clause order (plus the semicolon), case-insensitive
\* classes compared in lower case
SameToken(tok, l) ==
  IF l.c \in {"kw", "name", "id"} THEN tok.c = "word" /\ (IF CaseInsensitive(l) THEN LowerS(tok.s) = LowerS(l.s) ELSE tok.s = l.s)
  ELSE tok.c = l.c /\ tok.s = l.s
LexesAsIntended ==
  LET toks == IdealLex(Render)
      want == LexemesIn(perm) \o (IF semi THEN <<[c |-> "op", s |-> <<59>>]>> ELSE <<>>)
  IN Len(toks) = Len(want) /\ \A i \in 1..Len(want) : SameToken(toks[i], want[i])

\* ---- Init / edit actions -----------------------------------------------------------
Identity(n) == [i \in 1..n |-> i]
BaseSemi == Stmt.create                 \* CREATE TABLE statements carry their (required) semicolon as the last lexeme already
Init ==
  /\ si \in StmtIndexes
  /\ perm = Identity(Len(BaseStatements[si].clauses))
  /\ cas = [i \in 1..Len(BaseStatements[si].head \o ConcatAll(BaseStatements[si].clauses)) |-> 0]
  /\ sep = [i \in 1..(Len(BaseStatements[si].head \o ConcatAll(BaseStatements[si].clauses)) - 1) |->
              IF NeedsSep((BaseStatements[si].head \o ConcatAll(BaseStatements[si].clauses))[i], (BaseStatements[si].head \o ConcatAll(BaseStatements[si].clauses))[i + 1])
              THEN SepSpace ELSE SepNone]
  /\ lead = SepNone /\ trail = SepNone /\ semi = FALSE /\ edits = 0

FlipCase(i, m) ==
  /\ i \in 1..NLex /\ CaseInsensitive(LexemesIn(perm)[i]) /\ m \in {1, 2, 3} /\ cas[i] # m
  /\ cas' = [cas EXCEPT ![i] = m]
  /\ UNCHANGED <<si, perm, sep, lead, trail, semi>>

SetSep(i, k) ==
  /\ i \in 1..(NLex - 1) /\ k \in SepChoice /\ sep[i] # k
  /\ SepAllowed(LexemesIn(perm)[i], LexemesIn(perm)[i + 1], k)
  /\ sep' = [sep EXCEPT ![i] = k]
  /\ UNCHANGED <<si, perm, cas, lead, trail, semi>>

SetLead(k) == /\ k \in SepChoice /\ lead # k /\ lead' = k /\ UNCHANGED <<si, perm, cas, sep, trail, semi>>
SetTrail(k) ==
  /\ k \in SepChoice /\ trail # k
  /\ (StartsWithComment(k) => (semi \/ LastC(LexemesIn(perm)[NLex]) # 45))
  /\ trail' = k /\ UNCHANGED <<si, perm, cas, sep, lead, semi>>

ToggleSemicolon == /\ ~Stmt.create /\ semi' = ~semi /\ UNCHANGED <<si, perm, cas, sep, lead, trail>>

\* swap two adjacent clauses (generates every permutation); layout attributes travel with their lexemes:
\* to keep the state small the layout is reset to the base layout of the new order
SwapClauses(j) ==
  /\ PermuteClauses /\ j \in 1..(Len(perm) - 1)
  /\ perm' = [perm EXCEPT ![j] = perm[j + 1], ![j + 1] = perm[j]]
  /\ LET ls == LexemesIn(perm')
     IN /\ cas' = [i \in 1..Len(ls) |-> 0]
        /\ sep' = [i \in 1..(Len(ls) - 1) |-> IF NeedsSep(ls[i], ls[i + 1]) THEN SepSpace ELSE SepNone]
  /\ UNCHANGED <<si, lead, trail, semi>>

Edit == \/ \E i \in 1..NLex, m \in {1, 2, 3} : FlipCase(i, m)
        \/ \E i \in 1..NLex, k \in SepChoice : SetSep(i, k)
        \/ \E k \in SepChoice : SetLead(k) \/ SetTrail(k)
        \/ ToggleSemicolon
        \/ \E j \in 1..8 : SwapClauses(j)
Next == edits < MaxEdits /\ Edit /\ edits' = edits + 1
Spec == Init /\ [][Next]_lvars

=============================================================================
