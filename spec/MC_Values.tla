----------------------------- MODULE MC_Values -----------------------------
(***************************************************************************)
(* C16 on a finite universe of boundary values: every triple is one        *)
(* initial state; the laws are invariants; every ordered pair is emitted   *)
(* once with the as-built prediction of ==, cmp and hash equality.         *)
(***************************************************************************)
EXTENDS Universe, Json

VARIABLE tr
Init == tr \in U \X U \X U
Next == UNCHANGED tr
Spec == Init /\ [][Next]_tr

a == tr[1]
b == tr[2]
c == tr[3]
SameKind(x, y) == TypeRank(x) = TypeRank(y)

\* ---- the laws of C16 on the Ideal order -----------------------------------
Trichotomy == Cmp(a, b) \in {-1, 0, 1} /\ Cmp(a, b) = -Cmp(b, a) /\ Cmp(a, a) = 0
Transitivity == (Cmp(a, b) <= 0 /\ Cmp(b, c) <= 0) => Cmp(a, c) <= 0
EqConsistent == (Eq(a, b) <=> Cmp(a, b) = 0) /\ (Eq(a, b) /\ Eq(b, c) => Eq(a, c))
EqualHashEqual == Eq(a, b) => Canon(a) = Canon(b)
NumbersByValue == (IsNum(a) /\ IsNum(b)) => Cmp(a, b) = CmpNum(a, b)

\* ---- the same laws on the as-built order (a listed deviation must break one of them) ----------
TrichotomyB == CmpB(a, b) \in {-1, 0, 1} /\ CmpB(a, b) = -CmpB(b, a) /\ CmpB(a, a) = 0
TransitivityB == (CmpB(a, b) <= 0 /\ CmpB(b, c) <= 0) => CmpB(a, c) <= 0
EqConsistentB == EqB(a, b) <=> CmpB(a, b) = 0
EqualHashEqualB == EqB(a, b) => HashKeyB(a) = HashKeyB(b)
NumbersByValueB == (IsNum(a) /\ IsNum(b)) => CmpB(a, b) = CmpNum(a, b)

Emit == c = First =>
  PrintT(<<"REPLAY", ToJson([a |-> a, b |-> b, eq |-> EqB(a, b), cmp |-> CmpB(a, b), hasheq |-> (HashKeyB(a) = HashKeyB(b)),
                              fired |-> IF EqB(a, b) # Eq(a, b) \/ CmpB(a, b) # Cmp(a, b) THEN Dev ELSE {},
                              ideal |-> [eq |-> Eq(a, b), cmp |-> Cmp(a, b)]])>>)
=============================================================================
