------------------------------- MODULE Follow -------------------------------
(***************************************************************************)
(* Follow mode (tail -f) of sqlgrep: a writer appends to a file while      *)
(* FollowFileIterator polls it through a BufReader.                        *)
(*                                                                         *)
(* Code map (src/helpers.rs, FollowFileIterator::next; std BufRead):       *)
(*   Fill      BufReader::fill_buf -> one read(2) of <= cap bytes          *)
(*   Scan      read_until: memchr for LF in the buffer, consume            *)
(*   EndCall   read_line returns (LF seen, or EOF); UTF-8 check of the     *)
(*             bytes appended by this call                                 *)
(*   Deliver   line ends with LF: pop it, hand the line out                *)
(*   Retry     `continue` (EOF before LF) -- hook follow_retry sits here   *)
(*   WAppend   the writer process appending k more bytes                   *)
(*                                                                         *)
(* Bytes are naturals (their real values): 97 'a', 32 ' ', 10 LF, 13 CR,   *)
(* 195 169 = the two bytes of U+00E9, 255 = a byte that is not UTF-8.      *)
(***************************************************************************)
EXTENDS Naturals, Sequences, FiniteSets, TLC

CONSTANTS MaxLen,      \* bound on the content length in bytes
          Caps,        \* BufReader capacities explored
          MaxIdle,     \* polls with nothing new that the environment may interpose
          FreeAppend,  \* TRUE: writer appends at any time; FALSE: only at retry points (hook-realisable)
          WithInterrupt, \* TRUE: the user may interrupt (ctrl-c clears `running`); the reader is then FollowFileExecutor's loop, which drops the next line and ends (C19)
          Dev          \* as-built deviations in force (subset of DevNames)

DevNames == {"FollowUtf8Split"}
ASSUME Dev \subseteq DevNames

LF == 10
M1 == 195
M2 == 169
BAD == 255         \* a byte that is not valid UTF-8 anywhere (the line is delivered with U+FFFD in its place: lossy decoding of the whole line)
Sym == {97, 32, LF, 13, M1, M2, BAD}        \* (a blank: white space at the end of a line is part of the line)

VARIABLES content, pre, head, cap,   \* chosen once per behaviour
          written,                  \* bytes of content already in the file
          pos,                      \* reader's file offset
          buf,                      \* BufReader buffer (unconsumed part)
          cur,                      \* bytes appended to the String by the running read_line call
          line,                     \* FollowFileIterator.line (carried between calls)
          delivered,                \* lines handed to the query, in order
          pc,                       \* "fill" | "scan" | "retry" | "stopped" | "failed"
          idle,                     \* empty polls used
          running,                  \* the AtomicBool shared with the ctrl-c handler (FollowFileExecutor checks it per delivered line)
          hist                      \* observation only: schedule + delivery counts, for replay

vars == <<content, pre, head, cap, written, pos, buf, cur, line, delivered, pc, idle, running, hist>>
view == <<content, pre, head, cap, written, pos, buf, cur, line, delivered, pc, idle, running>>

-----------------------------------------------------------------------------
\* Helpers
RECURSIVE ValidUtf8(_)
ValidUtf8(s) ==
  IF s = <<>> THEN TRUE
  ELSE IF Head(s) = M1 THEN Len(s) >= 2 /\ s[2] = M2 /\ ValidUtf8(SubSeq(s, 3, Len(s)))
  ELSE IF Head(s) = M2 THEN FALSE
  ELSE IF Head(s) = BAD THEN FALSE
  ELSE ValidUtf8(Tail(s))
\* contents explored: the two-byte character always whole (its splitting by polls and buffers is the reader's business), BAD anywhere
RECURSIVE WellPaired(_)
WellPaired(s) ==
  IF s = <<>> THEN TRUE
  ELSE IF Head(s) = M1 THEN Len(s) >= 2 /\ s[2] = M2 /\ WellPaired(SubSeq(s, 3, Len(s)))
  ELSE IF Head(s) = M2 THEN FALSE
  ELSE WellPaired(Tail(s))

RECURSIVE SeqsUpTo(_)
SeqsUpTo(n) == IF n = 0 THEN {<<>>}
               ELSE LET S == SeqsUpTo(n - 1)
                    IN S \cup {Append(s, b) : s \in {t \in S : Len(t) = n - 1}, b \in Sym}

Contents == {s \in SeqsUpTo(MaxLen) : WellPaired(s)}

\* index of the first LF in s, 0 if none
RECURSIVE FirstLF(_, _)
FirstLF(s, i) == IF i > Len(s) THEN 0 ELSE IF s[i] = LF THEN i ELSE FirstLF(s, i + 1)

\* the complete (LF-terminated) lines of s, without their LF
RECURSIVE CompleteLines(_)
CompleteLines(s) ==
  LET i == FirstLF(s, 1)
  IN IF i = 0 THEN <<>>
     ELSE <<SubSeq(s, 1, i - 1)>> \o CompleteLines(SubSeq(s, i + 1, Len(s)))

RECURSIVE TailAfterLastLF(_)
TailAfterLastLF(s) ==
  LET i == FirstLF(s, 1)
  IN IF i = 0 THEN s ELSE TailAfterLastLF(SubSeq(s, i + 1, Len(s)))

IsPrefix(a, b) == Len(a) <= Len(b) /\ SubSeq(b, 1, Len(a)) = a

StartPos == IF head THEN 0 ELSE pre
Visible  == SubSeq(content, StartPos + 1, Len(content))   \* what must reach the query eventually
Min(a, b) == IF a < b THEN a ELSE b

-----------------------------------------------------------------------------
Init ==
  /\ content \in Contents
  /\ pre \in {p \in 0..Len(content) : WellPaired(SubSeq(content, 1, p))}   \* start-up falls on a character boundary
  /\ head \in BOOLEAN
  /\ cap \in Caps
  /\ written = pre
  /\ pos = IF head THEN 0 ELSE pre
  /\ buf = <<>> /\ cur = <<>> /\ line = <<>>
  /\ delivered = <<>>
  /\ pc = "fill"
  /\ idle = 0
  /\ running = TRUE
  /\ hist = <<>>

\* --- writer ---------------------------------------------------------------
WAppend(k) ==
  /\ k \in 1..(Len(content) - written)
  /\ FreeAppend \/ pc = "retry"
  /\ pc # "stopped" /\ pc # "failed" /\ pc # "halted"
  /\ written' = written + k
  /\ hist' = IF FreeAppend THEN hist ELSE Append(hist, [e |-> "A", n |-> k])
  /\ UNCHANGED <<content, pre, head, cap, pos, buf, cur, line, delivered, pc, idle, running>>

\* --- the user -------------------------------------------------------------
\* ctrl-c while the reader waits for more input (possibly holding an unterminated piece of a line)
Interrupt ==
  /\ WithInterrupt /\ ~FreeAppend /\ pc = "retry" /\ running
  /\ running' = FALSE
  /\ hist' = Append(hist, [e |-> "I", n |-> Len(delivered)])
  /\ UNCHANGED <<content, pre, head, cap, written, pos, buf, cur, line, delivered, pc, idle>>

\* --- reader ---------------------------------------------------------------
Fill ==
  /\ pc = "fill"
  /\ IF buf = <<>>
     THEN LET n == Min(cap, written - pos)
          IN /\ buf' = SubSeq(content, pos + 1, pos + n)
             /\ pos' = pos + n
     ELSE UNCHANGED <<buf, pos>>
  /\ pc' = "scan"
  /\ UNCHANGED <<content, pre, head, cap, written, cur, line, delivered, idle, running, hist>>

\* the read_line call returns with `c` appended by this call
EndCall(c, b) ==
  IF "FollowUtf8Split" \in Dev /\ ~ValidUtf8(c)
  THEN \* as built: read_line -> Err(InvalidData); the String is rolled back, the
       \* consumed bytes are gone and the iterator returns None: follow mode ends.
       /\ pc' = "failed" /\ cur' = <<>> /\ buf' = b
       /\ UNCHANGED <<line, delivered>>
  ELSE LET l == line \o c
       IN IF l # <<>> /\ l[Len(l)] = LF
          THEN IF running
               THEN /\ delivered' = Append(delivered, SubSeq(l, 1, Len(l) - 1))
                    /\ line' = <<>> /\ cur' = <<>> /\ buf' = b
                    /\ pc' = "fill"
               ELSE \* the iterator hands the line out, the executor sees the cleared flag: the line is not consumed and the run ends
                    /\ line' = <<>> /\ cur' = <<>> /\ buf' = b
                    /\ pc' = "halted"
                    /\ UNCHANGED delivered
          ELSE /\ line' = l /\ cur' = <<>> /\ buf' = b
               /\ pc' = "retry"
               /\ UNCHANGED delivered

Scan ==
  /\ pc = "scan"
  /\ IF buf = <<>>
     THEN EndCall(cur, buf)                                        \* EOF
     ELSE LET i == FirstLF(buf, 1)
          IN IF i > 0
             THEN EndCall(cur \o SubSeq(buf, 1, i), SubSeq(buf, i + 1, Len(buf)))
             ELSE /\ cur' = cur \o buf /\ buf' = <<>> /\ pc' = "fill"
                  /\ UNCHANGED <<line, delivered>>
  /\ UNCHANGED <<content, pre, head, cap, written, pos, idle, running, hist>>

Retry ==
  /\ pc = "retry"
  /\ pc' = "fill"
  /\ hist' = IF FreeAppend THEN hist ELSE Append(hist, [e |-> "R", n |-> Len(delivered)])
  /\ IF FreeAppend THEN UNCHANGED idle
     ELSE \* a retry with nothing appended since the previous one is an idle poll
          IF hist # <<>> /\ hist[Len(hist)].e = "R"
          THEN idle < MaxIdle /\ idle' = idle + 1
          ELSE UNCHANGED idle
  /\ UNCHANGED <<content, pre, head, cap, written, pos, buf, cur, line, delivered, running>>

\* the environment ends the observation (hook returns Stop) once everything is written
Stop ==
  /\ ~FreeAppend
  /\ pc = "retry"
  /\ written = Len(content)
  /\ pc' = "stopped"
  /\ hist' = Append(hist, [e |-> "S", n |-> Len(delivered)])
  /\ UNCHANGED <<content, pre, head, cap, written, pos, buf, cur, line, delivered, idle, running>>

Reader == Fill \/ Scan \/ Retry
Next == (\E k \in 1..MaxLen : WAppend(k)) \/ Reader \/ Stop \/ Interrupt

Spec == Init /\ [][Next]_vars
FairSpec == Spec /\ WF_vars(Reader) /\ WF_vars(\E k \in 1..MaxLen : WAppend(k))

-----------------------------------------------------------------------------
\* Properties (C10)

TypeOK ==
  /\ written \in pre..Len(content) /\ pos \in 0..written
  /\ pc \in {"fill", "scan", "retry", "stopped", "failed", "halted"}

\* every delivered item is a complete line, exactly once, in order, byte for byte
DeliveredPrefix == IsPrefix(delivered, CompleteLines(Visible))

\* the reader never invents, loses or reorders bytes: what it holds plus what it
\* delivered is exactly the part of the file it has read
Conservation ==
  pc \notin {"failed", "halted"} =>          \* (a run halted by the user has read, and dropped, one more line)
    LET flat[i \in 0..Len(delivered)] ==
          IF i = 0 THEN <<>> ELSE flat[i - 1] \o delivered[i] \o <<LF>>
    IN flat[Len(delivered)] \o line \o cur \o buf = SubSeq(content, StartPos + 1, pos)

\* an unterminated tail is never delivered; at quiescence nothing complete is pending
Quiescent == pc = "retry" /\ written = Len(content) /\ pos = written /\ buf = <<>>
QuiescentComplete ==
  Quiescent => /\ delivered = CompleteLines(Visible)
               /\ line = TailAfterLastLF(Visible)

\* C19 in follow mode: after the interrupt no further line is consumed (nothing more is delivered to the query)
InterruptFreezesDelivery == [][~running => delivered' = delivered]_vars

\* follow mode never gives up on its own
NeverFails == pc # "failed"

\* liveness: every complete line is eventually delivered
EventuallyAll == <>[](delivered = CompleteLines(Visible))

=============================================================================
