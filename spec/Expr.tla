-------------------------------- MODULE Expr --------------------------------
(***************************************************************************)
(* Meaning of sqlgrep expressions (src/execution/expression_execution.rs)  *)
(* over the abstract value universe of Values.tla  -- property C03 (and    *)
(* the HAVING / GROUP BY expressions of C04, the subscripts of C09).       *)
(*                                                                         *)
(* Expression trees are records:                                           *)
(*   [op |-> "lit", v]            [op |-> "col", name]                     *)
(*   [op |-> "cmp", f, a, b]      f \in {"=", "!=", "<", "<=", ">", ">="}  *)
(*   [op |-> "is", neg, a, b]     IS / IS NOT                              *)
(*   [op |-> "arith", f, a, b]    f \in {"+", "-", "*", "/"}               *)
(*   [op |-> "bool", f, a, b]     f \in {"and", "or"}                      *)
(*   [op |-> "neg", a]  [op |-> "not", a]                                  *)
(*   [op |-> "in", neg, a, vs]    [op |-> "call", f, args]                 *)
(*   [op |-> "idx", a, i]         [op |-> "cast", a, ty]                   *)
(*   [op |-> "case", cl, el]      cl = << <<cond, result>>, ... >>         *)
(*                                                                         *)
(* Eval(e, env) is an outcome: Val(v) | Err | Unk.   Unk = "this model     *)
(* does not predict the result" (specials of REAL arithmetic, calendar     *)
(* arithmetic, regular expressions, ...): such cases are only checked for  *)
(* totality (C09), never for a value.  Ideal never says more than the      *)
(* property text; where the code is known to differ the difference is a    *)
(* named deviation in Dev.                                                 *)
(***************************************************************************)
EXTENDS Values

ExprDevNames == {"InNullEq", "UncheckedArith", "SubscriptUnderflow"}

Val(v) == [k |-> "val", v |-> v]
Err    == [k |-> "err"]
Unk    == [k |-> "unk"]
Panic  == [k |-> "panic"]          \* only ever produced by a deviation

Lit(v)          == [op |-> "lit", v |-> v]
Col(n)          == [op |-> "col", name |-> n]
CmpE(f, a, b)   == [op |-> "cmp", f |-> f, a |-> a, b |-> b]
IsE(neg, a, b)  == [op |-> "is", neg |-> neg, a |-> a, b |-> b]
Arith(f, a, b)  == [op |-> "arith", f |-> f, a |-> a, b |-> b]
BoolE(f, a, b)  == [op |-> "bool", f |-> f, a |-> a, b |-> b]
NegE(a)         == [op |-> "neg", a |-> a]
NotE(a)         == [op |-> "not", a |-> a]
InE(neg, a, vs) == [op |-> "in", neg |-> neg, a |-> a, vs |-> vs]
Call(f, args)   == [op |-> "call", f |-> f, args |-> args]
Idx(a, i)       == [op |-> "idx", a |-> a, i |-> i]
Cast(a, ty)     == [op |-> "cast", a |-> a, ty |-> ty]
CaseE(cl, el)   == [op |-> "case", cl |-> cl, el |-> el]

-----------------------------------------------------------------------------
\* integer arithmetic on the [b, i] form; "ovf" = leaves the 64-bit range, "unk" = leaves the form
Bound == 1000000
XUnk == [t |-> "unk"]
XOvf == [t |-> "ovf"]
XDiv0 == [t |-> "div0"]
XNone == [t |-> "none"]
IntRes(b, i) == IF b = 0 /\ (i > Bound \/ i < -Bound) THEN XUnk
                ELSE IF b = 1 /\ i > 0 THEN XOvf
                ELSE IF b = -1 /\ i < 0 THEN XOvf
                ELSE IF (b # 0) /\ (i > Bound \/ i < -Bound) THEN XUnk
                ELSE [t |-> "int", b |-> b, i |-> i]

Large(x) == x.b = 0 /\ (x.i > Bound \/ x.i < -Bound)       \* an ordinary integer too large for the model's arithmetic (TLC integers are 32-bit)
IAdd(x, y) ==
  IF x.b \in {2, 3, 4} \/ y.b \in {2, 3, 4} \/ Large(x) \/ Large(y) THEN XUnk
  ELSE IF x.b = 0 /\ y.b = 0 THEN IntRes(0, x.i + y.i)
  ELSE IF x.b # 0 /\ y.b = 0 THEN IntRes(x.b, x.i + y.i)
  ELSE IF x.b = 0 /\ y.b # 0 THEN IntRes(y.b, x.i + y.i)
  ELSE IF x.b = y.b THEN XOvf
  ELSE IntRes(0, x.i + y.i - 1)                     \* MAX + MIN = -1

INeg(x) ==
  IF x.b \in {2, 3, 4} THEN XUnk
  ELSE IF x.b = 0 THEN IntRes(0, -x.i)
  ELSE IF x.b = 1 THEN IntRes(-1, 1 - x.i)           \* -(MAX + i) = MIN + 1 - i
  ELSE IF x.i = 0 THEN XOvf                          \* -MIN
  ELSE IntRes(1, 1 - x.i)                            \* -(MIN + i) = MAX + 1 - i

ISub(x, y) ==
  IF Large(x) \/ Large(y) THEN XUnk
  ELSE IF y.b = 0 THEN IAdd(x, IntV(-y.i))
  ELSE IF x.b = y.b THEN IntRes(0, x.i - y.i)
  ELSE IF x.b = 0 /\ y.b = 1 THEN IntRes(-1, x.i - y.i + 1)      \* x - (MAX + j) = MIN + 1 + x - j
  ELSE IF x.b = 0 /\ y.b = -1 THEN IntRes(1, x.i - y.i + 1)      \* x - (MIN + j) = MAX + 1 + x - j
  ELSE XOvf                                                      \* MAX-ish - MIN-ish or the reverse

IMul(x, y) ==
  IF Large(x) \/ Large(y) \/ (x.b = 0 /\ y.b = 0 /\ (x.i > 30000 \/ x.i < -30000 \/ y.i > 30000 \/ y.i < -30000)) THEN XUnk
  ELSE IF x.b = 0 /\ y.b = 0 THEN IntRes(0, x.i * y.i)
  ELSE LET big == IF x.b # 0 THEN x ELSE y
           sm  == IF x.b # 0 THEN y ELSE x
       IN IF sm.b # 0 THEN XOvf
          ELSE IF sm.i = 0 THEN IntV(0)
          ELSE IF sm.i = 1 THEN big
          ELSE IF sm.i = -1 THEN INeg(big)
          ELSE XOvf

TruncDiv(a, b) == IF (a >= 0) = (b > 0) THEN (IF a >= 0 THEN a \div b ELSE (-a) \div (-b))
                  ELSE -((IF a >= 0 THEN a ELSE -a) \div (IF b > 0 THEN b ELSE -b))

IDiv(x, y) ==
  IF y.b = 0 /\ y.i = 0 THEN XDiv0
  ELSE IF Large(x) \/ Large(y) THEN XUnk
  ELSE IF x.b = 0 /\ y.b = 0 THEN IntRes(0, TruncDiv(x.i, y.i))
  ELSE IF y.b = 0 /\ y.i = 1 THEN x
  ELSE IF y.b = 0 /\ y.i = -1 THEN INeg(x)
  ELSE IF x.b = 0 /\ y.b # 0 THEN IntV(0)            \* |small| / |huge| truncates to 0
  ELSE XUnk

\* dyadic rationals
RECURSIVE NormR(_, _)
NormR(n, d) == IF d > 1 /\ n % 2 = 0 THEN NormR(n \div 2, d \div 2) ELSE <<n, d>>
RealRes(n, d) ==
  LET p == NormR(n, d)
  IN IF p[1] > Bound \/ p[1] < -Bound \/ p[2] > 1024 THEN XUnk ELSE RealV(p[1], p[2])
MaxI(a, b) == IF a > b THEN a ELSE b
RAdd(x, y) == LET d == MaxI(x.d, y.d) IN RealRes(x.n * (d \div x.d) + y.n * (d \div y.d), d)
RSub(x, y) == LET d == MaxI(x.d, y.d) IN RealRes(x.n * (d \div x.d) - y.n * (d \div y.d), d)
RMul(x, y) == IF x.d * y.d > 1024 THEN XUnk
              ELSE IF x.n * y.n = 0 /\ (x.n < 0 \/ y.n < 0) THEN NZero        \* IEEE: (+0) * (negative) = -0.0
              ELSE RealRes(x.n * y.n, x.d * y.d)

-----------------------------------------------------------------------------
\* text <-> number literals (code points: '0' = 48, '-' = 45, '+' = 43, '.' = 46)
IsDigit(c) == c >= 48 /\ c <= 57
RECURSIVE DigitsVal(_, _)
DigitsVal(s, acc) == IF s = <<>> THEN acc ELSE DigitsVal(Tail(s), acc * 10 + (Head(s) - 48))
AllDigits(s) == s # <<>> /\ \A i \in 1..Len(s) : IsDigit(s[i])

\* i64::from_str on short literals: [+-]?digits ; "unk" when too long for the model
ParseInt(s) ==
  LET neg  == s # <<>> /\ s[1] = 45
      body == IF s # <<>> /\ s[1] \in {45, 43} THEN Tail(s) ELSE s
  IN IF ~AllDigits(body) THEN XNone
     ELSE IF Len(body) > 6 THEN XUnk
     ELSE IntV(IF neg THEN -DigitsVal(body, 0) ELSE DigitsVal(body, 0))

RECURSIVE IndexOf(_, _, _)
IndexOf(s, c, i) == IF i > Len(s) THEN 0 ELSE IF s[i] = c THEN i ELSE IndexOf(s, c, i + 1)
RECURSIVE Pow(_, _)
Pow(b, e) == IF e = 0 THEN 1 ELSE b * Pow(b, e - 1)

\* f64::from_str on plain decimals whose value is dyadic; other spellings are left to "unk"
ParseReal(s) ==
  LET neg  == s # <<>> /\ s[1] = 45
      body == IF s # <<>> /\ s[1] \in {45, 43} THEN Tail(s) ELSE s
      dot  == IndexOf(body, 46, 1)
      ip   == IF dot = 0 THEN body ELSE SubSeq(body, 1, dot - 1)
      fp   == IF dot = 0 THEN <<>> ELSE SubSeq(body, dot + 1, Len(body))
  IN IF body = <<>> \/ ~(\A i \in 1..Len(body) : IsDigit(body[i]) \/ body[i] = 46) THEN
          (IF \E i \in 1..Len(body) : body[i] \in {101, 69, 105, 73, 110, 78} THEN XUnk ELSE XNone)   \* e E i I n N: exponents, inf, nan
     ELSE IF dot # 0 /\ IndexOf(fp, 46, 1) # 0 THEN XNone
     ELSE IF ip = <<>> \/ (dot # 0 /\ fp = <<>>) THEN XUnk        \* ".5" and "5." are accepted by Rust; not modelled
     ELSE IF Len(ip) > 5 \/ Len(fp) > 3 THEN XUnk
     ELSE LET num == DigitsVal(ip, 0) * Pow(10, Len(fp)) + DigitsVal(fp, 0)
              den == Pow(10, Len(fp))
              \* num/den is dyadic iff den / gcd has only factor 2: reduce the factors of 5
              f5  == IF Len(fp) = 0 THEN 1 ELSE Pow(5, Len(fp))
          IN IF num % f5 # 0 THEN XUnk
             ELSE IF num = 0 /\ neg THEN NZero
             ELSE LET r == RealRes((IF neg THEN -1 ELSE 1) * (num \div f5), den \div f5) IN r

RECURSIVE DigitsOf(_)
DigitsOf(n) == IF n < 10 THEN <<48 + n>> ELSE DigitsOf(n \div 10) \o <<48 + (n % 10)>>
IntText(i) == IF i < 0 THEN <<45>> \o DigitsOf(-i) ELSE DigitsOf(i)
\* the decimal text of an integer in [b, i] form (TLC integers are 32-bit: the high digits are constant, the low ones computed)
PadDigits(n, w) == LET d == DigitsOf(n) IN [j \in 1..(w - Len(d)) |-> 48] \o d
IntTextB(v) ==
  CASE v.b = 0  -> IntText(v.i)
    [] v.b = 1  -> <<57, 50, 50, 51, 51, 55, 50, 48, 51, 54, 56, 53, 52>> \o PadDigits(775807 + v.i, 6)            \* 9223372036854|775807 + i  (i <= 0)
    [] v.b = -1 -> <<45, 57, 50, 50, 51, 51, 55, 50, 48, 51, 54, 56, 53, 52>> \o PadDigits(775808 - v.i, 6)        \* -(9223372036854|775808 - i)  (i >= 0)
    [] v.b = 2  -> <<52, 50, 57, 52, 57>> \o PadDigits(67296 + v.i, 5)                                              \* 42949|67296 + i
    [] v.b = 3  -> <<57, 48, 48, 55, 49, 57, 57, 50, 53, 52, 55>> \o PadDigits(40992 + v.i, 5)                      \* 90071992547|40992 + i
    [] v.b = 4  -> <<50, 49, 52, 55, 52>> \o PadDigits(83648 + v.i, 5)                                              \* 21474|83648 + i

-----------------------------------------------------------------------------
LowerC(c) == IF c >= 65 /\ c <= 90 THEN c + 32 ELSE IF c = 201 THEN 233 ELSE c
UpperC(c) == IF c >= 97 /\ c <= 122 THEN c - 32 ELSE IF c = 233 THEN 201 ELSE c
SimpleCase(s) == \A i \in 1..Len(s) : s[i] < 128 \/ s[i] \in {201, 233}

ElemTypeOf(v) == CASE v.t = "int" -> "int" [] v.t = "real" -> "real" [] v.t = "bool" -> "bool" [] v.t = "text" -> "text"
                   [] v.t = "ts" -> "ts" [] v.t = "iv" -> "iv" [] v.t = "arr" -> "arr" [] OTHER -> "null"

\* stable dedup + sort of an array's elements by the as-built order (array_unique = BTreeSet)
RECURSIVE InsertSorted(_, _)
InsertSorted(xs, v) ==
  IF xs = <<>> THEN <<v>>
  ELSE LET c == CmpB(v, Head(xs))
       IN IF c = 0 THEN xs ELSE IF c < 0 THEN <<v>> \o xs ELSE <<Head(xs)>> \o InsertSorted(Tail(xs), v)
RECURSIVE SortUnique(_, _)
SortUnique(xs, acc) == IF xs = <<>> THEN acc ELSE SortUnique(Tail(xs), InsertSorted(acc, Head(xs)))

-----------------------------------------------------------------------------
\* comparison as WHERE sees it
CmpResult(f, c) == CASE f = "="  -> c = 0  [] f = "!=" -> c # 0 [] f = "<" -> c < 0
                     [] f = "<=" -> c <= 0 [] f = ">"  -> c > 0 [] f = ">=" -> c >= 0

Comparable(a, b) == \/ a.t = b.t /\ a.t # "arr"
                    \/ IsNum(a) /\ IsNum(b)
                    \/ a.t = "arr" /\ b.t = "arr" /\ a.et = b.et

Compare(f, a, b) ==
  IF IsNull(a) \/ IsNull(b) THEN Val(BoolV(FALSE))
  ELSE IF ~Comparable(a, b) THEN Unk
  ELSE IF "NumVariantOrder" \in Dev /\ a.t # b.t
       THEN \* as built: derived PartialEq / PartialOrd compare the variant first
            Val(BoolV(CmpResult(f, CmpB(a, b))))
  ELSE IF a.t = "real" /\ b.t = "real" /\ "FloatNanOrd" \in Dev /\ (a.c = "nan" \/ b.c = "nan")
       THEN Val(BoolV(f = "!="))                     \* IEEE: every comparison with NaN is false, != true
  ELSE Val(BoolV(CmpResult(f, CmpB(a, b))))

ArithV(f, a, b) ==
  IF IsNull(a) \/ IsNull(b) THEN Val(Null)
  ELSE IF a.t = "int" /\ b.t = "int" /\ (a.b \in {2, 3, 4} \/ b.b \in {2, 3, 4}) THEN Unk       \* operands near 2^32 / 2^53: arithmetic not modelled
  ELSE IF a.t = "int" /\ b.t = "int" THEN
         LET r == CASE f = "+" -> IAdd(a, b) [] f = "-" -> ISub(a, b) [] f = "*" -> IMul(a, b) [] f = "/" -> IDiv(a, b)
         IN IF r.t = "unk" THEN Unk
            ELSE IF r.t \in {"ovf", "div0"} THEN (IF "UncheckedArith" \in Dev THEN Panic ELSE Err)
            ELSE Val(r)
  ELSE IF a.t = "real" /\ b.t = "real" THEN
         IF a.c # "fin" \/ b.c # "fin" \/ f = "/" THEN Unk
         ELSE LET r == CASE f = "+" -> RAdd(a, b) [] f = "-" -> RSub(a, b) [] f = "*" -> RMul(a, b)
              IN IF r.t = "unk" THEN Unk ELSE Val(r)
  ELSE IF a.t = "iv" /\ b.t = "iv" /\ f \in {"+", "-"} THEN Val(IvV(IF f = "+" THEN a.ms + b.ms ELSE a.ms - b.ms))
  ELSE IF {a.t, b.t} \subseteq {"ts", "iv"} THEN Unk        \* calendar arithmetic: not modelled
  ELSE Err                                                  \* type mismatch

\* the Display form used by ::text (and by the text / CSV printers)
NoText == <<-1>>
TextOf(v) ==
  CASE v.t = "int" -> IntTextB(v)
    [] v.t = "bool" -> IF v.v THEN <<116, 114, 117, 101>> ELSE <<102, 97, 108, 115, 101>>
    [] v.t = "real" /\ v.c = "fin" /\ v.d <= 4 ->
         LET neg == v.n < 0
             an  == IF neg THEN -v.n ELSE v.n
             ip  == an \div v.d
             fr  == ((an % v.d) * 100) \div v.d
         IN (IF neg THEN <<45>> ELSE <<>>) \o DigitsOf(ip) \o <<46>> \o <<48 + (fr \div 10), 48 + (fr % 10)>>
    [] OTHER -> NoText

CastV(v, ty) ==
  IF v.t = "text" THEN
     CASE ty = "text" -> Val(v)
       [] ty = "int"  -> LET r == ParseInt(v.s) IN IF r.t = "unk" THEN Unk ELSE IF r.t = "none" THEN Err ELSE Val(r)
       [] ty = "real" -> LET r == ParseReal(v.s) IN IF r.t = "unk" THEN Unk ELSE IF r.t = "none" THEN Err ELSE Val(r)
       [] ty = "boolean" -> IF v.s = <<116, 114, 117, 101>> THEN Val(BoolV(TRUE))
                            ELSE IF v.s = <<102, 97, 108, 115, 101>> THEN Val(BoolV(FALSE)) ELSE Err
       [] OTHER -> Unk
  ELSE IF IsNull(v) THEN Unk
  ELSE IF (ty = "int" /\ v.t = "int") \/ (ty = "real" /\ v.t = "real") \/ (ty = "boolean" /\ v.t = "bool") THEN Val(v)
  ELSE IF ty = "text" THEN (LET s == TextOf(v) IN IF s = NoText THEN Unk ELSE Val(TextV(s)))
  ELSE Unk

Truth(v) == v.t = "bool" /\ v.v          \* Value::bool(): anything that is not TRUE counts as false

\* functions of one / two already evaluated arguments
Call1(f, a) ==
  CASE f = "abs" ->
         IF IsNull(a) THEN Val(Null)
         ELSE IF a.t = "int" /\ a.b \in {2, 3, 4} THEN Val(a)
         ELSE IF a.t = "int" THEN (IF a.b = 0 THEN Val(IntV(IF a.i < 0 THEN -a.i ELSE a.i))
                                   ELSE IF a.b = 1 THEN Val(a)
                                   ELSE LET r == INeg(a) IN IF r.t = "ovf" THEN (IF "UncheckedArith" \in Dev THEN Panic ELSE Err) ELSE Val(r))
         ELSE IF a.t = "real" THEN (IF a.c = "fin" THEN Val(RealV(IF a.n < 0 THEN -a.n ELSE a.n, a.d)) ELSE Unk)
         ELSE IF a.t = "iv" THEN Val(IvV(IF a.ms < 0 THEN -a.ms ELSE a.ms))
         ELSE Err
    [] f = "length" -> IF a.t = "text" THEN Val(IntV(Len(a.s))) ELSE Err
    [] f = "upper" -> IF a.t = "text" THEN (IF SimpleCase(a.s) THEN Val(TextV([i \in 1..Len(a.s) |-> UpperC(a.s[i])])) ELSE Unk) ELSE Err
    [] f = "lower" -> IF a.t = "text" THEN (IF SimpleCase(a.s) THEN Val(TextV([i \in 1..Len(a.s) |-> LowerC(a.s[i])])) ELSE Unk) ELSE Err
    [] f = "array_length" -> IF a.t = "arr" THEN Val(IntV(Len(a.xs))) ELSE Err
    [] f = "array_unique" -> IF a.t = "arr" THEN Val(ArrV(a.et, SortUnique(a.xs, <<>>))) ELSE Err
    [] f \in {"extract_year", "extract_month", "extract_day", "extract_hour", "extract_minute", "extract_second"} ->
         IF a.t = "ts" THEN Val(IntV(a.f[CASE f = "extract_year" -> 1 [] f = "extract_month" -> 2 [] f = "extract_day" -> 3
                                            [] f = "extract_hour" -> 4 [] f = "extract_minute" -> 5 [] f = "extract_second" -> 6]))
         ELSE Err
    [] OTHER -> Unk

Call2(f, a, b) ==
  CASE f \in {"least", "greatest"} ->
         IF IsNull(a) \/ IsNull(b) THEN Val(Null)
         ELSE IF a.t # b.t \/ a.t \notin {"int", "real", "ts", "iv"} THEN Err
         ELSE IF a.t = "real" /\ (a.c \in {"nan", "nzero"} \/ b.c \in {"nan", "nzero"}) THEN Unk
         ELSE LET c == Cmp(a, b) IN Val(IF (f = "least") = (c <= 0) THEN a ELSE b)
    [] f = "array_cat" -> IF a.t = "arr" /\ b.t = "arr" /\ a.et = b.et THEN Val(ArrV(a.et, a.xs \o b.xs)) ELSE Err
    [] f = "array_append" -> IF a.t = "arr" /\ ElemTypeOf(b) = a.et /\ b.t # "arr" THEN Val(ArrV(a.et, Append(a.xs, b)))
                             ELSE IF a.t = "arr" /\ b.t = "arr" THEN Unk ELSE Err
    [] f = "array_prepend" -> IF b.t = "arr" /\ ElemTypeOf(a) = b.et /\ a.t # "arr" THEN Val(ArrV(b.et, <<a>> \o b.xs))
                              ELSE IF a.t = "arr" /\ b.t = "arr" THEN Unk ELSE Err
    [] OTHER -> Unk

\* array[...]: the element type is that of the first non-NULL element; all must agree
CreateArray(xs) ==
  LET nn == SelectSeq(xs, LAMBDA v : ~IsNull(v))
  IN IF nn = <<>> THEN Err
     ELSE IF \E i \in 1..Len(nn) : nn[i].t = "arr" THEN Unk
     ELSE IF \E i \in 1..Len(nn) : ElemTypeOf(nn[i]) # ElemTypeOf(nn[1]) THEN Err
     ELSE Val(ArrV(ElemTypeOf(nn[1]), xs))

Subscript(a, i) ==
  IF a.t # "arr" THEN Err
  ELSE IF i.t # "int" THEN Err
  ELSE IF i.b = 0 /\ i.i >= 1 /\ i.i <= Len(a.xs) THEN Val(a.xs[i.i])
  ELSE IF i.b = -1 /\ i.i = 0 /\ "SubscriptUnderflow" \in Dev THEN Panic     \* i64::MIN - 1 overflows (debug)
  ELSE Val(Null)                                                            \* 0, negative, beyond the end

-----------------------------------------------------------------------------
\* outcome plumbing: the first child (in evaluation order) that is not a value decides
RECURSIVE Eval(_, _), EvalSeq(_, _), EvalCase(_, _, _), EvalIn(_, _, _, _, _)

FirstBad(os) == LET bad == SelectSeq(os, LAMBDA o : o.k # "val") IN IF bad = <<>> THEN Val(Null) ELSE
                  IF \E i \in 1..Len(bad) : bad[i].k = "unk" THEN Unk ELSE bad[1]

EvalSeq(es, env) == [i \in 1..Len(es) |-> Eval(es[i], env)]

EvalCase(cl, el, env) ==
  IF cl = <<>> THEN Eval(el, env)
  ELSE LET c == Eval(cl[1][1], env)
       IN IF c.k # "val" THEN c
          ELSE IF Truth(c.v) THEN Eval(cl[1][2], env)
          ELSE EvalCase(Tail(cl), el, env)

\* IN / NOT IN as the stated disjunction / conjunction of comparisons (NULL never compares true)
EvalIn(neg, x, vs, env, acc) ==
  IF vs = <<>> THEN Val(BoolV(acc))
  ELSE LET o == Eval(Head(vs), env)
       IN IF o.k # "val" THEN o
          ELSE IF "InNullEq" \in Dev
               THEN \* as built: operand == value by derived equality (NULL = NULL), first hit returns
                    (IF EqB(x, o.v) THEN Val(BoolV(~neg)) ELSE EvalIn(neg, x, Tail(vs), env, neg))
          ELSE LET c == IF neg THEN Compare("!=", x, o.v) ELSE Compare("=", x, o.v)
               IN IF c.k # "val" THEN c
                  ELSE IF neg THEN (IF ~c.v.v THEN Val(BoolV(FALSE)) ELSE EvalIn(neg, x, Tail(vs), env, TRUE))
                  ELSE (IF c.v.v THEN Val(BoolV(TRUE)) ELSE EvalIn(neg, x, Tail(vs), env, FALSE))

Eval(e, env) ==
  CASE e.op = "lit" -> Val(e.v)
    [] e.op = "col" -> IF e.name \in DOMAIN env THEN Val(env[e.name]) ELSE Err
    [] e.op = "cmp" ->
         LET a == Eval(e.a, env) IN IF a.k # "val" THEN a ELSE
         LET b == Eval(e.b, env) IN IF b.k # "val" THEN b ELSE Compare(e.f, a.v, b.v)
    [] e.op = "is" ->
         LET a == Eval(e.a, env) IN IF a.k # "val" THEN a ELSE
         LET b == Eval(e.b, env) IN IF b.k # "val" THEN b ELSE
         IF ~IsNull(a.v) /\ ~IsNull(b.v) /\ ~Comparable(a.v, b.v) THEN Unk
         ELSE Val(BoolV(EqB(a.v, b.v) # e.neg))
    [] e.op = "arith" ->
         LET a == Eval(e.a, env) IN IF a.k # "val" THEN a ELSE
         LET b == Eval(e.b, env) IN IF b.k # "val" THEN b ELSE ArithV(e.f, a.v, b.v)
    [] e.op = "bool" ->
         LET a == Eval(e.a, env) IN IF a.k # "val" THEN a ELSE
         IF a.v.t \notin {"bool", "null"} THEN Unk
         ELSE IF e.f = "and" /\ ~Truth(a.v) THEN Val(BoolV(FALSE))
         ELSE IF e.f = "or" /\ Truth(a.v) THEN Val(BoolV(TRUE))
         ELSE LET b == Eval(e.b, env) IN IF b.k # "val" THEN b ELSE
              IF b.v.t \notin {"bool", "null"} THEN Unk ELSE Val(BoolV(Truth(b.v)))
    [] e.op = "neg" ->
         LET a == Eval(e.a, env) IN IF a.k # "val" THEN a ELSE
         IF IsNull(a.v) THEN Val(Null)
         ELSE IF a.v.t = "int" /\ a.v.b \in {2, 3, 4} THEN Unk
         ELSE IF a.v.t = "int" THEN (LET r == INeg(a.v) IN IF r.t = "unk" THEN Unk
                                      ELSE IF r.t = "ovf" THEN (IF "UncheckedArith" \in Dev THEN Panic ELSE Err) ELSE Val(r))
         ELSE IF a.v.t = "real" THEN (IF a.v.c = "fin" /\ a.v.n # 0 THEN Val(RealV(-a.v.n, a.v.d))
                                       ELSE IF a.v.c = "fin" THEN Val(NZero)
                                       ELSE IF a.v.c = "nzero" THEN Val(RealV(0, 1))
                                       ELSE IF a.v.c = "pinf" THEN Val(NInf) ELSE IF a.v.c = "ninf" THEN Val(PInf)
                                       ELSE IF a.v.c = "nan" THEN Val(NaN) ELSE IF a.v.c = "p63" THEN Val(N63) ELSE IF a.v.c = "n63" THEN Val(P63) ELSE Unk)
         ELSE Err
    [] e.op = "not" ->
         LET a == Eval(e.a, env) IN IF a.k # "val" THEN a ELSE
         IF IsNull(a.v) THEN Val(Null) ELSE IF a.v.t = "bool" THEN Val(BoolV(~a.v.v)) ELSE Err
    [] e.op = "in" ->
         LET a == Eval(e.a, env) IN IF a.k # "val" THEN a ELSE EvalIn(e.neg, a.v, e.vs, env, e.neg)
    [] e.op = "call" ->
         LET os == EvalSeq(e.args, env)
             bad == FirstBad(os)
         IN IF \E i \in 1..Len(os) : os[i].k # "val" THEN bad
            ELSE IF e.f = "array" THEN CreateArray([i \in 1..Len(os) |-> os[i].v])
            ELSE IF Len(os) = 1 THEN Call1(e.f, os[1].v)
            ELSE IF Len(os) = 2 THEN Call2(e.f, os[1].v, os[2].v)
            ELSE Unk
    [] e.op = "idx" ->
         LET a == Eval(e.a, env) IN IF a.k # "val" THEN a ELSE
         IF a.v.t # "arr" THEN Err ELSE
         LET i == Eval(e.i, env) IN IF i.k # "val" THEN i ELSE Subscript(a.v, i.v)
    [] e.op = "cast" ->
         LET a == Eval(e.a, env) IN IF a.k # "val" THEN a ELSE CastV(a.v, e.ty)
    [] e.op = "case" -> EvalCase(e.cl, e.el, env)
=============================================================================
