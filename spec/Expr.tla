-------------------------------- MODULE Expr --------------------------------
(***************************************************************************)
(* Meaning of sqlgrep expressions (src/execution/expression_execution.rs)  *)
(* over the abstract value universe of Values.tla  -- property C03 (and    *)
(* the HAVING / GROUP BY expressions of C04, the subscripts of C09).       *)
(*                                                                         *)
(* Expression trees are records:                                           *)
(*   [op |-> "lit", v]            [op |-> "col", name]                     *)
(*   [op |-> "cmp", f, a, b]      f \in {"=", "!=", "<", "<=", ">", ">="}  *)
(*   [op |-> "is", neg, a, b]     IS / IS NOT                              *)
(*   [op |-> "arith", f, a, b]    f \in {"+", "-", "*", "/"}               *)
(*   [op |-> "bool", f, a, b]     f \in {"and", "or"}                      *)
(*   [op |-> "neg", a]  [op |-> "not", a]                                  *)
(*   [op |-> "in", neg, a, vs]    [op |-> "call", f, args]                 *)
(*   [op |-> "idx", a, i]         [op |-> "cast", a, ty]                   *)
(*   [op |-> "case", cl, el]      cl = << <<cond, result>>, ... >>         *)
(*                                                                         *)
(* Eval(e, env) is an outcome: Val(v) | Err | Unk.   Unk = "this model     *)
(* does not predict the result" (specials of REAL arithmetic, calendar     *)
(* arithmetic, regular expressions, ...): such cases are only checked for  *)
(* totality (C09), never for a value.  Ideal never says more than the      *)
(* property text; where the code is known to differ the difference is a    *)
(* named deviation in Dev.                                                 *)
(***************************************************************************)
EXTENDS Values

ExprDevNames == {"InNullEq", "UncheckedArith", "SubscriptUnderflow"}

Val(v) == [k |-> "val", v |-> v]
Err    == [k |-> "err"]
Unk    == [k |-> "unk"]
Panic  == [k |-> "panic"]          \* only ever produced by a deviation

Lit(v)          == [op |-> "lit", v |-> v]
Col(n)          == [op |-> "col", name |-> n]
CmpE(f, a, b)   == [op |-> "cmp", f |-> f, a |-> a, b |-> b]
IsE(neg, a, b)  == [op |-> "is", neg |-> neg, a |-> a, b |-> b]
Arith(f, a, b)  == [op |-> "arith", f |-> f, a |-> a, b |-> b]
BoolE(f, a, b)  == [op |-> "bool", f |-> f, a |-> a, b |-> b]
NegE(a)         == [op |-> "neg", a |-> a]
NotE(a)         == [op |-> "not", a |-> a]
InE(neg, a, vs) == [op |-> "in", neg |-> neg, a |-> a, vs |-> vs]
Call(f, args)   == [op |-> "call", f |-> f, args |-> args]
Idx(a, i)       == [op |-> "idx", a |-> a, i |-> i]
Cast(a, ty)     == [op |-> "cast", a |-> a, ty |-> ty]
CaseE(cl, el)   == [op |-> "case", cl |-> cl, el |-> el]

-----------------------------------------------------------------------------
\* integer arithmetic on the [b, i] form; "ovf" = leaves the 64-bit range, "unk" = leaves the form
Bound == 1000000
XUnk == [t |-> "unk"]
XOvf == [t |-> "ovf"]
XDiv0 == [t |-> "div0"]
XNone == [t |-> "none"]
IntRes(b, i) == IF b = 0 /\ (i > Bound \/ i < -Bound) THEN XUnk
                ELSE IF b = 1 /\ i > 0 THEN XOvf
                ELSE IF b = -1 /\ i < 0 THEN XOvf
                ELSE IF (b # 0) /\ (i > Bound \/ i < -Bound) THEN XUnk
                ELSE [t |-> "int", b |-> b, i |-> i]

Large(x) == x.b = 0 /\ (x.i > Bound \/ x.i < -Bound)       \* an ordinary integer too large for the model's arithmetic (TLC integers are 32-bit)
IAdd(x, y) ==
  IF x.b \in {2, 3, 4} \/ y.b \in {2, 3, 4} \/ Large(x) \/ Large(y) THEN XUnk
  ELSE IF x.b = 0 /\ y.b = 0 THEN IntRes(0, x.i + y.i)
  ELSE IF x.b # 0 /\ y.b = 0 THEN IntRes(x.b, x.i + y.i)
  ELSE IF x.b = 0 /\ y.b # 0 THEN IntRes(y.b, x.i + y.i)
  ELSE IF x.b = y.b THEN XOvf
  ELSE IntRes(0, x.i + y.i - 1)                     \* MAX + MIN = -1

INeg(x) ==
  IF x.b \in {2, 3, 4} THEN XUnk
  ELSE IF x.b = 0 THEN IntRes(0, -x.i)
  ELSE IF x.b = 1 THEN IntRes(-1, 1 - x.i)           \* -(MAX + i) = MIN + 1 - i
  ELSE IF x.i = 0 THEN XOvf                          \* -MIN
  ELSE IntRes(1, 1 - x.i)                            \* -(MIN + i) = MAX + 1 - i

ISub(x, y) ==
  IF Large(x) \/ Large(y) THEN XUnk
  ELSE IF y.b = 0 THEN IAdd(x, IntV(-y.i))
  ELSE IF x.b = y.b THEN IntRes(0, x.i - y.i)
  ELSE IF x.b = 0 /\ y.b = 1 THEN IntRes(-1, x.i - y.i + 1)      \* x - (MAX + j) = MIN + 1 + x - j
  ELSE IF x.b = 0 /\ y.b = -1 THEN IntRes(1, x.i - y.i + 1)      \* x - (MIN + j) = MAX + 1 + x - j
  ELSE XOvf                                                      \* MAX-ish - MIN-ish or the reverse

IMul(x, y) ==
  IF Large(x) \/ Large(y) \/ (x.b = 0 /\ y.b = 0 /\ (x.i > 30000 \/ x.i < -30000 \/ y.i > 30000 \/ y.i < -30000)) THEN XUnk
  ELSE IF x.b = 0 /\ y.b = 0 THEN IntRes(0, x.i * y.i)
  ELSE LET big == IF x.b # 0 THEN x ELSE y
           sm  == IF x.b # 0 THEN y ELSE x
       IN IF sm.b # 0 THEN XOvf
          ELSE IF sm.i = 0 THEN IntV(0)
          ELSE IF sm.i = 1 THEN big
          ELSE IF sm.i = -1 THEN INeg(big)
          ELSE XOvf

TruncDiv(a, b) == IF (a >= 0) = (b > 0) THEN (IF a >= 0 THEN a \div b ELSE (-a) \div (-b))
                  ELSE -((IF a >= 0 THEN a ELSE -a) \div (IF b > 0 THEN b ELSE -b))

IDiv(x, y) ==
  IF y.b = 0 /\ y.i = 0 THEN XDiv0
  ELSE IF Large(x) \/ Large(y) THEN XUnk
  ELSE IF x.b = 0 /\ y.b = 0 THEN IntRes(0, TruncDiv(x.i, y.i))
  ELSE IF y.b = 0 /\ y.i = 1 THEN x
  ELSE IF y.b = 0 /\ y.i = -1 THEN INeg(x)
  ELSE IF x.b = 0 /\ y.b # 0 THEN IntV(0)            \* |small| / |huge| truncates to 0
  ELSE XUnk

\* dyadic rationals
RECURSIVE NormR(_, _)
NormR(n, d) == IF d > 1 /\ n % 2 = 0 THEN NormR(n \div 2, d \div 2) ELSE <<n, d>>
RealRes(n, d) ==
  LET p == NormR(n, d)
  IN IF p[1] > Bound \/ p[1] < -Bound \/ p[2] > 1024 THEN XUnk ELSE RealV(p[1], p[2])
MaxI(a, b) == IF a > b THEN a ELSE b
LargeR(x) == x.n > Bound \/ x.n < -Bound            \* a REAL too large for the model's arithmetic (e.g. seconds since 1970)
RAdd(x, y) == IF LargeR(x) \/ LargeR(y) THEN XUnk ELSE LET d == MaxI(x.d, y.d) IN RealRes(x.n * (d \div x.d) + y.n * (d \div y.d), d)
RSub(x, y) == IF LargeR(x) \/ LargeR(y) THEN XUnk ELSE LET d == MaxI(x.d, y.d) IN RealRes(x.n * (d \div x.d) - y.n * (d \div y.d), d)
RMul(x, y) == IF LargeR(x) \/ LargeR(y) \/ x.d * y.d > 1024 \/ x.n > 30000 \/ x.n < -30000 \/ y.n > 30000 \/ y.n < -30000 THEN XUnk
              ELSE IF x.n * y.n = 0 /\ (x.n < 0 \/ y.n < 0) THEN NZero        \* IEEE: (+0) * (negative) = -0.0
              ELSE RealRes(x.n * y.n, x.d * y.d)

-----------------------------------------------------------------------------
\* text <-> number literals (code points: '0' = 48, '-' = 45, '+' = 43, '.' = 46)
IsDigit(c) == c >= 48 /\ c <= 57
\* the Unicode property White_Space (what str::trim and char::is_whitespace go by)
IsWhiteSpace(c) == (c >= 9 /\ c <= 13) \/ c \in {32, 133, 160, 5760, 8232, 8233, 8239, 8287, 12288} \/ (c >= 8192 /\ c <= 8202)
RECURSIVE DigitsVal(_, _)
DigitsVal(s, acc) == IF s = <<>> THEN acc ELSE DigitsVal(Tail(s), acc * 10 + (Head(s) - 48))
AllDigits(s) == s # <<>> /\ \A i \in 1..Len(s) : IsDigit(s[i])

\* i64::from_str on short literals: [+-]?digits ; "unk" when too long for the model
ParseInt(s) ==
  LET neg  == s # <<>> /\ s[1] = 45
      body == IF s # <<>> /\ s[1] \in {45, 43} THEN Tail(s) ELSE s
  IN IF ~AllDigits(body) THEN XNone
     ELSE IF Len(body) > 9 THEN XUnk
     ELSE IntV(IF neg THEN -DigitsVal(body, 0) ELSE DigitsVal(body, 0))

RECURSIVE IndexOf(_, _, _)
IndexOf(s, c, i) == IF i > Len(s) THEN 0 ELSE IF s[i] = c THEN i ELSE IndexOf(s, c, i + 1)
RECURSIVE Pow(_, _)
Pow(b, e) == IF e = 0 THEN 1 ELSE b * Pow(b, e - 1)

\* f64::from_str:  Sign? ( 'inf' | 'infinity' | 'nan' | Number ),  Number ::= ( Digit+ | Digit+ '.' Digit* | Digit* '.' Digit+ ) ( 'e' Sign? Digit+ )?
\* (letters in either case, no blanks).  Values that are not dyadic or too long for the model are "unk"; texts outside the grammar are "none".
LowerA(c) == IF c >= 65 /\ c <= 90 THEN c + 32 ELSE c
ParseReal(s) ==
  LET neg  == s # <<>> /\ s[1] = 45
      body == IF s # <<>> /\ s[1] \in {45, 43} THEN Tail(s) ELSE s
      low  == [i \in 1..Len(body) |-> LowerA(body[i])]
      epos == IndexOf(low, 101, 1)
      mant == IF epos = 0 THEN body ELSE SubSeq(body, 1, epos - 1)
      ex0  == IF epos = 0 THEN <<>> ELSE SubSeq(body, epos + 1, Len(body))
      eneg == ex0 # <<>> /\ ex0[1] = 45
      exd  == IF ex0 # <<>> /\ ex0[1] \in {45, 43} THEN Tail(ex0) ELSE ex0
      dot  == IndexOf(mant, 46, 1)
      ip   == IF dot = 0 THEN mant ELSE SubSeq(mant, 1, dot - 1)
      fp   == IF dot = 0 THEN <<>> ELSE SubSeq(mant, dot + 1, Len(mant))
      Digits(x) == \A i \in 1..Len(x) : IsDigit(x[i])
  IN IF low \in {<<105, 110, 102>>, <<105, 110, 102, 105, 110, 105, 116, 121>>} THEN (IF neg THEN NInf ELSE PInf)
     ELSE IF low = <<110, 97, 110>> THEN NaN            \* '-nan' sets the sign bit: the same value (C16), the harness does not look at the bit
     ELSE IF ~Digits(ip) \/ ~Digits(fp) \/ (ip = <<>> /\ fp = <<>>) THEN XNone
     ELSE IF epos # 0 /\ (exd = <<>> \/ ~Digits(exd)) THEN XNone
     ELSE IF Len(exd) > 1 \/ Len(ip) > 5 \/ Len(fp) > 3 THEN XUnk
     ELSE LET e == IF exd = <<>> THEN 0 ELSE (IF eneg THEN -DigitsVal(exd, 0) ELSE DigitsVal(exd, 0))
              up == IF e > 0 THEN e ELSE 0
              dn == Len(fp) + (IF e < 0 THEN -e ELSE 0)
          IN IF Len(ip) + Len(fp) + up > 8 \/ dn > 4 THEN XUnk
             ELSE LET num == (DigitsVal(ip, 0) * Pow(10, Len(fp)) + DigitsVal(fp, 0)) * Pow(10, up)
                      \* num / 10^dn is dyadic iff the factors of 5 of the denominator divide num
                      f5  == Pow(5, dn)
                  IN IF num % f5 # 0 THEN XUnk
                     ELSE IF num = 0 /\ neg THEN NZero
                     ELSE RealRes((IF neg THEN -1 ELSE 1) * (num \div f5), Pow(2, dn))

RECURSIVE DigitsOf(_)
DigitsOf(n) == IF n < 10 THEN <<48 + n>> ELSE DigitsOf(n \div 10) \o <<48 + (n % 10)>>
IntText(i) == IF i < 0 THEN <<45>> \o DigitsOf(-i) ELSE DigitsOf(i)
\* the decimal text of an integer in [b, i] form (TLC integers are 32-bit: the high digits are constant, the low ones computed)
PadDigits(n, w) == LET d == DigitsOf(n) IN [j \in 1..(w - Len(d)) |-> 48] \o d
IntTextB(v) ==
  CASE v.b = 0  -> IntText(v.i)
    [] v.b = 1  -> <<57, 50, 50, 51, 51, 55, 50, 48, 51, 54, 56, 53, 52>> \o PadDigits(775807 + v.i, 6)            \* 9223372036854|775807 + i  (i <= 0)
    [] v.b = -1 -> <<45, 57, 50, 50, 51, 51, 55, 50, 48, 51, 54, 56, 53, 52>> \o PadDigits(775808 - v.i, 6)        \* -(9223372036854|775808 - i)  (i >= 0)
    [] v.b = 2  -> <<52, 50, 57, 52, 57>> \o PadDigits(67296 + v.i, 5)                                              \* 42949|67296 + i
    [] v.b = 3  -> <<57, 48, 48, 55, 49, 57, 57, 50, 53, 52, 55>> \o PadDigits(40992 + v.i, 5)                      \* 90071992547|40992 + i
    [] v.b = 4  -> <<50, 49, 52, 55, 52>> \o PadDigits(83648 + v.i, 5)                                              \* 21474|83648 + i

-----------------------------------------------------------------------------
\* Calendar (proleptic Gregorian; semantic checks run under TZ=UTC) and intervals.
\* A TIMESTAMP is <<y, mo, d, h, mi, s, us>>; an INTERVAL a number of milliseconds (|ms| <= IvBound in the model).
DaysIn(y, m) == IF m \in {1, 3, 5, 7, 8, 10, 12} THEN 31 ELSE IF m # 2 THEN 30
                ELSE IF (y % 4 = 0 /\ y % 100 # 0) \/ y % 400 = 0 THEN 29 ELSE 28
ValidDate(y, m, d) == y >= 1 /\ y <= 9999 /\ m >= 1 /\ m <= 12 /\ d >= 1 /\ d <= DaysIn(y, m)
ValidTime(h, mi, s) == h >= 0 /\ h <= 23 /\ mi >= 0 /\ mi <= 59 /\ s >= 0 /\ s <= 59
IvBound == 1000000000

\* days since 1970-01-01 (\div is floor division for a positive divisor)
DaysFromCivil(y, m, d) ==
  LET y1  == IF m <= 2 THEN y - 1 ELSE y
      era == y1 \div 400
      yoe == y1 - era * 400
      mp  == IF m > 2 THEN m - 3 ELSE m + 9
      doy == (153 * mp + 2) \div 5 + d - 1
      doe == yoe * 365 + yoe \div 4 - yoe \div 100 + doy
  IN era * 146097 + doe - 719468
CivilFromDays(z0) ==
  LET z   == z0 + 719468
      era == z \div 146097
      doe == z - era * 146097
      yoe == (doe - doe \div 1460 + doe \div 36524 - doe \div 146096) \div 365
      doy == doe - (365 * yoe + yoe \div 4 - yoe \div 100)
      mp  == (5 * doy + 2) \div 153
      d   == doy - (153 * mp + 2) \div 5 + 1
      m   == IF mp < 10 THEN mp + 3 ELSE mp - 9
      y   == yoe + era * 400
  IN <<IF m <= 2 THEN y + 1 ELSE y, m, d>>
TsDays(ts) == DaysFromCivil(ts.f[1], ts.f[2], ts.f[3])
DayMs(f) == ((f[4] * 60 + f[5]) * 60 + f[6]) * 1000 + f[7] \div 1000           \* milliseconds since midnight (< 86 400 000)

\* timestamp + milliseconds (|ms| <= IvBound); XUnk when the year leaves 1..9999
TsAddMs(ts, ms) ==
  LET f  == ts.f
      t  == DayMs(f) + ms
      dd == t \div 86400000
      r  == t - dd * 86400000
      c  == CivilFromDays(TsDays(ts) + dd)
      sc == r \div 1000
  IN IF c[1] < 1 \/ c[1] > 9999 THEN XUnk
     ELSE TsV(<<c[1], c[2], c[3], sc \div 3600, (sc \div 60) % 60, sc % 60, (r % 1000) * 1000 + (f[7] % 1000)>>)
\* timestamp - timestamp as an interval; XUnk beyond 11 days or with sub-millisecond parts (the projection truncates)
TsDiff(a, b) ==
  LET dd == TsDays(a) - TsDays(b)
  IN IF dd > 11 \/ dd < -11 \/ a.f[7] % 1000 # 0 \/ b.f[7] % 1000 # 0 THEN XUnk
     ELSE IvV(dd * 86400000 + DayMs(a.f) - DayMs(b.f))

Digits2(s, i) == IsDigit(s[i]) /\ IsDigit(s[i + 1])
Num(s, i, n) == DigitsVal(SubSeq(s, i, i + n - 1), 0)
ParseTs(s) ==      \* the strict "%Y-%m-%d %H:%M:%S" form with 4-digit year and 2-digit parts; other spellings: not modelled
  IF Len(s) = 19 /\ (\A i \in {1, 2, 3, 4, 6, 7, 9, 10, 12, 13, 15, 16, 18, 19} : IsDigit(s[i]))
     /\ s[5] = 45 /\ s[8] = 45 /\ s[11] = 32 /\ s[14] = 58 /\ s[17] = 58
  THEN LET y == Num(s, 1, 4) m == Num(s, 6, 2) d == Num(s, 9, 2) h == Num(s, 12, 2) mi == Num(s, 15, 2) sc == Num(s, 18, 2)
       IN IF ValidDate(y, m, d) /\ ValidTime(h, mi, sc) THEN TsV(<<y, m, d, h, mi, sc, 0>>)
          ELSE IF sc = 60 THEN XUnk ELSE XNone
  ELSE IF \E i \in 1..Len(s) : IsDigit(s[i]) THEN (IF \A i \in 1..Len(s) : IsDigit(s[i]) \/ s[i] \in {45, 43, 58} \/ IsWhiteSpace(s[i]) THEN XUnk ELSE XNone)
  ELSE XNone

RECURSIVE SplitOn(_, _, _)
SplitOn(s, c, cur) == IF s = <<>> THEN <<cur>> ELSE IF Head(s) = c THEN <<cur>> \o SplitOn(Tail(s), c, <<>>) ELSE SplitOn(Tail(s), c, Append(cur, Head(s)))
\* "h:m:s" (three i64 literals); totals beyond the model's range are XUnk (the code must still not crash on them: C09)
ParseIv(s) ==
  LET ps == SplitOn(s, 58, <<>>)
  IN IF Len(ps) # 3 THEN XNone
     ELSE LET h == ParseInt(ps[1]) m == ParseInt(ps[2]) sc == ParseInt(ps[3])
          IN IF h.t = "none" \/ m.t = "none" \/ sc.t = "none" THEN XNone
             ELSE IF h.t = "unk" \/ m.t = "unk" \/ sc.t = "unk" THEN XUnk
             ELSE IF h.i > 200 \/ h.i < -200 \/ m.i > 10000 \/ m.i < -10000 \/ sc.i > 100000 \/ sc.i < -100000 THEN XUnk
             ELSE IvV((h.i * 3600 + m.i * 60 + sc.i) * 1000)

\* the Display form of timestamps and intervals (text / CSV records, ::text)
Two2(n) == <<48 + (n \div 10), 48 + (n % 10)>>
Three3(n) == <<48 + (n \div 100), 48 + ((n \div 10) % 10), 48 + (n % 10)>>
Four4(n) == <<48 + (n \div 1000), 48 + ((n \div 100) % 10), 48 + ((n \div 10) % 10), 48 + (n % 10)>>

-----------------------------------------------------------------------------
LowerC(c) == IF c >= 65 /\ c <= 90 THEN c + 32 ELSE IF c = 201 THEN 233 ELSE c
UpperC(c) == IF c >= 97 /\ c <= 122 THEN c - 32 ELSE IF c = 233 THEN 201 ELSE c
SimpleCase(s) == \A i \in 1..Len(s) : s[i] < 128 \/ s[i] \in {201, 233}

ElemTypeOf(v) == CASE v.t = "int" -> "int" [] v.t = "real" -> "real" [] v.t = "bool" -> "bool" [] v.t = "text" -> "text"
                   [] v.t = "ts" -> "ts" [] v.t = "iv" -> "iv" [] v.t = "arr" -> "arr" [] OTHER -> "null"

\* stable dedup + sort of an array's elements by the as-built order (array_unique = BTreeSet)
RECURSIVE InsertSorted(_, _)
InsertSorted(xs, v) ==
  IF xs = <<>> THEN <<v>>
  ELSE LET c == CmpB(v, Head(xs))
       IN IF c = 0 THEN xs ELSE IF c < 0 THEN <<v>> \o xs ELSE <<Head(xs)>> \o InsertSorted(Tail(xs), v)
RECURSIVE SortUnique(_, _)
SortUnique(xs, acc) == IF xs = <<>> THEN acc ELSE SortUnique(Tail(xs), InsertSorted(acc, Head(xs)))

-----------------------------------------------------------------------------
\* comparison as WHERE sees it
CmpResult(f, c) == CASE f = "="  -> c = 0  [] f = "!=" -> c # 0 [] f = "<" -> c < 0
                     [] f = "<=" -> c <= 0 [] f = ">"  -> c > 0 [] f = ">=" -> c >= 0

\* comparing n1/d1 with n2/d2 cross-multiplies: beyond TLC's integers when one side is large and the other is not whole
BigNum(v) == (v.t = "real" /\ v.c = "fin" /\ (v.n > Bound \/ v.n < -Bound)) \/ (v.t = "int" /\ v.b = 0 /\ (v.i > Bound \/ v.i < -Bound))
Fractional(v) == v.t = "real" /\ v.c = "fin" /\ v.d > 1
BigCross(a, b) == IsNum(a) /\ IsNum(b) /\ ((BigNum(a) /\ Fractional(b)) \/ (BigNum(b) /\ Fractional(a)))
Comparable(a, b) == \/ a.t = b.t /\ a.t # "arr"
                    \/ IsNum(a) /\ IsNum(b)
                    \/ a.t = "arr" /\ b.t = "arr" /\ a.et = b.et

RECURSIVE Compare(_, _, _)
Compare(f, a, b) ==
  IF (a.t = "ts" /\ b.t = "text") \/ (a.t = "text" /\ b.t = "ts")
  THEN \* a TEXT operand next to a TIMESTAMP is read as a timestamp literal; text that is none has no value
       LET tx == IF a.t = "text" THEN a ELSE b
           p  == ParseTs(tx.s)
       IN IF p.t = "unk" THEN Unk ELSE IF p.t = "none" THEN Err
          ELSE IF a.t = "text" THEN Compare(f, p, b) ELSE Compare(f, a, p)
  ELSE IF IsNull(a) \/ IsNull(b) THEN Val(BoolV(FALSE))
  ELSE IF ~Comparable(a, b) THEN Unk
  ELSE IF BigCross(a, b) THEN Unk
  ELSE IF "NumVariantOrder" \in Dev /\ a.t # b.t
       THEN \* as built: derived PartialEq / PartialOrd compare the variant first
            Val(BoolV(CmpResult(f, CmpB(a, b))))
  ELSE IF a.t = "real" /\ b.t = "real" /\ "FloatNanOrd" \in Dev /\ (a.c \in {"nan", "nnan"} \/ b.c \in {"nan", "nnan"})
       THEN Val(BoolV(f = "!="))                     \* IEEE: every comparison with NaN is false, != true
  ELSE Val(BoolV(CmpResult(f, CmpB(a, b))))

ArithV(f, a, b) ==
  IF IsNull(a) \/ IsNull(b) THEN Val(Null)
  ELSE IF a.t = "int" /\ b.t = "int" /\ (a.b \in {2, 3, 4} \/ b.b \in {2, 3, 4}) THEN Unk       \* operands near 2^32 / 2^53: arithmetic not modelled
  ELSE IF a.t = "int" /\ b.t = "int" THEN
         LET r == CASE f = "+" -> IAdd(a, b) [] f = "-" -> ISub(a, b) [] f = "*" -> IMul(a, b) [] f = "/" -> IDiv(a, b)
         IN IF r.t = "unk" THEN Unk
            ELSE IF r.t \in {"ovf", "div0"} THEN (IF "UncheckedArith" \in Dev THEN Panic ELSE Err)
            ELSE Val(r)
  ELSE IF a.t = "real" /\ b.t = "real" THEN
         IF a.c # "fin" \/ b.c # "fin" \/ f = "/" THEN Unk
         ELSE LET r == CASE f = "+" -> RAdd(a, b) [] f = "-" -> RSub(a, b) [] f = "*" -> RMul(a, b)
              IN IF r.t = "unk" THEN Unk ELSE Val(r)
  ELSE IF {a.t, b.t} \subseteq {"ts", "iv"} THEN
         \* interval +- interval, timestamp +- interval, interval + timestamp, timestamp - timestamp; nothing else has a value
         LET big(x) == x.t = "iv" /\ (x.ms > IvBound \/ x.ms < -IvBound)
         IN IF big(a) \/ big(b) THEN Unk
            ELSE IF a.t = "iv" /\ b.t = "iv" /\ f \in {"+", "-"} THEN Val(IvV(IF f = "+" THEN a.ms + b.ms ELSE a.ms - b.ms))
            ELSE IF a.t = "ts" /\ b.t = "iv" /\ f \in {"+", "-"} THEN
                   (LET r == TsAddMs(a, IF f = "+" THEN b.ms ELSE -b.ms) IN IF r.t = "unk" THEN Unk ELSE Val(r))
            ELSE IF a.t = "iv" /\ b.t = "ts" /\ f = "+" THEN (LET r == TsAddMs(b, a.ms) IN IF r.t = "unk" THEN Unk ELSE Val(r))
            ELSE IF a.t = "ts" /\ b.t = "ts" /\ f = "-" THEN (LET r == TsDiff(a, b) IN IF r.t = "unk" THEN Unk ELSE Val(r))
            ELSE Err
  ELSE Err                                                  \* type mismatch

\* the Display form used by ::text (and by the text / CSV printers)
NoText == <<-1>>
TextOf(v) ==
  CASE v.t = "int" -> IntTextB(v)
    [] v.t = "bool" -> IF v.v THEN <<116, 114, 117, 101>> ELSE <<102, 97, 108, 115, 101>>
    [] v.t = "real" /\ v.c = "fin" /\ v.d <= 4 ->
         LET neg == v.n < 0
             an  == IF neg THEN -v.n ELSE v.n
             ip  == an \div v.d
             fr  == ((an % v.d) * 100) \div v.d
         IN (IF neg THEN <<45>> ELSE <<>>) \o DigitsOf(ip) \o <<46>> \o <<48 + (fr \div 10), 48 + (fr % 10)>>
    [] OTHER -> NoText

\* Display (src/model.rs): TEXT quoted, arrays in braces, timestamps %Y-%m-%d %H:%M:%S.%3f, intervals hh:mm:ss.mmm with the hours
\* not wrapped at 24 (negative intervals are not modelled)
Quote == <<39>>
RECURSIVE Show(_), ShowSeq(_, _)
Show(v) ==
  CASE v.t = "null" -> <<78, 85, 76, 76>>
    [] v.t = "iv" -> IF v.ms < 0 THEN NoText
                     ELSE LET secs == v.ms \div 1000
                              h == secs \div 3600
                          IN (IF h < 100 THEN Two2(h) ELSE DigitsOf(h)) \o <<58>> \o Two2((secs \div 60) % 60) \o <<58>> \o Two2(secs % 60) \o <<46>> \o Three3(v.ms % 1000)
    [] v.t = "ts" -> Four4(v.f[1]) \o <<45>> \o Two2(v.f[2]) \o <<45>> \o Two2(v.f[3]) \o <<32>> \o Two2(v.f[4]) \o <<58>> \o Two2(v.f[5]) \o <<58>> \o Two2(v.f[6])
                     \o <<46>> \o Three3(v.f[7] \div 1000)
    [] v.t = "text" -> Quote \o v.s \o Quote
    [] v.t = "arr" -> LET b == ShowSeq(v.xs, TRUE) IN IF b = NoText THEN NoText ELSE <<123>> \o b \o <<125>>
    [] OTHER -> TextOf(v)
ShowSeq(xs, first) ==
  IF xs = <<>> THEN <<>>
  ELSE LET h == Show(Head(xs)) IN
       IF h = NoText THEN NoText
       ELSE LET r == ShowSeq(Tail(xs), FALSE) IN
            IF r = NoText THEN NoText ELSE (IF first THEN <<>> ELSE <<44, 32>>) \o h \o r

CastV(v, ty) ==
  IF v.t = "text" THEN
     CASE ty = "text" -> Val(v)
       [] ty = "int"  -> LET r == ParseInt(v.s) IN IF r.t = "unk" THEN Unk ELSE IF r.t = "none" THEN Err ELSE Val(r)
       [] ty = "real" -> LET r == ParseReal(v.s) IN IF r.t = "unk" THEN Unk ELSE IF r.t = "none" THEN Err ELSE Val(r)
       [] ty = "boolean" -> IF v.s = <<116, 114, 117, 101>> THEN Val(BoolV(TRUE))
                            ELSE IF v.s = <<102, 97, 108, 115, 101>> THEN Val(BoolV(FALSE)) ELSE Err
       [] ty = "timestamp" -> LET r == ParseTs(v.s) IN IF r.t = "unk" THEN Unk ELSE IF r.t = "none" THEN Err ELSE Val(r)
       [] ty = "interval" -> LET r == ParseIv(v.s) IN IF r.t = "unk" THEN Unk ELSE IF r.t = "none" THEN Err ELSE Val(r)
       [] OTHER -> Unk
  ELSE IF IsNull(v) THEN Unk
  ELSE IF (ty = "int" /\ v.t = "int") \/ (ty = "real" /\ v.t = "real") \/ (ty = "boolean" /\ v.t = "bool")
          \/ (ty = "timestamp" /\ v.t = "ts") \/ (ty = "interval" /\ v.t = "iv") THEN Val(v)
  ELSE IF v.t = "iv" /\ ty = "int" THEN Val(IntV(TruncDiv(v.ms, 1000)))                       \* whole seconds, towards zero
  ELSE IF v.t = "iv" /\ ty = "real" THEN (IF v.ms % 125 = 0 THEN (LET r == RealRes(v.ms \div 125, 8) IN IF r.t = "unk" THEN Unk ELSE Val(r)) ELSE Unk)
  ELSE IF ty = "text" THEN (LET s == Show(v) IN IF s = NoText THEN Unk ELSE Val(TextV(s)))
  ELSE Unk

RECURSIVE ISqrt(_, _)
ISqrt(n, r) == IF r * r >= n THEN r ELSE ISqrt(n, r + 1)
PerfectSquare(n) == n >= 0 /\ ISqrt(n, 0) * ISqrt(n, 0) = n

\* pow(INT, INT): checked_pow with the exponent converted to u32
RECURSIVE BitLen(_)
BitLen(n) == IF n = 0 THEN 0 ELSE 1 + BitLen(n \div 2)
AbsI(n) == IF n < 0 THEN -n ELSE n
IPow(x, y) ==
  IF y.b \in {1, -1, 3} THEN XNone                                   \* negative or beyond u32: no value
  ELSE IF y.b # 0 \/ Large(x) \/ Large(y) THEN XUnk
  ELSE IF y.i < 0 THEN XNone
  ELSE IF y.i = 0 THEN IntV(1)
  ELSE IF y.i = 1 THEN x
  ELSE IF x.b \in {1, -1} THEN XOvf
  ELSE IF x.b # 0 THEN XUnk
  ELSE IF x.i \in {0, 1} THEN x
  ELSE IF x.i = -1 THEN IntV(IF y.i % 2 = 0 THEN 1 ELSE -1)
  ELSE IF x.i = -2 /\ y.i = 63 THEN MinV(0)
  ELSE IF (BitLen(AbsI(x.i)) - 1) * y.i >= 63 THEN XOvf                \* |x|^y >= 2^63
  ELSE IF BitLen(AbsI(x.i)) * y.i <= 19 THEN IntV(Pow(x.i, y.i))       \* |x|^y < 2^19
  ELSE XUnk
\* pow(REAL, REAL) for a dyadic base and a small whole exponent (exact in f64); everything else is left to the floating-point library
RECURSIVE RPow(_, _)
RPow(x, k) == IF k = 0 THEN RealV(1, 1) ELSE LET r == RPow(x, k - 1) IN IF r.t = "unk" THEN r ELSE RMul(r, x)

\* regular expressions: only patterns made of letters, digits and blanks with an optional ^ in front and $ at the end are given a meaning
PlainPat(p) == \A i \in 1..Len(p) : (p[i] >= 97 /\ p[i] <= 122) \/ (p[i] >= 48 /\ p[i] <= 57) \/ p[i] = 32
PatMatch(s, p0) ==
  LET front == p0 # <<>> /\ Head(p0) = 94
      p1 == IF front THEN Tail(p0) ELSE p0
      back == p1 # <<>> /\ p1[Len(p1)] = 36
      p == IF back THEN SubSeq(p1, 1, Len(p1) - 1) ELSE p1
      n == Len(p)
      at(i) == i + n <= Len(s) /\ SubSeq(s, i + 1, i + n) = p
  IN IF p0 \in {<<40>>, <<41>>, <<91, 97>>, <<42>>, <<97, 123, 50>>, <<92>>} THEN XNone         \* ( ) [a * a{2 \ : not regular expressions
     ELSE IF ~PlainPat(p) THEN XUnk
     ELSE BoolV(IF front /\ back THEN s = p ELSE IF front THEN at(0) ELSE IF back THEN (Len(s) >= n /\ at(Len(s) - n)) ELSE \E i \in 0..Len(s) : at(i))

\* a recorded evaluation may carry the regex crate's verdicts for the (text, pattern) pairs it met: env.rx = << [s, p, m] >>, m \in {"t", "f", "bad"}
RxHit(env, s, p) ==
  IF "rx" \notin DOMAIN env THEN 0
  ELSE LET hits == {i \in 1..Len(env.rx) : env.rx[i].s = s /\ env.rx[i].p = p}
       IN IF hits = {} THEN 0 ELSE CHOOSE i \in hits : TRUE

\* date_trunc: the named part and everything below it is reset
TruncParts == <<"year", "month", "day", "hour", "minute", "second", "milliseconds", "microseconds">>
AsciiText(str) == CASE str = "year" -> <<121, 101, 97, 114>> [] str = "month" -> <<109, 111, 110, 116, 104>> [] str = "day" -> <<100, 97, 121>>
                    [] str = "hour" -> <<104, 111, 117, 114>> [] str = "minute" -> <<109, 105, 110, 117, 116, 101>> [] str = "second" -> <<115, 101, 99, 111, 110, 100>>
                    [] str = "milliseconds" -> <<109, 105, 108, 108, 105, 115, 101, 99, 111, 110, 100, 115>>
                    [] str = "microseconds" -> <<109, 105, 99, 114, 111, 115, 101, 99, 111, 110, 100, 115>>
TruncTs(part, ts) ==
  LET f == ts.f
      k == IF \E i \in 1..8 : AsciiText(TruncParts[i]) = part THEN CHOOSE i \in 1..8 : AsciiText(TruncParts[i]) = part ELSE 0
  IN IF k = 0 THEN XNone
     ELSE IF k >= 4 /\ (f[1] < 1678 \/ f[1] > 2261) THEN XUnk          \* sub-day truncation goes through i64 nanoseconds since 1970
     ELSE TsV(CASE k = 1 -> <<f[1], 1, 1, 0, 0, 0, 0>> [] k = 2 -> <<f[1], f[2], 1, 0, 0, 0, 0>> [] k = 3 -> <<f[1], f[2], f[3], 0, 0, 0, 0>>
                [] k = 4 -> <<f[1], f[2], f[3], f[4], 0, 0, 0>> [] k = 5 -> <<f[1], f[2], f[3], f[4], f[5], 0, 0>>
                [] k = 6 -> <<f[1], f[2], f[3], f[4], f[5], f[6], 0>> [] k = 7 -> <<f[1], f[2], f[3], f[4], f[5], f[6], f[7] - (f[7] % 1000)>>
                [] k = 8 -> f)

\* make_timestamp(year, month, day, hour, minute, second, microsecond): a date that does not exist is NULL (as built; the property
\* only demands that no part is wrapped around or otherwise altered)
MakeTs(a) ==
  IF \E i \in 1..7 : IsNull(a[i]) THEN Unk
  ELSE IF \E i \in 1..7 : a[i].t # "int" THEN Err
  ELSE IF \E i \in 2..7 : a[i].b # 0 THEN Val(Null)                       \* beyond u32 or negative: not a date part
  ELSE IF a[1].b \in {1, -1, 3, 2} THEN Val(Null)                         \* beyond i32
  ELSE IF a[1].b # 0 THEN Unk
  ELSE LET y == a[1].i m == a[2].i d == a[3].i h == a[4].i mi == a[5].i sc == a[6].i us == a[7].i
       IN IF m < 1 \/ m > 12 \/ d < 1 \/ d > 31 \/ ~ValidTime(h, mi, sc) \/ us < 0 THEN Val(Null)
          ELSE IF us >= 1000000 THEN (IF sc = 59 /\ us < 2000000 THEN Unk ELSE Val(Null))        \* leap-second encoding: not modelled
          ELSE IF y < 1 \/ y > 9999 THEN (IF y > 262142 \/ y < -262143 THEN Val(Null) ELSE Unk)
          ELSE IF d > DaysIn(y, m) THEN Val(Null)
          ELSE Val(TsV(<<y, m, d, h, mi, sc, us>>))

\* EXTRACT(EPOCH ...): seconds since 1970-01-01 as a REAL (whole seconds within the model's integer range)
EpochOf(ts) ==
  IF ts.f[1] < 1902 \/ ts.f[1] > 2037 \/ ts.f[7] # 0 THEN XUnk
  ELSE RealV(TsDays(ts) * 86400 + (ts.f[4] * 60 + ts.f[5]) * 60 + ts.f[6], 1)

Truth(v) == v.t = "bool" /\ v.v          \* Value::bool(): anything that is not TRUE counts as false

\* functions of one / two already evaluated arguments
Call1(f, a) ==
  CASE f = "abs" ->
         IF IsNull(a) THEN Val(Null)
         ELSE IF a.t = "int" /\ a.b \in {2, 3, 4} THEN Val(a)
         ELSE IF a.t = "int" THEN (IF a.b = 0 THEN Val(IntV(IF a.i < 0 THEN -a.i ELSE a.i))
                                   ELSE IF a.b = 1 THEN Val(a)
                                   ELSE LET r == INeg(a) IN IF r.t = "ovf" THEN (IF "UncheckedArith" \in Dev THEN Panic ELSE Err) ELSE Val(r))
         ELSE IF a.t = "real" THEN (IF a.c = "fin" THEN Val(RealV(IF a.n < 0 THEN -a.n ELSE a.n, a.d)) ELSE Unk)
         ELSE IF a.t = "iv" THEN Val(IvV(IF a.ms < 0 THEN -a.ms ELSE a.ms))
         ELSE Err
    [] f = "length" -> IF a.t = "text" THEN Val(IntV(Len(a.s))) ELSE Err
    [] f = "upper" -> IF a.t = "text" THEN (IF SimpleCase(a.s) THEN Val(TextV([i \in 1..Len(a.s) |-> UpperC(a.s[i])])) ELSE Unk) ELSE Err
    [] f = "lower" -> IF a.t = "text" THEN (IF SimpleCase(a.s) THEN Val(TextV([i \in 1..Len(a.s) |-> LowerC(a.s[i])])) ELSE Unk) ELSE Err
    [] f = "array_length" -> IF a.t = "arr" THEN Val(IntV(Len(a.xs))) ELSE Err
    [] f = "array_unique" -> IF a.t = "arr" THEN Val(ArrV(a.et, SortUnique(a.xs, <<>>))) ELSE Err
    [] f = "sqrt" ->
         IF IsNull(a) THEN Val(Null)
         ELSE IF a.t # "real" THEN Err
         ELSE IF a.c = "fin" THEN (IF a.n < 0 THEN Val(NaN)
                                   ELSE IF LargeR(a) THEN Unk
                                   ELSE IF PerfectSquare(a.n) /\ PerfectSquare(a.d) THEN Val(RealV(ISqrt(a.n, 0), ISqrt(a.d, 0))) ELSE Unk)
         ELSE IF a.c \in {"nzero", "pinf", "nan", "nnan"} THEN Val(a)
         ELSE IF a.c \in {"ninf", "n63"} THEN Val(NaN)
         ELSE Unk
    [] f = "extract_epoch" -> IF a.t = "ts" THEN (LET r == EpochOf(a) IN IF r.t = "unk" THEN Unk ELSE Val(r)) ELSE Err
    [] f \in {"extract_year", "extract_month", "extract_day", "extract_hour", "extract_minute", "extract_second"} ->
         IF a.t = "ts" THEN Val(IntV(a.f[CASE f = "extract_year" -> 1 [] f = "extract_month" -> 2 [] f = "extract_day" -> 3
                                            [] f = "extract_hour" -> 4 [] f = "extract_minute" -> 5 [] f = "extract_second" -> 6]))
         ELSE Err
    [] OTHER -> Unk

Call2(f, a, b) ==
  CASE f \in {"least", "greatest"} ->
         IF IsNull(a) \/ IsNull(b) THEN Val(Null)
         ELSE IF a.t # b.t \/ a.t \notin {"int", "real", "ts", "iv"} THEN Err
         ELSE IF a.t = "real" /\ (a.c \in {"nan", "nnan", "nzero"} \/ b.c \in {"nan", "nnan", "nzero"}) THEN Unk
         ELSE IF BigCross(a, b) THEN Unk
         ELSE LET c == Cmp(a, b) IN Val(IF (f = "least") = (c <= 0) THEN a ELSE b)
    [] f = "pow" ->
         IF IsNull(a) \/ IsNull(b) THEN Val(Null)
         ELSE IF a.t = "int" /\ b.t = "int" THEN
                (LET r == IPow(a, b) IN IF r.t = "unk" THEN Unk ELSE IF r.t = "none" THEN Err
                                         ELSE IF r.t = "ovf" THEN (IF "UncheckedArith" \in Dev THEN Panic ELSE Err) ELSE Val(r))
         ELSE IF a.t = "real" /\ b.t = "real" THEN
                (IF a.c = "fin" /\ b.c = "fin" /\ b.d = 1 /\ b.n >= 0 /\ b.n <= 4
                 THEN (LET r == RPow(a, b.n) IN IF r.t = "unk" \/ (r.t = "real" /\ r.c # "fin") THEN Unk ELSE Val(r)) ELSE Unk)
         ELSE Err
    [] f = "regex_matches" ->
         IF b.t # "text" THEN (IF IsNull(b) THEN Unk ELSE Err)
         ELSE IF IsNull(a) THEN (IF PatMatch(<<>>, b.s).t \notin {"unk", "none"} THEN Val(BoolV(FALSE)) ELSE Unk)
         ELSE IF a.t # "text" THEN Err
         ELSE (LET r == PatMatch(a.s, b.s) IN IF r.t = "unk" THEN Unk ELSE IF r.t = "none" THEN Err ELSE Val(r))
    [] f = "date_trunc" ->
         IF IsNull(a) \/ IsNull(b) THEN Unk
         ELSE IF a.t # "text" \/ b.t # "ts" THEN Err
         ELSE (LET r == TruncTs(a.s, b) IN IF r.t = "unk" THEN Unk ELSE IF r.t = "none" THEN Err ELSE Val(r))
    [] f = "array_cat" -> IF a.t = "arr" /\ b.t = "arr" /\ a.et = b.et THEN Val(ArrV(a.et, a.xs \o b.xs)) ELSE Err
    [] f = "array_append" -> IF a.t = "arr" /\ ElemTypeOf(b) = a.et /\ b.t # "arr" THEN Val(ArrV(a.et, Append(a.xs, b)))
                             ELSE IF a.t = "arr" /\ b.t = "arr" THEN Unk ELSE Err
    [] f = "array_prepend" -> IF b.t = "arr" /\ ElemTypeOf(a) = b.et /\ a.t # "arr" THEN Val(ArrV(b.et, <<a>> \o b.xs))
                              ELSE IF a.t = "arr" /\ b.t = "arr" THEN Unk ELSE Err
    [] OTHER -> Unk

\* array[...]: the element type is that of the first non-NULL element; all must agree
CreateArray(xs) ==
  LET nn == SelectSeq(xs, LAMBDA v : ~IsNull(v))
  IN IF nn = <<>> THEN Err
     ELSE IF \E i \in 1..Len(nn) : nn[i].t = "arr" THEN Unk
     ELSE IF \E i \in 1..Len(nn) : ElemTypeOf(nn[i]) # ElemTypeOf(nn[1]) THEN Err
     ELSE Val(ArrV(ElemTypeOf(nn[1]), xs))

Subscript(a, i) ==
  IF a.t # "arr" THEN Err
  ELSE IF i.t # "int" THEN Err
  ELSE IF i.b = 0 /\ i.i >= 1 /\ i.i <= Len(a.xs) THEN Val(a.xs[i.i])
  ELSE IF i.b = -1 /\ i.i = 0 /\ "SubscriptUnderflow" \in Dev THEN Panic     \* i64::MIN - 1 overflows (debug)
  ELSE Val(Null)                                                            \* 0, negative, beyond the end

-----------------------------------------------------------------------------
\* outcome plumbing: the first child (in evaluation order) that is not a value decides
RECURSIVE Eval(_, _), EvalSeq(_, _), EvalCase(_, _, _), EvalIn(_, _, _, _, _)

FirstBad(os) == LET bad == SelectSeq(os, LAMBDA o : o.k # "val") IN IF bad = <<>> THEN Val(Null) ELSE
                  IF \E i \in 1..Len(bad) : bad[i].k = "unk" THEN Unk ELSE bad[1]

EvalSeq(es, env) == [i \in 1..Len(es) |-> Eval(es[i], env)]

EvalCase(cl, el, env) ==
  IF cl = <<>> THEN Eval(el, env)
  ELSE LET c == Eval(cl[1][1], env)
       IN IF c.k # "val" THEN c
          ELSE IF Truth(c.v) THEN Eval(cl[1][2], env)
          ELSE EvalCase(Tail(cl), el, env)

\* IN / NOT IN as the stated disjunction / conjunction of comparisons (NULL never compares true)
EvalIn(neg, x, vs, env, acc) ==
  IF vs = <<>> THEN Val(BoolV(acc))
  ELSE LET o == Eval(Head(vs), env)
       IN IF o.k # "val" THEN o
          ELSE IF "InNullEq" \in Dev
               THEN \* as built: operand == value by derived equality (NULL = NULL), first hit returns
                    (IF EqB(x, o.v) THEN Val(BoolV(~neg)) ELSE EvalIn(neg, x, Tail(vs), env, neg))
          ELSE LET c == IF neg THEN Compare("!=", x, o.v) ELSE Compare("=", x, o.v)
               IN IF c.k # "val" THEN c
                  ELSE IF neg THEN (IF ~c.v.v THEN Val(BoolV(FALSE)) ELSE EvalIn(neg, x, Tail(vs), env, TRUE))
                  ELSE (IF c.v.v THEN Val(BoolV(TRUE)) ELSE EvalIn(neg, x, Tail(vs), env, FALSE))

Eval(e, env) ==
  CASE e.op = "lit" -> Val(e.v)
    [] e.op = "col" -> IF e.name \in DOMAIN env THEN Val(env[e.name]) ELSE Err
    [] e.op = "cmp" ->
         LET a == Eval(e.a, env) IN IF a.k # "val" THEN a ELSE
         LET b == Eval(e.b, env) IN IF b.k # "val" THEN b ELSE Compare(e.f, a.v, b.v)
    [] e.op = "is" ->
         LET a == Eval(e.a, env) IN IF a.k # "val" THEN a ELSE
         LET b == Eval(e.b, env) IN IF b.k # "val" THEN b ELSE
         IF ~IsNull(a.v) /\ ~IsNull(b.v) /\ ~Comparable(a.v, b.v) THEN Unk
         ELSE Val(BoolV(EqB(a.v, b.v) # e.neg))
    [] e.op = "arith" ->
         LET a == Eval(e.a, env) IN IF a.k # "val" THEN a ELSE
         LET b == Eval(e.b, env) IN IF b.k # "val" THEN b ELSE ArithV(e.f, a.v, b.v)
    [] e.op = "bool" ->
         LET a == Eval(e.a, env) IN IF a.k # "val" THEN a ELSE
         IF a.v.t \notin {"bool", "null"} THEN Unk
         ELSE IF e.f = "and" /\ ~Truth(a.v) THEN Val(BoolV(FALSE))
         ELSE IF e.f = "or" /\ Truth(a.v) THEN Val(BoolV(TRUE))
         ELSE LET b == Eval(e.b, env) IN IF b.k # "val" THEN b ELSE
              IF b.v.t \notin {"bool", "null"} THEN Unk ELSE Val(BoolV(Truth(b.v)))
    [] e.op = "neg" ->
         LET a == Eval(e.a, env) IN IF a.k # "val" THEN a ELSE
         IF IsNull(a.v) THEN Val(Null)
         ELSE IF a.v.t = "int" /\ a.v.b \in {2, 3, 4} THEN Unk
         ELSE IF a.v.t = "int" THEN (LET r == INeg(a.v) IN IF r.t = "unk" THEN Unk
                                      ELSE IF r.t = "ovf" THEN (IF "UncheckedArith" \in Dev THEN Panic ELSE Err) ELSE Val(r))
         ELSE IF a.v.t = "real" THEN (IF a.v.c = "fin" /\ a.v.n # 0 THEN Val(RealV(-a.v.n, a.v.d))
                                       ELSE IF a.v.c = "fin" THEN Val(NZero)
                                       ELSE IF a.v.c = "nzero" THEN Val(RealV(0, 1))
                                       ELSE IF a.v.c = "pinf" THEN Val(NInf) ELSE IF a.v.c = "ninf" THEN Val(PInf)
                                       ELSE IF a.v.c \in {"nan", "nnan"} THEN Val(NaN) ELSE IF a.v.c = "p63" THEN Val(N63) ELSE IF a.v.c = "n63" THEN Val(P63) ELSE Unk)
         ELSE Err
    [] e.op = "not" ->
         LET a == Eval(e.a, env) IN IF a.k # "val" THEN a ELSE
         IF IsNull(a.v) THEN Val(Null) ELSE IF a.v.t = "bool" THEN Val(BoolV(~a.v.v)) ELSE Err
    [] e.op = "in" ->
         LET a == Eval(e.a, env) IN IF a.k # "val" THEN a ELSE EvalIn(e.neg, a.v, e.vs, env, e.neg)
    [] e.op = "call" ->
         LET os == EvalSeq(e.args, env)
             bad == FirstBad(os)
         IN IF \E i \in 1..Len(os) : os[i].k # "val" THEN bad
            ELSE IF e.f = "array" THEN CreateArray([i \in 1..Len(os) |-> os[i].v])
            ELSE IF e.f = "regex_matches" /\ Len(os) = 2 /\ os[1].v.t = "text" /\ os[2].v.t = "text" /\ RxHit(env, os[1].v.s, os[2].v.s) # 0
                 THEN \* a recorded evaluation (Trace_Expr): what the regex crate itself says about this text and this pattern
                      (LET m == env.rx[RxHit(env, os[1].v.s, os[2].v.s)].m IN IF m = "bad" THEN Err ELSE Val(BoolV(m = "t")))
            ELSE IF Len(os) = 1 THEN Call1(e.f, os[1].v)
            ELSE IF Len(os) = 2 THEN Call2(e.f, os[1].v, os[2].v)
            ELSE IF Len(os) = 7 /\ e.f = "make_timestamp" THEN MakeTs([i \in 1..7 |-> os[i].v])
            ELSE Unk
    [] e.op = "idx" ->
         LET a == Eval(e.a, env) IN IF a.k # "val" THEN a ELSE
         IF a.v.t # "arr" THEN Err ELSE
         LET i == Eval(e.i, env) IN IF i.k # "val" THEN i ELSE Subscript(a.v, i.v)
    [] e.op = "cast" ->
         LET a == Eval(e.a, env) IN IF a.k # "val" THEN a ELSE CastV(a.v, e.ty)
    [] e.op = "case" -> EvalCase(e.cl, e.el, env)
=============================================================================
