----------------------------- MODULE MC_Reader -----------------------------
EXTENDS Reader, Json
Emit == Done => PrintT(<<"REPLAY", ToJson([files |-> files, lines |-> out, lost |-> lost, dev |-> Dev])>>)
=============================================================================
