------------------------------- MODULE Session -------------------------------
(***************************************************************************)
(* The interactive loop of the command-line tool (src/main.rs: the         *)
(* `while let Ok(line) = readline` loop around execute()), fed from a      *)
(* pipe: one statement or command per line, several per process.  What     *)
(* single invocations (Cli.tla) cannot show:                               *)
(*                                                                         *)
(*   - the table set is state of the process: CREATE TABLE adds a table    *)
(*     that later lines can query (Tables::add_table), \d <t> shows it     *)
(*   - every statement starts from a fresh engine and a fresh printer:     *)
(*     no DISTINCT memory, LIMIT counter, aggregate state, CSV header      *)
(*     flag or compiled pattern survives from one line to the next (C18:   *)
(*     the output of a statement depends on the definitions, the statement *)
(*     and the input only -- not on what ran before it)                    *)
(*   - results are not "single": the several rows one input line gives     *)
(*     (join fan-out) are followed by one empty line (OutputPrinter, C17); *)
(*     the final table of an aggregate is always printed as a single       *)
(*     result (no empty line) -- found by replaying the first version of   *)
(*     this model, which expected one                                      *)
(*   - `exit` ends the loop: no later line is read                         *)
(*                                                                         *)
(* One action per line read (Step); the environment's choices (the session *)
(* and the output format) are made in Init.  Input files: a1 a2 / b1.      *)
(***************************************************************************)
EXTENDS Expr

CONSTANTS Commands, MaxCmds, Formats

Lines == <<TextV(<<97, 49>>), TextV(<<97, 50>>), TextV(<<98, 49>>)>>        \* a1 a2 b1 (two files, in command-line order)

\* what a statement prints, as <<column names, rows, is it an aggregate table>>; commands that are no statement are handled in Step
\*   all     SELECT x FROM t                          count   SELECT COUNT(*) AS n FROM t
\*   group   SELECT x, COUNT(*) AS n FROM t GROUP BY x        (three groups: a table of three rows)
\*   limit1  SELECT x FROM t LIMIT 1                  dist    SELECT DISTINCT z FROM w      (w: first character of each line)
\*   selw    SELECT z FROM w                          rea / reb   SELECT x FROM t WHERE regex_matches(x, '^a') / '^b'
Cx == <<120>>
Cz == <<122>>
Cn == <<110>>
First(l) == TextV(<<l.s[1]>>)
\*   join    SELECT x, y FROM t INNER JOIN j::'<fj>' ON t.x = j.x     (joined file: a1=p a1=q b1=r -- the line a1 has two partners)
Cy == <<121>>
P1(c) == TextV(<<c>>)
\*   redefj  CREATE TABLE j(...) again with another meaning of y (y = the key): a later join shows the rows of the NEW definition -- no table loaded for
\*           an earlier statement may be used again
Stmt(c, jv) ==
  CASE c = "all"    -> [cols |-> <<Cx>>, rows |-> [i \in 1..3 |-> <<Lines[i]>>], table |-> FALSE]
    [] c = "join"   -> [cols |-> <<Cx, Cy>>, rows |-> IF jv = 1 THEN <<<<Lines[1], P1(112)>>, <<Lines[1], P1(113)>>, <<Lines[3], P1(114)>>>>
                                                        ELSE <<<<Lines[1], Lines[1]>>, <<Lines[1], Lines[1]>>, <<Lines[3], Lines[3]>>>>, table |-> FALSE]
    \* join2: the same joined table and file, ON another column of it (t.x = j.y): no partner under the first definition of j, the partners of `join` under the second
    [] c = "join2"  -> [cols |-> <<Cx, Cy>>, rows |-> IF jv = 1 THEN <<>> ELSE <<<<Lines[1], Lines[1]>>, <<Lines[1], Lines[1]>>, <<Lines[3], Lines[3]>>>>, table |-> FALSE]
    [] c = "count"  -> [cols |-> <<Cn>>, rows |-> <<<<IntV(3)>>>>, table |-> TRUE]
    [] c = "group"  -> [cols |-> <<Cx, Cn>>, rows |-> [i \in 1..3 |-> <<Lines[i], IntV(1)>>], table |-> TRUE]
    [] c = "limit1" -> [cols |-> <<Cx>>, rows |-> <<<<Lines[1]>>>>, table |-> FALSE]
    [] c = "selw"   -> [cols |-> <<Cz>>, rows |-> [i \in 1..3 |-> <<First(Lines[i])>>], table |-> FALSE]
    [] c = "dist"   -> [cols |-> <<Cz>>, rows |-> <<<<First(Lines[1])>>, <<First(Lines[3])>>>>, table |-> FALSE]
    [] c = "rea"    -> [cols |-> <<Cx>>, rows |-> <<<<Lines[1]>>, <<Lines[2]>>>>, table |-> FALSE]
    [] c = "reb"    -> [cols |-> <<Cx>>, rows |-> <<<<Lines[3]>>>>, table |-> FALSE]
NeedsW(c) == c \in {"selw", "dist"}
IsStmt(c) == c \in {"all", "join", "join2", "count", "group", "limit1", "selw", "dist", "rea", "reb"}

VARIABLES session, format,      \* the environment's choices
          i,                    \* lines of the session already read
          hasW,                 \* CREATE TABLE w has been executed
          jv,                   \* which definition of table j is in force (1: the definition file's, 2: after `redefj`)
          ended,                \* `exit` has been read
          out                   \* stdout so far

svars == <<session, format, i, hasW, jv, ended, out>>

Rec(cols, r) == [k |-> "rec", cols |-> cols, row |-> r, m |-> ""]
Hdr(cols) == [k |-> "hdr", cols |-> cols, row |-> <<>>, m |-> ""]
Blank == [k |-> "blank", cols |-> <<>>, row |-> <<>>, m |-> ""]
Msg(m) == [k |-> "msg", cols |-> <<>>, row |-> <<>>, m |-> m]

RECURSIVE SeqsUpTo(_, _)
SeqsUpTo(S, n) == IF n = 0 THEN {<<>>} ELSE LET P == SeqsUpTo(S, n - 1) IN P \cup {Append(s, x) : s \in {p \in P : Len(p) = n - 1}, x \in S}

Init ==
  /\ session \in SeqsUpTo(Commands, MaxCmds)
  /\ format \in Formats
  /\ i = 0 /\ hasW = FALSE /\ jv = 1 /\ ended = FALSE /\ out = <<>>

\* the records of one statement.  A SELECT prints per input line (one print() call per line; a fresh printer per statement writes the CSV
\* header once); the rows one line fans out to are one result of several rows: in the loop (results are not "single") an empty line follows.
\* The final table of an aggregate is printed as a single result: no empty line.
Printed(s, c) ==
  LET recs == [j \in 1..Len(s.rows) |-> Rec(s.cols, s.rows[j])]
      body == IF c \in {"join", "join2"} /\ Len(recs) = 3 THEN <<recs[1], recs[2], Blank, recs[3]>> ELSE recs
  IN (IF format = "csv" /\ s.rows # <<>> THEN <<Hdr(s.cols)>> ELSE <<>>) \o body

Step ==
  /\ ~ended /\ i < Len(session)
  /\ i' = i + 1
  /\ LET c == session[i + 1]
     IN CASE c = "exit"    -> ended' = TRUE /\ UNCHANGED <<hasW, jv, out>>
          [] c = "createw" -> hasW' = TRUE /\ UNCHANGED <<ended, jv, out>>
          [] c = "redefj"  -> jv' = 2 /\ UNCHANGED <<hasW, ended, out>>
          [] c = "bad"     -> out' = Append(out, Msg("parseerr")) /\ UNCHANGED <<hasW, jv, ended>>
          [] c = "dt"      -> out' = out \o <<Msg("dt1"), Msg("dt2"), Msg("dt3")>> /\ UNCHANGED <<hasW, jv, ended>>       \* \d t: the column listing of t
          [] c = "dw"      -> out' = (IF hasW THEN out \o <<Msg("dt1"), Msg("dt2"), Msg("dw3")>> ELSE Append(out, Msg("nodef"))) /\ UNCHANGED <<hasW, jv, ended>>
          [] OTHER         -> /\ out' = IF NeedsW(c) /\ ~hasW THEN Append(out, Msg("execerr")) ELSE out \o Printed(Stmt(c, jv), c)
                              /\ UNCHANGED <<hasW, jv, ended>>
  /\ UNCHANGED <<session, format>>

Next == Step
Spec == Init /\ [][Next]_svars

-----------------------------------------------------------------------------
Done == ended \/ i = Len(session)
\* C18 at the level of the session: what a statement prints does not depend on the lines before it (apart from the tables they created)
\* -- stated on the model as: the output is the concatenation of per-line outputs, each a function of the line and of hasW alone
OutOf(c, w, j) == IF c \in {"exit", "createw", "redefj"} THEN <<>> ELSE IF c = "bad" THEN <<Msg("parseerr")>> ELSE IF c = "dt" THEN <<Msg("dt1"), Msg("dt2"), Msg("dt3")>>
               ELSE IF c = "dw" THEN (IF w THEN <<Msg("dt1"), Msg("dt2"), Msg("dw3")>> ELSE <<Msg("nodef")>>)
               ELSE IF NeedsW(c) /\ ~w THEN <<Msg("execerr")>> ELSE Printed(Stmt(c, j), c)
RECURSIVE Expected(_, _)
Expected(n, w) == IF n = 0 THEN <<>>
                  ELSE LET wBefore == \E j \in 1..(n - 1) : session[j] = "createw"
                           jBefore == IF \E j \in 1..(n - 1) : session[j] = "redefj" THEN 2 ELSE 1
                       IN Expected(n - 1, w) \o OutOf(session[n], wBefore, jBefore)
HistoryFree == out = Expected(i, hasW)
\* nothing after `exit`
ExitEnds == ended => \A j \in 1..(i - 1) : session[j] # "exit"
TypeOK == i \in 0..Len(session) /\ hasW \in BOOLEAN /\ jv \in {1, 2} /\ ended \in BOOLEAN
=============================================================================
