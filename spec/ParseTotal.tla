------------------------------ MODULE ParseTotal ------------------------------
(***************************************************************************)
(* C14: parsing is total.  Three generators of texts, selected by `mode`:  *)
(*   "mut"   the mutation machine: from a valid statement, delete /        *)
(*           duplicate / swap lexemes or cut the text at a character       *)
(*   "soup"  every sequence of at most MaxEdits vocabulary tokens          *)
(*   "extra" known-bad statements (must be rejected with an error) and     *)
(*           bracket / CASE nesting up to the documented bound of 64       *)
(* The specification only fixes the outcome class: a statement or a        *)
(* located error -- never a crash; the harness checks that the error's     *)
(* position lies inside the text and that its `near` excerpt can be made.  *)
(***************************************************************************)
EXTENDS Integers, Sequences, FiniteSets, TLC, LexBase, Json

CONSTANTS MaxEdits, StmtIndexes, GenModes
SP == 32
RECURSIVE ConcatAll(_)
ConcatAll(ss) == IF ss = <<>> THEN <<>> ELSE Head(ss) \o ConcatAll(Tail(ss))

VARIABLES mode, msi, lexs, cut, muts, soup, extra
mvars == <<mode, msi, lexs, cut, muts, soup, extra>>
NoExtra == [kind |-> "none", text |-> <<>>, allowed |-> {}]

JoinSp(ls) == LET RECURSIVE go(_) go(i) == IF i > Len(ls) THEN <<>> ELSE ls[i].s \o (IF i < Len(ls) THEN <<SP>> ELSE <<>>) \o go(i + 1) IN go(1)
MutText == LET t == JoinSp(lexs) IN IF cut < 0 THEN t ELSE SubSeq(t, 1, IF cut > Len(t) THEN Len(t) ELSE cut)

MutInit ==
  /\ mode = "mut" /\ soup = <<>> /\ extra = NoExtra
  /\ msi \in StmtIndexes
  /\ lexs = BaseStatements[msi].head \o ConcatAll(BaseStatements[msi].clauses)
  /\ cut = -1 /\ muts = 0

DeleteLexeme(i) == /\ i \in 1..Len(lexs) /\ lexs' = SubSeq(lexs, 1, i - 1) \o SubSeq(lexs, i + 1, Len(lexs)) /\ UNCHANGED <<mode, msi, cut, soup, extra>>
DuplicateLexeme(i) == /\ i \in 1..Len(lexs) /\ lexs' = SubSeq(lexs, 1, i) \o SubSeq(lexs, i, Len(lexs)) /\ UNCHANGED <<mode, msi, cut, soup, extra>>
SwapLexemes(i) == /\ i \in 1..(Len(lexs) - 1) /\ lexs' = [lexs EXCEPT ![i] = lexs[i + 1], ![i + 1] = lexs[i]] /\ UNCHANGED <<mode, msi, cut, soup, extra>>
Truncate(k) == /\ cut < 0 /\ k \in 0..Len(JoinSp(lexs)) /\ cut' = k /\ UNCHANGED <<mode, msi, lexs, soup, extra>>

Mutate == \/ \E i \in 1..200 : DeleteLexeme(i) \/ DuplicateLexeme(i) \/ SwapLexemes(i)
          \/ \E k \in 0..600 : Truncate(k)
MutNext == mode = "mut" /\ muts < MaxEdits /\ cut < 0 /\ Mutate /\ muts' = muts + 1

\* token soups: every sequence of at most MaxEdits vocabulary tokens
RECURSIVE Soups(_)
Soups(n) == IF n = 0 THEN {<<>>} ELSE LET P == Soups(n - 1) IN P \cup {Append(s, x) : s \in {p \in P : Len(p) = n - 1}, x \in 1..Len(Vocab)}
SoupInit == mode = "soup" /\ soup \in Soups(MaxEdits) /\ msi = 0 /\ lexs = <<>> /\ cut = -1 /\ muts = 0 /\ extra = NoExtra
SoupText == LET RECURSIVE go(_) go(i) == IF i > Len(soup) THEN <<>> ELSE Vocab[soup[i]] \o (IF i < Len(soup) THEN <<SP>> ELSE <<>>) \o go(i + 1) IN go(1)

\* nesting of ( [ and CASE up to the documented depth bound of 64
Rep(s, n) == [i \in 1..(n * Len(s)) |-> s[((i - 1) % Len(s)) + 1]]          \* s repeated n times (a function: linear, also for n = 20000)
SelectPrefix == <<83, 69, 76, 69, 67, 84, 32>>          \* "SELECT "
FromSuffix == <<32, 70, 82, 79, 77, 32, 116>>           \* " FROM t"
NestParen(n) == SelectPrefix \o Rep(<<40>>, n) \o <<49>> \o Rep(<<41>>, n) \o FromSuffix
NestIndex(n) == SelectPrefix \o <<97>> \o Rep(<<91, 97>>, n) \o <<91, 49, 93>> \o Rep(<<93>>, n) \o FromSuffix
NestCase(n) == SelectPrefix \o Rep(<<67, 65, 83, 69, 32, 87, 72, 69, 78, 32, 49, 32, 84, 72, 69, 78, 32>>, n) \o <<49>>
               \o Rep(<<32, 69, 76, 83, 69, 32, 50, 32, 69, 78, 68>>, n) \o FromSuffix
NestOpen(n) == SelectPrefix \o Rep(<<40>>, n)           \* unbalanced


\* a pattern string that nests groups / repeats far beyond anything sensible: the table definition is accepted or rejected, never a crash
\* (the regular-expression compiler recurses over the nesting; its limits are what keeps that within the stack)
PatPrefix == <<67, 82, 69, 65, 84, 69, 32, 84, 65, 66, 76, 69, 32, 116, 40, 108, 105, 110, 101, 32, 61, 32, 39>>
PatSuffix == <<39, 44, 32, 108, 105, 110, 101, 91, 49, 93, 32, 61, 62, 32, 120, 32, 84, 69, 88, 84, 41, 59>>
PatNest(n) == PatPrefix \o Rep(<<40>>, n) \o <<97>> \o Rep(<<41>>, n) \o PatSuffix
PatClass(n) == PatPrefix \o Rep(<<91, 97, 38, 38>>, n) \o <<91, 97, 93>> \o Rep(<<93>>, n) \o PatSuffix          \* [a&&[a&&[a]]]
PatRepeat(n) == PatPrefix \o <<97>> \o Rep(<<123, 49, 48, 48, 48, 125>>, n) \o PatSuffix
PatAlt(n) == PatPrefix \o <<40>> \o Rep(<<97, 124>>, n) \o <<97, 41>> \o PatSuffix
\* tuples nested in the FIRST position of a tuple: a parser that re-reads the first element costs 2^depth (a hang is a violation of termination)
NestTuple(n) == SelectPrefix \o <<120, 32, 73, 78, 32>> \o Rep(<<40>>, n) \o <<49>> \o Rep(<<44, 32, 49, 41>>, n) \o FromSuffix
\* erroneous statements whose words are separated by wide / rare whitespace (NO-BREAK SPACE, EM SPACE, IDEOGRAPHIC SPACE, NEL, LINE SEPARATOR): the excerpt must still be produced
WideSpaces == {160, 8195, 12288, 133, 8232}
WideBad(w) == <<83, 69, 76, 69, 67, 84, w, 107, w, 70, 82, 79, 77, w, 116, w, 87, 72, 69, 82, 69, w, 118, w, 62, w, 70, 82, 79, 77, w, 50>>      \* SELECT k FROM t WHERE v > FROM 2
WideBad2(w) == <<83, 69, 76, 69, 67, 84, 32, 107, 44, w, 70, 82, 79, 77, 32, 116>>                                                       \* SELECT k,<w>FROM t
\* array type names spelt with letters whose lower-case form has another UTF-8 length (KELVIN SIGN, ANGSTROM SIGN, CAPITAL SHARP S, I WITH DOT ABOVE)
TypePrefix == <<67, 82, 69, 65, 84, 69, 32, 84, 65, 66, 76, 69, 32, 116, 40, 108, 105, 110, 101, 32, 61, 32, 39, 97, 39, 44, 32, 108, 105, 110, 101, 91, 49, 93, 32, 61, 62, 32, 120, 32>>
RareType(w, n) == TypePrefix \o [i \in 1..n |-> w] \o <<91, 93, 41, 59>>
\* an error next to a long word of multi-byte characters (2, 3 and 4 bytes each), at every alignment: the located excerpt must still be produced
\*   CREATE TABLE t(line = '<word>' line[1] => x TEXT);      (the comma is missing)          SELECT k FROM t WHERE k = '<word>' '<word>'
LongWord(pad, c, n) == <<39>> \o [i \in 1..pad |-> 97] \o [i \in 1..n |-> c] \o <<39>>
LongWordBad1(pad, c, n) == <<67, 82, 69, 65, 84, 69, 32, 84, 65, 66, 76, 69, 32, 116, 40, 108, 105, 110, 101, 32, 61, 32>> \o LongWord(pad, c, n)
                           \o <<32, 108, 105, 110, 101, 91, 49, 93, 32, 61, 62, 32, 120, 32, 84, 69, 88, 84, 41, 59>>
LongWordBad2(pad, c, n) == <<83, 69, 76, 69, 67, 84, 32, 107, 32, 70, 82, 79, 77, 32, 116, 32, 87, 72, 69, 82, 69, 32, 107, 32, 61, 32>> \o LongWord(pad, c, n) \o <<32>> \o LongWord(pad, c, n)
LongWordCases == {[kind |-> "bad", text |-> f, allowed |-> {"err"}] :
                    f \in {LongWordBad1(pad, c, n) : pad \in 0..3, c \in {1078, 26085, 128512}, n \in {14, 19, 30, 45}}
                          \cup {LongWordBad2(pad, c, n) : pad \in 0..3, c \in {1078, 26085, 128512}, n \in {14, 19, 30}}}
\* integer literals at and beyond the 64-bit range in every position that takes a number (projection, LIMIT, subscript, comparison, IN list, after a minus, group
\* index, JSON index, DEFAULT, next to aggregates, HAVING): 2^63 - 1 is a number; 2^63, 2^63 + 1, 2^64 - 1, 2^64, 10^19, 20 nines are rejected with a located error
NumFrames == <<<<<<83, 69, 76, 69, 67, 84, 32>>, <<32, 70, 82, 79, 77, 32, 116>>>>, <<<<83, 69, 76, 69, 67, 84, 32, 107, 32, 70, 82, 79, 77, 32, 116, 32, 76, 73, 77, 73, 84, 32>>, <<>>>>, <<<<83, 69, 76, 69, 67, 84, 32, 97, 91>>, <<93, 32, 70, 82, 79, 77, 32, 116>>>>, <<<<83, 69, 76, 69, 67, 84, 32, 107, 32, 70, 82, 79, 77, 32, 116, 32, 87, 72, 69, 82, 69, 32, 118, 32, 61, 32>>, <<>>>>, <<<<83, 69, 76, 69, 67, 84, 32, 107, 32, 70, 82, 79, 77, 32, 116, 32, 87, 72, 69, 82, 69, 32, 118, 32, 73, 78, 32, 40, 49, 44, 32>>, <<41>>>>, <<<<83, 69, 76, 69, 67, 84, 32, 107, 32, 70, 82, 79, 77, 32, 116, 32, 87, 72, 69, 82, 69, 32, 118, 32, 62, 32, 45>>, <<>>>>, <<<<83, 69, 76, 69, 67, 84, 32, 118, 32, 43, 32>>, <<32, 70, 82, 79, 77, 32, 116>>>>, <<<<67, 82, 69, 65, 84, 69, 32, 84, 65, 66, 76, 69, 32, 116, 40, 108, 105, 110, 101, 32, 61, 32, 39, 97, 39, 44, 32, 108, 105, 110, 101, 91>>, <<93, 32, 61, 62, 32, 120, 32, 84, 69, 88, 84, 41, 59>>>>, <<<<67, 82, 69, 65, 84, 69, 32, 84, 65, 66, 76, 69, 32, 116, 40, 123, 32, 46, 97, 91>>, <<93, 32, 125, 32, 61, 62, 32, 120, 32, 73, 78, 84, 41, 59>>>>, <<<<67, 82, 69, 65, 84, 69, 32, 84, 65, 66, 76, 69, 32, 116, 40, 108, 105, 110, 101, 32, 61, 32, 39, 97, 39, 44, 32, 108, 105, 110, 101, 91, 49, 93, 32, 61, 62, 32, 120, 32, 73, 78, 84, 32, 68, 69, 70, 65, 85, 76, 84, 32>>, <<41, 59>>>>, <<<<83, 69, 76, 69, 67, 84, 32, 80, 69, 82, 67, 69, 78, 84, 73, 76, 69, 40, 118, 44, 32, 48, 46, 53, 41, 32, 65, 83, 32, 112, 44, 32, 67, 79, 85, 78, 84, 40, 42, 41, 32, 43, 32>>, <<32, 65, 83, 32, 110, 32, 70, 82, 79, 77, 32, 116>>>>, <<<<83, 69, 76, 69, 67, 84, 32, 107, 44, 32, 67, 79, 85, 78, 84, 40, 42, 41, 32, 65, 83, 32, 110, 32, 70, 82, 79, 77, 32, 116, 32, 71, 82, 79, 85, 80, 32, 66, 89, 32, 107, 32, 72, 65, 86, 73, 78, 71, 32, 67, 79, 85, 78, 84, 40, 42, 41, 32, 60, 32>>, <<>>>>>>
NumsInRange == {<<57, 50, 50, 51, 51, 55, 50, 48, 51, 54, 56, 53, 52, 55, 55, 53, 56, 48, 55>>, <<48, 48, 48, 48, 48, 48, 48, 48, 48, 48, 48, 48, 48, 48, 48, 48, 48, 48, 48, 48, 48, 48, 48, 48, 49>>, <<57, 50, 50, 51, 51, 55, 50, 48, 51, 54, 56, 53, 52, 55, 55, 53, 56, 48, 54>>}
NumsBeyond == {<<57, 50, 50, 51, 51, 55, 50, 48, 51, 54, 56, 53, 52, 55, 55, 53, 56, 48, 56>>, <<57, 50, 50, 51, 51, 55, 50, 48, 51, 54, 56, 53, 52, 55, 55, 53, 56, 48, 57>>, <<57, 50, 50, 51, 51, 55, 50, 48, 51, 54, 56, 53, 52, 55, 55, 53, 56, 49, 48>>, <<49, 56, 52, 52, 54, 55, 52, 52, 48, 55, 51, 55, 48, 57, 53, 53, 49, 54, 49, 53>>, <<49, 56, 52, 52, 54, 55, 52, 52, 48, 55, 51, 55, 48, 57, 53, 53, 49, 54, 49, 54>>, <<57, 57, 57, 57, 57, 57, 57, 57, 57, 57, 57, 57, 57, 57, 57, 57, 57, 57, 57, 57>>, <<49, 48, 48, 48, 48, 48, 48, 48, 48, 48, 48, 48, 48, 48, 48, 48, 48, 48, 48, 48>>, <<57, 50, 50, 51, 51, 55, 50, 48, 51, 54, 56, 53, 52, 55, 55, 53, 56, 49, 55>>}
NumberCases == {[kind |-> "number", text |-> NumFrames[i][1] \o n \o NumFrames[i][2], allowed |-> {"ok", "err"}] : i \in 1..Len(NumFrames), n \in NumsInRange}
               \cup {[kind |-> "bad", text |-> NumFrames[i][1] \o n \o NumFrames[i][2], allowed |-> {"err"}] : i \in 1..Len(NumFrames), n \in NumsBeyond}
ExtraCases == NumberCases \cup LongWordCases \cup {[kind |-> "patnest", text |-> RareType(w, n), allowed |-> {"err"}] : w \in {8490, 8491, 7838, 304}, n \in {1, 2}}
              \cup {[kind |-> "nest", text |-> NestTuple(n), allowed |-> {"ok", "err"}] : n \in {2, 8, 24, 48}}
              \cup {[kind |-> "bad", text |-> f, allowed |-> {"err"}] : f \in {WideBad(w) : w \in WideSpaces} \cup {WideBad2(w) : w \in WideSpaces}}
              \cup {[kind |-> "patnest", text |-> f, allowed |-> {"ok", "err"}] :
                  f \in {PatNest(n) : n \in {1, 64, 250, 251, 1000, 5000, 20000}} \cup {PatClass(n) : n \in {1, 64, 1000, 5000}} \cup {PatRepeat(n) : n \in {1, 2, 3, 8}}
                        \cup {PatAlt(n) : n \in {1, 1000, 20000}}} \cup {[kind |-> "bad", text |-> BadStatements[i], allowed |-> {"err"}] : i \in 1..Len(BadStatements)}
              \cup {[kind |-> "nest", text |-> f, allowed |-> {"ok"}] : f \in {NestParen(n) : n \in {1, 2, 8, 32, 64}} \cup {NestIndex(n) : n \in {1, 8, 64}} \cup {NestCase(n) : n \in {1, 8, 64}}}
              \cup {[kind |-> "nest", text |-> NestOpen(n), allowed |-> {"err"}] : n \in {1, 8, 64}}
ExtraInit == mode = "extra" /\ extra \in ExtraCases /\ soup = <<>> /\ msi = 0 /\ lexs = <<>> /\ cut = -1 /\ muts = 0

Init == mode \in GenModes /\ (MutInit \/ SoupInit \/ ExtraInit)
Next == MutNext
Spec == Init /\ [][Next]_mvars

Emit ==
  PrintT(<<"REPLAY", ToJson(CASE mode = "mut" -> [kind |-> "mutation", text |-> MutText, allowed |-> IF muts = 0 THEN {"ok"} ELSE {"ok", "err"}]
                              [] mode = "soup" -> [kind |-> "soup", text |-> SoupText, allowed |-> {"ok", "err"}]
                              [] mode = "extra" -> extra)>>)
=============================================================================
