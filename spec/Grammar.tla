------------------------------- MODULE Grammar -------------------------------
(***************************************************************************)
(* The reference expression grammar of property C13: standard SQL          *)
(* precedence and associativity.                                           *)
(*                                                                         *)
(*   level 8  postfix  ::type   [index]         (and qualified names)      *)
(*   level 7  unary -                                                      *)
(*   level 6  *  /                                                         *)
(*   level 5  +  -                                                         *)
(*   level 4  =  !=  <  <=  >  >=  IS  IS NOT  IN  NOT IN                  *)
(*   level 3  NOT                                                          *)
(*   level 2  AND                                                          *)
(*   level 1  OR            binary operators associate to the left         *)
(*                                                                         *)
(* Trees:  [n |-> "atom", v]  [n |-> "bin", op, l, r]  [n |-> "neg", e]    *)
(*         [n |-> "not", e]   [n |-> "cast", e, ty]    [n |-> "idx", e, i] *)
(*         [n |-> "in", neg, e, vs]   [n |-> "call", f, args]              *)
(*         [n |-> "case", c, t, el]                                        *)
(* Full(t) = the fully parenthesised token sequence, Min(t) = the one with *)
(* minimal parentheses under the table.  Parse is a precedence-climbing    *)
(* parser for the table (nud / led, like the code's parse_unary_operator / *)
(* parse_binary_operator_rhs); TLC checks Parse(Min(t)) = t = Parse(Full(t))*)
(* for every enumerated tree: the grammar is unambiguous and Min is right. *)
(***************************************************************************)
EXTENDS Naturals, Sequences, FiniteSets, TLC

Atom(v)        == [n |-> "atom", v |-> v]
Bin(op, l, r)  == [n |-> "bin", op |-> op, l |-> l, r |-> r]
Neg(e)         == [n |-> "neg", e |-> e]
Not(e)         == [n |-> "not", e |-> e]
CastT(e, ty)   == [n |-> "cast", e |-> e, ty |-> ty]
IdxT(e, i)     == [n |-> "idx", e |-> e, i |-> i]
InT(neg, e, vs) == [n |-> "in", neg |-> neg, e |-> e, vs |-> vs]
CallT(f, args) == [n |-> "call", f |-> f, args |-> args]
CaseT(c, t, el) == [n |-> "case", c |-> c, t |-> t, el |-> el]

BinLevel(op) == CASE op = "OR" -> 1 [] op = "AND" -> 2
                  [] op \in {"=", "!=", "<", "<=", ">", ">=", "IS", "IS NOT"} -> 4
                  [] op \in {"+", "-"} -> 5 [] op \in {"*", "/"} -> 6
BinOps == {"OR", "AND", "=", "!=", "<", "<=", ">", ">=", "IS", "IS NOT", "+", "-", "*", "/"}

Level(t) == CASE t.n = "bin" -> BinLevel(t.op) [] t.n = "in" -> 4 [] t.n = "not" -> 3 [] t.n = "neg" -> 7
              [] t.n \in {"cast", "idx"} -> 8 [] OTHER -> 9

Par(ts) == <<"(">> \o ts \o <<")">>

RECURSIVE Full(_), FullList(_), Min(_), MinList(_)
FullList(xs) == IF Len(xs) = 1 THEN Full(xs[1]) ELSE Full(xs[1]) \o <<",">> \o FullList(Tail(xs))
Full(t) ==
  CASE t.n = "atom" -> <<t.v>>
    [] t.n = "bin"  -> Par(Par(Full(t.l)) \o <<t.op>> \o Par(Full(t.r)))
    [] t.n = "neg"  -> Par(<<"-">> \o Par(Full(t.e)))
    [] t.n = "not"  -> Par(<<"NOT">> \o Par(Full(t.e)))
    [] t.n = "cast" -> Par(Par(Full(t.e)) \o <<"::", t.ty>>)
    [] t.n = "idx"  -> Par(Par(Full(t.e)) \o <<"[">> \o Full(t.i) \o <<"]">>)
    [] t.n = "in"   -> Par(Par(Full(t.e)) \o <<IF t.neg THEN "NOT IN" ELSE "IN">> \o Par(FullList(t.vs)))
    [] t.n = "call" -> <<t.f, "(">> \o FullList(t.args) \o <<")">>
    [] t.n = "case" -> <<"CASE", "WHEN">> \o Full(t.c) \o <<"THEN">> \o Full(t.t) \o <<"ELSE">> \o Full(t.el) \o <<"END">>

Wrap(t, need) == IF need THEN Par(Min(t)) ELSE Min(t)
MinList(xs) == IF Len(xs) = 1 THEN Min(xs[1]) ELSE Min(xs[1]) \o <<",">> \o MinList(Tail(xs))
Min(t) ==
  CASE t.n = "atom" -> <<t.v>>
    [] t.n = "bin"  -> Wrap(t.l, Level(t.l) < BinLevel(t.op)) \o <<t.op>> \o Wrap(t.r, Level(t.r) <= BinLevel(t.op))
    [] t.n = "neg"  -> <<"-">> \o Wrap(t.e, Level(t.e) < 7)
    [] t.n = "not"  -> <<"NOT">> \o Wrap(t.e, Level(t.e) < 3)
    [] t.n = "cast" -> Wrap(t.e, Level(t.e) < 8) \o <<"::", t.ty>>
    [] t.n = "idx"  -> Wrap(t.e, Level(t.e) < 8) \o <<"[">> \o Min(t.i) \o <<"]">>
    [] t.n = "in"   -> Wrap(t.e, Level(t.e) < 4) \o <<IF t.neg THEN "NOT IN" ELSE "IN">> \o Par(MinList(t.vs))
    [] t.n = "call" -> <<t.f, "(">> \o MinList(t.args) \o <<")">>
    [] t.n = "case" -> <<"CASE", "WHEN">> \o Min(t.c) \o <<"THEN">> \o Min(t.t) \o <<"ELSE">> \o Min(t.el) \o <<"END">>

-----------------------------------------------------------------------------
\* the reference parser: <<tree, next position>>; Fail when the text is not in the grammar
Fail == <<[n |-> "fail"], 0>>
IsFail(r) == r[1].n = "fail"
Tok(ts, i) == IF i <= Len(ts) THEN ts[i] ELSE "<eof>"
AtomToks == {"a", "b", "c", "1", "2", "'s'", "NULL", "t.a"}
Funs == {"abs", "least"}

RECURSIVE ParseE(_, _, _), Led(_, _, _, _), ParseArgs(_, _, _)
ParseArgs(ts, i, acc) ==       \* a comma separated list up to ")" ; i is at the first element
  LET e == ParseE(ts, i, 1)
  IN IF IsFail(e) THEN Fail
     ELSE IF Tok(ts, e[2]) = "," THEN ParseArgs(ts, e[2] + 1, Append(acc, e[1]))
     ELSE IF Tok(ts, e[2]) = ")" THEN <<[n |-> "list", xs |-> Append(acc, e[1])], e[2] + 1>>
     ELSE Fail

\* nud: an operand, then its operators of level >= min
ParseE(ts, i, min) ==
  LET tk == Tok(ts, i)
  IN IF tk \in AtomToks THEN Led(ts, Atom(tk), i + 1, min)
     ELSE IF tk = "(" THEN (LET e == ParseE(ts, i + 1, 1)
                            IN IF IsFail(e) \/ Tok(ts, e[2]) # ")" THEN Fail ELSE Led(ts, e[1], e[2] + 1, min))
     ELSE IF tk = "-" THEN (LET e == ParseE(ts, i + 1, 7) IN IF IsFail(e) THEN Fail ELSE Led(ts, Neg(e[1]), e[2], min))
     ELSE IF tk = "NOT" THEN (LET e == ParseE(ts, i + 1, 3) IN IF IsFail(e) THEN Fail ELSE Led(ts, Not(e[1]), e[2], min))
     ELSE IF tk \in Funs /\ Tok(ts, i + 1) = "(" THEN
          (LET a == ParseArgs(ts, i + 2, <<>>) IN IF IsFail(a) THEN Fail ELSE Led(ts, CallT(tk, a[1].xs), a[2], min))
     ELSE IF tk = "CASE" /\ Tok(ts, i + 1) = "WHEN" THEN
          (LET c == ParseE(ts, i + 2, 1) IN IF IsFail(c) \/ Tok(ts, c[2]) # "THEN" THEN Fail ELSE
           LET t == ParseE(ts, c[2] + 1, 1) IN IF IsFail(t) \/ Tok(ts, t[2]) # "ELSE" THEN Fail ELSE
           LET el == ParseE(ts, t[2] + 1, 1) IN IF IsFail(el) \/ Tok(ts, el[2]) # "END" THEN Fail ELSE
           Led(ts, CaseT(c[1], t[1], el[1]), el[2] + 1, min))
     ELSE Fail

\* led: extend `left` while the next operator binds at least as tightly as min
Led(ts, left, i, min) ==
  LET tk == Tok(ts, i)
  IN IF tk \in BinOps /\ BinLevel(tk) >= min
     THEN (LET r == ParseE(ts, i + 1, BinLevel(tk) + 1)
           IN IF IsFail(r) THEN Fail ELSE Led(ts, Bin(tk, left, r[1]), r[2], min))
     ELSE IF tk \in {"IN", "NOT IN"} /\ 4 >= min
     THEN (IF Tok(ts, i + 1) # "(" THEN Fail
           ELSE LET a == ParseArgs(ts, i + 2, <<>>) IN IF IsFail(a) THEN Fail ELSE Led(ts, InT(tk = "NOT IN", left, a[1].xs), a[2], min))
     ELSE IF tk = "::" /\ 8 >= min THEN Led(ts, CastT(left, Tok(ts, i + 1)), i + 2, min)
     ELSE IF tk = "[" /\ 8 >= min
     THEN (LET e == ParseE(ts, i + 1, 1)
           IN IF IsFail(e) \/ Tok(ts, e[2]) # "]" THEN Fail ELSE Led(ts, IdxT(left, e[1]), e[2] + 1, min))
     ELSE <<left, i>>

Parse(ts) == LET r == ParseE(ts, 1, 1) IN IF IsFail(r) \/ r[2] # Len(ts) + 1 THEN [n |-> "fail"] ELSE r[1]

\* C13 on the reference grammar
RoundTrip(t) == Parse(Min(t)) = t /\ Parse(Full(t)) = t
=============================================================================
