------------------------------ MODULE Universe ------------------------------
(* The finite boundary universe of values used by MC_Values (laws, direct API replay) and by the    *)
(* consumer menu of MC_Engine (WHERE, DISTINCT, GROUP BY, MIN/MAX, array_unique on every pair).     *)
EXTENDS Values

UT(s) == TextV(s)
Ts(d, h) == TsV(<<2021, 3, d, h, 0, 0, 0>>)
U == { Null,
       IntV(-1), IntV(0), IntV(1), IntV(2), MaxV(0), MaxV(-1), MinV(0), MinV(1), I53(0), I53(1), I53(2), I31(0), I31(5), RealV(1, 4), Q25n,
       RealV(0, 1), NZero, RealV(1, 1), RealV(3, 2), RealV(-1, 2), RealV(2, 1), PInf, NInf, NaN, NNaN, P63, N63, P53, P53b,
       BoolV(FALSE), BoolV(TRUE),
       UT(<<>>), UT(<<97>>), UT(<<97, 97>>), UT(<<98>>), UT(<<65>>), UT(<<233>>), UT(<<128512>>),
       ArrV("int", <<>>), ArrV("int", <<IntV(1)>>), ArrV("int", <<IntV(1), IntV(2)>>), ArrV("int", <<IntV(2)>>), ArrV("int", <<Null>>),
       ArrV("text", <<>>), ArrV("real", <<NaN>>), ArrV("real", <<RealV(0, 1)>>), ArrV("real", <<NZero>>),
       Ts(28, 1), Ts(28, 2), Ts(29, 1),
       TsV(<<2021, 3, 28, 1, 0, 0, 123456>>), TsV(<<2021, 3, 28, 1, 0, 0, 123457>>),        \* two instants within one millisecond
       IvV(0), IvV(2000), IvV(-1000) }
First == Null

=============================================================================
