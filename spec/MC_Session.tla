----------------------------- MODULE MC_Session -----------------------------
EXTENDS Session, Json
\* one line per finished session for the replay harness (harness/src/cli.rs pipes the session into the real binary)
Emit == Done => PrintT(<<"REPLAY", ToJson([session |-> session, format |-> format, out |-> out])>>)
=============================================================================
