----------------------------- MODULE MC_Follow -----------------------------
EXTENDS Follow, Json

\* one line per finished behaviour for the replay harness
Emit ==
  (pc \in {"stopped", "failed", "halted"} /\ ~FreeAppend) =>
     PrintT(<<"REPLAY", ToJson([content |-> content, pre |-> pre, head |-> head, cap |-> cap,
                                 hist |-> hist, delivered |-> delivered,
                                 failed |-> (pc = "failed"), halted |-> (pc = "halted"), dev |-> Dev])>>)
=============================================================================
