------------------------------- MODULE Printer -------------------------------
(***************************************************************************)
(* OutputPrinter::print (src/executor.rs): how result rows become printed  *)
(* records in the three output formats (property C17).                     *)
(*                                                                         *)
(* One action, PrintResult, per call of print(result_row, single_result):  *)
(*   for every row: [CSV, first row ever: PrintHeader]  PrintRecord        *)
(*   after a multi-row result when not single_result: PrintSeparator       *)
(* The state carried between calls is `firstLine`.                         *)
(*                                                                         *)
(* An output line is a record:                                             *)
(*   [k |-> "rec", cols, row]   one result row (JSON: compared after       *)
(*                              decoding; text / CSV: `s` is the exact     *)
(*                              line when every value has a modelled text  *)
(*                              form, else <<-1>>)                         *)
(*   [k |-> "hdr", cols]        the CSV header                             *)
(*   [k |-> "sep"]              the empty separator line                   *)
(***************************************************************************)
EXTENDS Expr

CONSTANTS Formats, ResultMenu, MaxCalls

VARIABLES fmt, calls,     \* chosen once: output format; the sequence of print() calls [cols, rows, single]
          ci,             \* calls done
          firstLine,      \* OutputPrinter.first_line
          outp            \* lines printed so far

pvars == <<fmt, calls, ci, firstLine, outp>>

\* ---- the Display form of a value in text / CSV records ----------------------
\* text values "free of delimiter, quote and line-break characters"
PlainText(v) == v.t # "text" \/ \A i \in 1..Len(v.s) : v.s[i] \notin {59, 39, 34, 10, 13, 44}
Modelled(row) == \A i \in 1..Len(row) : Show(row[i]) # NoText /\ PlainText(row[i]) /\ (row[i].t = "arr" => \A j \in 1..Len(row[i].xs) : PlainText(row[i].xs[j]))

RECURSIVE JoinWith(_, _)
JoinWith(parts, d) == IF Len(parts) = 1 THEN parts[1] ELSE parts[1] \o d \o JoinWith(Tail(parts), d)

NameCp(n) == n     \* column names are sequences of code points as well

TextRecord(cols, row) ==
  IF ~Modelled(row) THEN NoText
  ELSE IF Len(row) = 1 /\ cols[1] = <<105, 110, 112, 117, 116>> THEN Show(row[1])        \* a lone `input` column prints just the line
  ELSE JoinWith([i \in 1..Len(row) |-> cols[i] \o <<58, 32>> \o Show(row[i])], <<44, 32>>)

CsvRecord(row) == IF ~Modelled(row) THEN NoText ELSE JoinWith([i \in 1..Len(row) |-> Show(row[i])], <<59>>)
CsvHeader(cols) == JoinWith(cols, <<59>>)

Rec(cols, row, s) == [k |-> "rec", cols |-> cols, row |-> row, s |-> s]
Hdr(cols, s)      == [k |-> "hdr", cols |-> cols, row |-> <<>>, s |-> s]
Sep               == [k |-> "sep", cols |-> <<>>, row |-> <<>>, s |-> <<>>]

\* the lines one call of print() adds, given first_line: <<lines, first_line'>>
RECURSIVE RowsOut(_, _, _, _)
RowsOut(cols, rows, fl, acc) ==
  IF rows = <<>> THEN <<acc, fl>>
  ELSE LET row == Head(rows)
           lone == Len(row) = 1 /\ cols[1] = <<105, 110, 112, 117, 116>> /\ fmt = "text"
           these == IF lone THEN <<Rec(cols, row, Show(row[1]))>>
                    ELSE CASE fmt = "text" -> <<Rec(cols, row, TextRecord(cols, row))>>
                           [] fmt = "json" -> <<Rec(cols, row, NoText)>>
                           [] fmt = "csv"  -> (IF fl THEN <<Hdr(cols, CsvHeader(cols))>> ELSE <<>>) \o <<Rec(cols, row, CsvRecord(row))>>
       IN RowsOut(cols, Tail(rows), FALSE, acc \o these)

PrintLines(call, fl) ==
  LET r == RowsOut(call.cols, call.rows, fl, <<>>)
  IN <<r[1] \o (IF Len(call.rows) > 1 /\ ~call.single THEN <<Sep>> ELSE <<>>), r[2]>>

RECURSIVE SeqsOfCalls(_)
SeqsOfCalls(n) == IF n = 0 THEN {<<>>} ELSE LET P == SeqsOfCalls(n - 1) IN P \cup {Append(s, x) : s \in {p \in P : Len(p) = n - 1}, x \in ResultMenu}

Init == /\ fmt \in Formats
        /\ calls \in SeqsOfCalls(MaxCalls)
        /\ ci = 0 /\ firstLine = TRUE /\ outp = <<>>

PrintResult ==
  /\ ci < Len(calls)
  /\ LET p == PrintLines(calls[ci + 1], firstLine)
     IN /\ outp' = outp \o p[1] /\ firstLine' = p[2]
  /\ ci' = ci + 1
  /\ UNCHANGED <<fmt, calls>>

Next == PrintResult
Spec == Init /\ [][Next]_pvars

\* ---- C17 ---------------------------------------------------------------------
RECURSIVE RowsOf(_, _)
RowsOf(cs, n) == IF n = 0 THEN <<>> ELSE RowsOf(cs, n - 1) \o cs[n].rows
Records == SelectSeq(outp, LAMBDA l : l.k = "rec")
Headers == SelectSeq(outp, LAMBDA l : l.k = "hdr")

\* every result row is printed exactly once, as one record, in result order
EveryRowOnceInOrder == [i \in 1..Len(Records) |-> Records[i].row] = RowsOf(calls, ci)
\* CSV: one header line, before the first record, iff there is a record; never in the other formats
HeaderOnce ==
  /\ Len(Headers) <= 1
  /\ (fmt = "csv" /\ Len(Records) > 0) <=> Len(Headers) = 1
  /\ Len(Headers) = 1 => (\E i \in 1..Len(outp) : outp[i].k = "hdr" /\ \A j \in 1..(i - 1) : outp[j].k # "rec")
\* each CSV record has one field per column (counting delimiters in the modelled text form)
FieldsPerRecord ==
  \A i \in 1..Len(outp) : (outp[i].k = "rec" /\ fmt = "csv" /\ outp[i].s # NoText) =>
      Len(SelectSeq(outp[i].s, LAMBDA c : c = 59)) = Len(outp[i].row) - 1
=============================================================================
