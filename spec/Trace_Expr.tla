---------------------------- MODULE Trace_Expr ----------------------------
(***************************************************************************)
(* impl -> spec, semantic: random expression trees (typed generator with   *)
(* injected NULLs, boundary values and type errors, depth <= 4) are        *)
(* evaluated by the real engine on a real row; each event carries the      *)
(* tree, the row's environment and the observed outcome.  The spec         *)
(* evaluates the same tree with Expr.Eval and, wherever the model predicts *)
(* an outcome (Val / Err), requires the observed one to be the same.       *)
(***************************************************************************)
EXTENDS Expr, Json, IOUtils
Rec == ndJsonDeserialize(IOEnv.TRACE)
VARIABLE l
TraceInit == TLCSet(1, 1) /\ l = 1
EventOK(e) ==
  LET o == Eval(e.e, e.env)
  IN \/ o.k = "unk" /\ e.out.k \in {"val", "err"}            \* not predicted: only totality
     \/ o.k = "err" /\ e.out.k = "err"
     \/ o.k = "val" /\ e.out.k = "val" /\ e.out.v = o.v
Evaluated == l <= Len(Rec) /\ Rec[l].ev = "eval" /\ EventOK(Rec[l]) /\ l' = l + 1
TraceNext == Evaluated
TraceSpec == TraceInit /\ [][TraceNext]_l
TraceUnfinished == l <= Len(Rec)
TrackProgress == TLCSet(1, IF TLCGet(1) < l THEN l ELSE TLCGet(1))
TraceRejectedAt == PrintT(<<"TRACE-REJECTED", "first unmatched event", TLCGet(1),
                            IF TLCGet(1) <= Len(Rec) THEN <<Rec[TLCGet(1)], "model says", Eval(Rec[TLCGet(1)].e, Rec[TLCGet(1)].env)>> ELSE <<"none">>>>)
=============================================================================
