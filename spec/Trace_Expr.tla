---------------------------- MODULE Trace_Expr ----------------------------
(***************************************************************************)
(* impl -> spec, semantic: random expression trees (typed generator with   *)
(* injected NULLs, boundary values and type errors, depth <= 4) are        *)
(* evaluated by the real engine on a real row; each event carries the      *)
(* tree, the row's environment and the observed outcome.  The spec         *)
(* evaluates the same tree with Expr.Eval and, wherever the model predicts *)
(* an outcome (Val / Err), requires the observed one to be the same.       *)
(***************************************************************************)
EXTENDS Expr, Json, IOUtils
Rec == ndJsonDeserialize(IOEnv.TRACE)
VARIABLE l
TraceInit == TLCSet(1, 1) /\ l = 1
EventOK(e) ==
  LET o == Eval(e.e, e.env)
  IN \/ o.k = "unk" /\ e.out.k \in {"val", "err"}            \* not predicted: only totality
     \/ o.k = "err" /\ e.out.k = "err"
     \/ o.k = "val" /\ e.out.k = "val" /\ e.out.v = o.v
Evaluated == l <= Len(Rec) /\ Rec[l].ev = "eval" /\ EventOK(Rec[l]) /\ l' = l + 1
\* now(): not a function of the row (C18: "only now() may differ between runs") -- its value lies between the instants the driver read just before and just
\* after the evaluation (under TZ=UTC), and expressions over it see that instant: it is later than 2020, its year is the clock's year
Clocked == /\ l <= Len(Rec) /\ Rec[l].ev = "now" /\ l' = l + 1
           /\ LET e == Rec[l] IN
                /\ e.out.k = "val" /\ Len(e.out.vs) = 3
                /\ e.out.vs[1].t = "ts" /\ Cmp(e.lo, e.out.vs[1]) <= 0 /\ Cmp(e.out.vs[1], e.hi) <= 0
                /\ e.out.vs[2] = BoolV(TRUE)
                /\ e.out.vs[3].t = "int" /\ e.out.vs[3].i \in {e.lo.f[1], e.hi.f[1]}
TraceNext == Evaluated \/ Clocked
TraceSpec == TraceInit /\ [][TraceNext]_l
TraceUnfinished == l <= Len(Rec)
TrackProgress == TLCSet(1, IF TLCGet(1) < l THEN l ELSE TLCGet(1))
TraceRejectedAt == PrintT(<<"TRACE-REJECTED", "first unmatched event", TLCGet(1),
                            IF TLCGet(1) <= Len(Rec) THEN <<Rec[TLCGet(1)], "model says", IF Rec[TLCGet(1)].ev = "eval" THEN Eval(Rec[TLCGet(1)].e, Rec[TLCGet(1)].env) ELSE "a value of now() between lo and hi">> ELSE <<"none">>>>)
=============================================================================
