---------------------------- MODULE Trace_Total ----------------------------
(***************************************************************************)
(* impl -> spec for C09 on inputs TLC cannot enumerate: arbitrary bytes    *)
(* (random and mutated corpus files) through FileExecutor in the three     *)
(* output formats, and the CLI as a child process under several TZ         *)
(* settings with timestamps inside DST gaps and overlaps.  The harness     *)
(* records the outcome class of every execution; the specification admits  *)
(*   Completed   the run ended and produced output (possibly none)         *)
(*   Reported    the run ended with an error message                       *)
(* and nothing else: a panic, an abort, a hang (watchdog) or a wrong exit  *)
(* status has no matching action and the trace is rejected at that event.  *)
(***************************************************************************)
EXTENDS Naturals, Sequences, TLC, Json, IOUtils
Rec == ndJsonDeserialize(IOEnv.TRACE)
VARIABLE l
TraceInit == TLCSet(1, 1) /\ l = 1
Completed == l <= Len(Rec) /\ Rec[l].ev = "exec" /\ Rec[l].outcome = "ok"  /\ l' = l + 1
Reported  == l <= Len(Rec) /\ Rec[l].ev = "exec" /\ Rec[l].outcome = "err" /\ l' = l + 1
TraceNext == Completed \/ Reported
TraceSpec == TraceInit /\ [][TraceNext]_l
TraceUnfinished == l <= Len(Rec)
TrackProgress == TLCSet(1, IF TLCGet(1) < l THEN l ELSE TLCGet(1))
TraceRejectedAt == PrintT(<<"TRACE-REJECTED", "first unmatched event", TLCGet(1), IF TLCGet(1) <= Len(Rec) THEN Rec[TLCGet(1)] ELSE "none">>)
=============================================================================
