--------------------------------- MODULE Cli ---------------------------------
(***************************************************************************)
(* The command-line driver (src/main.rs: main_normal / execute) as a state *)
(* machine -- the part of sqlgrep between the shell and FileExecutor that  *)
(* the library-level specifications (Engine, Reader, Printer) do not see:  *)
(*                                                                         *)
(*   LoadDefs     -d <file>: parse the definitions; a bad file ends the    *)
(*                process with status 1 and one message                    *)
(*   ParseCmd     -c <text> | --command-file <file>: a text that does not  *)
(*                parse gives one located message, nothing is executed     *)
(*   ChooseFiles  --stdin, else the statement's FROM t::'file', else the   *)
(*                input files of the command line, in command-line order   *)
(*   OpenFiles    every chosen file is opened before anything is read: a   *)
(*                file that cannot be opened gives one message and no      *)
(*                record at all                                            *)
(*   Execute      FileExecutor over the opened files (its meaning here is  *)
(*                the concatenation law of C12 applied to three fixed      *)
(*                statements; Engine.tla has the general one)              *)
(*   Print        one record per row in the chosen --format (C17); with    *)
(*                --show-run-stats one more line carrying the number of    *)
(*                input lines processed                                    *)
(*                                                                         *)
(* Properties: C12 (files in command-line order, FROM t::'file', every     *)
(* line once), C17 (records in every format as the process prints them),   *)
(* C14 (a located parse message, no crash), C09 (exit status, no panic).   *)
(* The environment's choices are made in Init: every behaviour is one      *)
(* deterministic run of the real binary that the harness replays.          *)
(***************************************************************************)
EXTENDS Expr

CONSTANTS FileIds,        \* the files that may be named on the command line
          MaxArgs,        \* at most this many input files on the command line
          Queries, DefKinds, Formats

\* ---- the world: file contents (sequences of lines; "missing" cannot be opened) ----
T2(a, b) == TextV(<<a, b>>)
Content(id) ==
  CASE id = "fa" -> <<T2(97, 49), T2(97, 50)>>                 \* a1 a2
    [] id = "fb" -> <<T2(98, 49)>>                             \* b1
    [] id = "fc" -> <<T2(99, 49), T2(99, 50)>>                 \* c1 c2   (the last line has no line break)
    [] id = "fe" -> <<>>                                       \* an empty file
    [] id = "dir" -> <<>>                                      \* a directory: it can be opened, every read fails -- it contributes no line and ends like a file
    [] id = "stdin" -> <<T2(122, 49), T2(122, 50), T2(122, 51)>>
    [] OTHER -> <<>>
Exists(id) == id # "missing"
\* what a FOLLOWED file delivers: its newline-terminated lines only (C10: an unterminated tail is never delivered) -- fc ends without a line break
FollowContent(id) == IF id = "fc" THEN <<T2(99, 49)>> ELSE Content(id)

\* ---- statements: what they name and what they mean over a sequence of lines ----
\*   all     SELECT x FROM t                      count   SELECT COUNT(*) AS n FROM t
\*   limit1  SELECT x FROM t LIMIT 1   (limit2: LIMIT 2)      from    SELECT x FROM t::'<fc>'      frommissing  ... t::'<missing>'
\*   parsebad  SELEC x FROM t                     notable SELECT x FROM nosuch         create  CREATE TABLE w(...)
\*   second  SELECT y FROM u   (a second table of the definition file: first character of each non-empty line)
FromOf(q) == CASE q = "from" -> "fc" [] q = "frommissing" -> "missing" [] OTHER -> "none"
ColOf(q) == CASE q = "count" -> <<110>> [] q = "second" -> <<121>> [] OTHER -> <<120>>        \* n / y / x
\*   parsetrunc / parsetrunc2   a statement cut off at its end, the text ending in one / two line breaks (the error lies at the very end of the text)
\*   commentsemi   SELECT x -- first; column <LF> FROM t -- all; of them <LF> LIMIT 1      (a `;` inside a comment ends nothing)
\*   trailnl       SELECT x FROM t LIMIT 2; <LF>
ParseBad(q) == q \in {"parsebad", "parsetrunc", "parsetrunc2"}
Norm(q) == CASE q = "commentsemi" -> "limit1" [] q = "trailnl" -> "limit2" [] OTHER -> q
Rows(q0, lines) ==
  LET q == Norm(q0) IN
  CASE q = "count" -> IF lines = <<>> THEN <<>> ELSE <<<<IntV(Len(lines))>>>>
    [] q = "limit1" -> IF lines = <<>> THEN <<>> ELSE <<<<lines[1]>>>>
    [] q = "limit2" -> [i \in 1..(IF Len(lines) < 2 THEN Len(lines) ELSE 2) |-> <<lines[i]>>]
    [] q = "second" -> [i \in 1..Len(lines) |-> <<TextV(<<lines[i].s[1]>>)>>]
    [] OTHER -> [i \in 1..Len(lines) |-> <<lines[i]>>]
Consumed(q0, lines) == LET q == Norm(q0) IN IF q = "limit1" /\ lines # <<>> THEN 1 ELSE IF q = "limit2" /\ Len(lines) >= 2 THEN 2 ELSE Len(lines)          \* LIMIT stops reading (C07)

VARIABLES files, query, defs, format, usestdin, stats, cmdsrc,     \* the environment's choices
          follow,            \* -f --head: FollowFileExecutor on the FIRST chosen file only, from its first byte; ends when LIMIT is reached
          pc, chosen, out, exit

cvars == <<files, query, defs, format, usestdin, stats, cmdsrc, follow>>
vars == <<cvars, pc, chosen, out, exit>>

Msg(m) == [k |-> "msg", m |-> m, row |-> <<>>, n |-> 0]
Rec(r) == [k |-> "rec", m |-> "", row |-> r, n |-> 0]
Hdr == [k |-> "hdr", m |-> "", row |-> <<>>, n |-> 0]
StatsLine(n) == [k |-> "stats", m |-> "", row |-> <<>>, n |-> n]

RECURSIVE SeqsUpTo(_, _)
SeqsUpTo(S, n) == IF n = 0 THEN {<<>>} ELSE LET P == SeqsUpTo(S, n - 1) IN P \cup {Append(s, x) : s \in {p \in P : Len(p) = n - 1}, x \in S}

Init ==
  /\ files \in SeqsUpTo(FileIds, MaxArgs)
  /\ query \in Queries /\ defs \in DefKinds /\ format \in Formats
  /\ usestdin \in BOOLEAN /\ stats \in BOOLEAN /\ cmdsrc \in {"c", "file"}
  /\ (stats => ~usestdin)                       \* keep the product small: the two flags are independent in the code
  /\ follow \in BOOLEAN
  \* a followed file is never "finished": only runs that end by themselves are modelled -- a LIMIT that the first file can satisfy
  /\ follow => /\ query \in {"limit1", "limit2", "commentsemi", "trailnl"} /\ ~usestdin /\ ~stats /\ defs \in {"ok", "two"}
               /\ files # <<>> /\ Len(FollowContent(files[1])) >= (IF Norm(query) = "limit1" THEN 1 ELSE 2)
  /\ pc = "defs" /\ chosen = <<>> /\ out = <<>> /\ exit = 0

LoadDefs ==
  /\ pc = "defs"
  \* "bad": the file is cut off;  "twobad": two tables of which the second has a pattern that is no regular expression;  "nosemi": the final `;` is missing
  /\ IF defs \in {"bad", "twobad", "nosemi"} THEN /\ out' = <<Msg("deferr")>> /\ exit' = 1 /\ pc' = "done"
     ELSE /\ pc' = "parse" /\ UNCHANGED <<out, exit>>
  /\ UNCHANGED <<cvars, chosen>>

ParseCmd ==
  /\ pc = "parse"
  /\ IF ParseBad(query) THEN /\ out' = <<Msg("parseerr")>> /\ pc' = "done"
     ELSE IF query = "create" THEN /\ pc' = "done" /\ UNCHANGED out           \* the table is added; nothing is printed
     ELSE /\ pc' = "choose" /\ UNCHANGED out
  /\ UNCHANGED <<cvars, chosen, exit>>

ChooseFiles ==
  /\ pc = "choose"
  /\ LET c == IF usestdin THEN <<"stdin">> ELSE IF FromOf(query) # "none" THEN <<FromOf(query)>> ELSE files
     IN IF c = <<>> THEN /\ out' = <<Msg("nofile")>> /\ pc' = "done" /\ UNCHANGED chosen
        ELSE /\ chosen' = c /\ pc' = "open" /\ UNCHANGED out
  /\ UNCHANGED <<cvars, exit>>

OpenFiles ==
  /\ pc = "open"
  /\ IF \E i \in 1..Len(chosen) : ~Exists(chosen[i])
     THEN /\ out' = <<Msg("openerr")>> /\ pc' = "done"                         \* nothing is read, not even the files before it
     ELSE /\ pc' = "exec" /\ UNCHANGED out
  /\ UNCHANGED <<cvars, chosen, exit>>

\* every chosen file is opened (OpenFiles), but follow mode then reads the first one only
Used == IF follow THEN <<chosen[1]>> ELSE chosen
AllLines == LET RECURSIVE cat(_) cat(i) == IF i = 0 THEN <<>> ELSE cat(i - 1) \o (IF follow THEN FollowContent(Used[i]) ELSE Content(Used[i])) IN cat(Len(Used))
TableKnown == CASE query = "notable" -> FALSE [] query = "second" -> defs = "two" [] OTHER -> defs \in {"ok", "two"}

Execute ==
  /\ pc = "exec"
  /\ IF ~TableKnown
     THEN \* the table is looked up when the first line is executed: without any input line nothing is reported;
          \* the statistics line (one input line was looked at) comes before the message
          out' = IF AllLines = <<>> THEN (IF stats THEN <<StatsLine(0)>> ELSE <<>>)
                 ELSE (IF stats THEN <<StatsLine(1)>> ELSE <<>>) \o <<Msg("execerr")>>
     ELSE LET rows == Rows(query, AllLines)
              recs == [i \in 1..Len(rows) |-> Rec(rows[i])]
          IN out' = (IF format = "csv" /\ rows # <<>> THEN <<Hdr>> ELSE <<>>) \o recs
                    \o (IF stats THEN <<StatsLine(Consumed(query, AllLines))>> ELSE <<>>)
  /\ pc' = "done"
  /\ UNCHANGED <<cvars, chosen, exit>>

Next == LoadDefs \/ ParseCmd \/ ChooseFiles \/ OpenFiles \/ Execute
Spec == Init /\ [][Next]_vars

-----------------------------------------------------------------------------
Done == pc = "done"
Records == SelectSeq(out, LAMBDA o : o.k = "rec")
Messages == SelectSeq(out, LAMBDA o : o.k = "msg")

\* C12 at the level of the process: the records are those of the concatenation of the named files, in command-line order,
\* a FROM t::'file' replaces the command line's files, --stdin replaces both
FilesInOrder ==
  (Done /\ Messages = <<>> /\ query \in {"all", "from"}) =>
     LET src == IF usestdin THEN <<"stdin">> ELSE IF query = "from" THEN <<"fc">> ELSE files
         RECURSIVE cat(_) cat(i) == IF i = 0 THEN <<>> ELSE cat(i - 1) \o Content(src[i])
     IN [i \in 1..Len(Records) |-> Records[i].row[1]] = cat(Len(src))
\* a message and records never mix; at most one message; only a bad definition file changes the exit status
MessageOrRecords == Done => (Len(Messages) <= 1 /\ (Messages # <<>> => Records = <<>>) /\ (exit = 1 <=> defs \in {"bad", "twobad", "nosemi"}))
\* C17: one CSV header, before the first record, only when there is a record
HeaderOnce == Done => LET h == SelectSeq(out, LAMBDA o : o.k = "hdr")
                      IN IF format = "csv" /\ Records # <<>> THEN Len(h) = 1 /\ out[1].k = "hdr" ELSE h = <<>>
TypeOK == pc \in {"defs", "parse", "choose", "open", "exec", "done"} /\ exit \in {0, 1}
=============================================================================
