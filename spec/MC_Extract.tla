----------------------------- MODULE MC_Extract -----------------------------
(***************************************************************************)
(* Bounded menus for Extract.tla: each case is one (columns, line) pair;   *)
(* TLC checks the rule-level properties and emits the predicted row.       *)
(***************************************************************************)
EXTENDS Extract, Json

CONSTANT CaseSets      \* which menus to enumerate

Ref(p, g) == [p |-> p, g |-> g]
XCol(src, refs, path, ty, el) == [src |-> src, refs |-> refs, path |-> path, ty |-> ty, el |-> el,
                                 nn |-> FALSE, trim |-> FALSE, conv |-> FALSE, micro |-> FALSE, def |-> NoDef]
One(p, g, ty) == XCol("one", <<Ref(p, g)>>, <<>>, ty, "")
Multi(refs, ty, el) == XCol("multi", refs, <<>>, ty, el)
JsonC(path, ty, el) == XCol("json", <<>>, path, ty, el)
F(n) == [k |-> "field", name |-> n, i |-> 0]
I(i) == [k |-> "index", name |-> "", i |-> i]

S(str) == str    \* code point sequences
t12 == <<49, 50>>
tNeg3 == <<45, 51>>
tPlus5 == <<43, 53>>
tPad7 == <<32, 55>>
t15 == <<49, 46, 53>>
tAbc == <<97, 98, 99>>
tTrue == <<116, 114, 117, 101>>
tTs == <<50, 48, 50, 49, 45, 48, 51, 45, 48, 52, 32, 48, 53, 58, 48, 54, 58, 48, 55>>       \* 2021-03-04 05:06:07
tTsBad == <<50, 48, 50, 49, 45, 49, 51, 45, 48, 49, 32, 48, 48, 58, 48, 48, 58, 48, 48>>    \* 2021-13-01 00:00:00
tIv == <<49, 58, 50, 58, 51>>                                                                \* 1:2:3
tSpX == <<32, 120, 9>>                                                                       \* " x<TAB>"
tZ == <<122>>
tSpE == <<32, 233, 32>>                                                                      \* " e-acute "
tE == <<82, 101, 110, 233>>                                                                  \* "Rene-acute": a multi-byte last character
tCjk == <<26481, 20140, 9>>                                                                  \* two CJK characters and a tab
\* interval texts at and beyond the representable range (an INTERVAL column must read them as a value or as NULL, never crash), a negative one
tIvHuge == <<57, 57, 57, 57, 57, 57, 57, 57, 57, 57, 57, 57, 57, 57, 57, 57, 58, 48, 58, 48>>
tIvMax1 == <<50, 53, 54, 50, 48, 52, 55, 55, 56, 56, 48, 49, 53, 58, 49, 50, 58, 53, 54>>
tIvSecs == <<48, 58, 48, 58, 57, 50, 50, 51, 51, 55, 50, 48, 51, 54, 56, 53, 52, 55, 55, 53, 56, 48, 55>>
tIvNeg == <<45, 49, 58, 45, 50, 58, 45, 51>>
tIv4 == <<49, 58, 50, 58, 51, 58, 52>>
tNbsp == <<160, 120, 121, 8195>>                \* NO-BREAK SPACE x y EM SPACE
tIdeo == <<12288, 122, 133, 32>>                \* IDEOGRAPHIC SPACE z NEL SPACE
tRare == <<304, 223, 8490, 64257>>              \* I WITH DOT ABOVE, sharp s, KELVIN SIGN, fi ligature (letters whose case forms have other lengths)
\* REAL spellings of f64::from_str beyond plain decimals: exponents in either case with and without sign, a bare leading / trailing dot, inf / infinity / nan
\* in any case with a sign (a NaN written with '-' has its sign bit set), and near-misses that are no REAL at all
RealTexts == {<<49, 101, 53>>, <<50, 69, 50>>, <<50, 53, 101, 45, 49>>, <<49, 101, 43, 50>>, <<46, 53>>, <<53, 46>>, <<43, 46, 53>>, <<45, 48, 46, 48>>, <<45, 48, 101, 48>>,
              <<105, 110, 102>>, <<45, 73, 110, 102, 105, 110, 105, 116, 121>>, <<43, 105, 110, 102>>, <<78, 97, 78>>, <<45, 110, 97, 110>>,
              <<49, 101>>, <<101, 53>>, <<46>>, <<49, 101, 43>>, <<105, 110, 102, 105>>, <<49, 46, 50, 46, 51>>, <<49, 101, 50, 46, 53>>, <<49, 32>>, <<48, 120, 49, 48>>}
Texts == {tNbsp, tIdeo, tRare, tIvHuge, tIvMax1, tIvSecs, tIvNeg, tIv4, <<>>, t12, tNeg3, tPlus5, tPad7, t15, tAbc, tTrue, tTs, tTsBad, tIv, tSpX, tSpE, tE, tCjk, MaxText, MaxPlus1Text, MinText, LongDigits, U32WrapText} \cup RealTexts
GStates == {NoGroup} \cup {G(x) : x \in Texts}

Groups7(g1, g2, g3) == Match(<<g1, g2, g3, NoGroup, NoGroup, NoGroup, NoGroup>>)
Line(cap) == [inl |-> NoGroup, cap |-> cap, extra |-> <<>>, doc |-> NoDoc, tag |-> NoGroup, ndk |-> 0]

DefOf(ty) == CASE ty = "int" -> IntV(7) [] ty = "real" -> RealV(5, 2) [] ty = "text" -> TextV(<<100>>) [] ty = "bool" -> BoolV(TRUE) [] OTHER -> NoDef
Types == {"text", "int", "real", "bool", "ts", "iv"}
Mods(ty) == {"plain", "nn", "def"} \cup (IF ty = "text" THEN {"trim"} ELSE {})
WithMod(c, m) == CASE m = "nn" -> [c EXCEPT !.nn = TRUE] [] m = "def" -> [c EXCEPT !.def = DefOf(c.ty)] [] m = "trim" -> [c EXCEPT !.trim = TRUE] [] OTHER -> c

\* (i) every type x modifier x group state; a second column on another group shows independence
CasesTypes ==
  {[cols |-> <<WithMod(One("p", 1, ty), m), One("p", 2, "text")>>, line |-> Line(cap)] :
     ty \in Types, m \in {"plain", "nn", "def", "trim"}, cap \in {NoMatch} \cup {Groups7(g, h, NoGroup) : g \in GStates, h \in {NoGroup, G(tZ)}}}
  \ {x \in {[cols |-> <<WithMod(One("p", 1, ty), "trim"), One("p", 2, "text")>>, line |-> Line(cap)] :
              ty \in Types \ {"text"}, cap \in {NoMatch} \cup {Groups7(g, h, NoGroup) : g \in GStates, h \in {NoGroup, G(tZ)}}} : TRUE}

\* (ii) rows of three columns sharing / not sharing groups, NOT NULL in each position, group 0 and out-of-range groups
SmallG == {NoGroup, G(<<>>), G(t12), G(tAbc)}
CasesRows ==
  {[cols |-> <<[One("p", 1, "int") EXCEPT !.nn = (nnp = 1)], [One("p", r2, "text") EXCEPT !.nn = (nnp = 2)], [One("p", 3, "int") EXCEPT !.nn = (nnp = 3), !.def = d]>>,
    line |-> Line(cap)] :
     nnp \in 0..3, r2 \in {0, 1, 2, 8}, d \in {NoDef, IntV(7)}, cap \in {NoMatch} \cup {Groups7(a, b, c) : a \in SmallG, b \in SmallG, c \in {NoGroup, G(t12)}}}

CasesTwoNotNull ==
  {[cols |-> <<[One("p", 1, "int") EXCEPT !.nn = a1], [One("p", 2, "text") EXCEPT !.nn = a2], [One("p", 3, "int") EXCEPT !.nn = a3]>>, line |-> Line(cap)] :
     a1 \in BOOLEAN, a2 \in BOOLEAN, a3 \in BOOLEAN, cap \in {Groups7(a, b, c) : a \in {NoGroup, G(t12)}, b \in {NoGroup, G(tAbc)}, c \in {NoGroup, G(t12), G(tAbc)}}}

\* (iii) TIMESTAMP assembled from up to 7 groups
PartTexts == {<<50, 48, 50, 49>>, <<48>>, <<49>>, <<49, 50>>, <<49, 51>>, <<51, 49>>, <<51, 50>>, <<50, 52>>, <<54, 48>>, <<53, 57>>, <<45, 49>>, <<120>>, <<74, 117, 110>>, <<106, 117, 108, 121>>, <<97, 111, 251, 116>>, <<100, 233, 99>>, <<77, 228, 114, 122>>,      \* aout / dec / Maerz with their non-ASCII letters
              U32WrapText, MaxPlus1Text, <<57, 57, 57>>, <<49, 50, 51, 52, 53, 54, 55>>,
              \* fractions around the limits: 1999 / 2000 ms, 4294968 ms (x 1000 leaves 32 bits), 2147484 ms (x 1000 leaves 31 bits), 1999999 / 2000000 us, nanoseconds
              <<49, 57, 57, 57>>, <<50, 48, 48, 48>>, <<52, 50, 57, 52, 57, 54, 56>>, <<50, 49, 52, 55, 52, 56, 52>>, <<49, 57, 57, 57, 57, 57, 57>>, <<50, 48, 48, 48, 48, 48, 48>>, <<49, 50, 51, 52, 53, 54, 55, 56, 57>>}
PartStates == {NoGroup} \cup {G(x) : x \in PartTexts}
BaseTs == <<G(<<50, 48, 50, 49>>), G(<<50>>), G(<<50, 56>>), G(<<50, 51>>), G(<<53, 57>>), G(<<53, 57>>), G(<<57, 57, 57>>)>>     \* 2021-02-28 23:59:59.999
TsCol(n, micro, d) == [Multi([i \in 1..n |-> Ref("p", i)], "ts", "") EXCEPT !.micro = micro, !.def = d]
CasesTs ==
  {[cols |-> <<TsCol(n, mc, d), One("p", 1, "text")>>, line |-> Line(Match([BaseTs EXCEPT ![i] = x]))] :
     n \in {3, 6, 7}, mc \in BOOLEAN, d \in {NoDef}, i \in 1..7, x \in PartStates}
  \cup {[cols |-> <<TsCol(7, FALSE, NoDef)>>, line |-> Line(Match([BaseTs EXCEPT ![2] = x, ![3] = y]))] : x \in PartStates, y \in PartStates}
  \cup {[cols |-> <<TsCol(6, FALSE, NoDef)>>, line |-> Line(Match([BaseTs EXCEPT ![1] = x, ![3] = y]))] : x \in {G(<<50, 48, 50, 48>>), G(<<49, 57, 48, 48>>), G(<<50, 48, 48, 48>>)}, y \in {G(<<50, 57>>), G(<<50, 56>>)}}
  \cup {[cols |-> <<TsCol(2, FALSE, NoDef)>>, line |-> Line(NoMatch)]}

\* (iv) arrays of 1..3 positions
CasesArrays ==
  {[cols |-> <<Multi([i \in 1..n |-> Ref("p", i)], "arr", el), [One("p", 1, "arr") EXCEPT !.el = "int"]>>, line |-> Line(cap)] :
     n \in {2, 3}, el \in {"int", "text", "bool", "real"}, cap \in {NoMatch} \cup {Groups7(a, b, c) : a \in {NoGroup, G(t12), G(tAbc)}, b \in {NoGroup, G(t15), G(<<>>)}, c \in {NoGroup, G(tNeg3)}}}
  \cup {[cols |-> <<[Multi(<<Ref("p", 1), Ref("p", 2)>>, "arr", "int") EXCEPT !.nn = TRUE], One("p", 3, "int")>>, line |-> Line(Groups7(a, NoGroup, G(t12)))] : a \in {NoGroup, G(t12), G(tAbc)}}
  \cup {[cols |-> <<Multi(<<Ref("p", 1), Ref("p", 2)>>, "int", "")>>, line |-> Line(Groups7(G(t12), G(t12), NoGroup))]}

\* (iv-b) array / TIMESTAMP columns whose listed groups come from different patterns
CasesCross ==
  {[cols |-> <<Multi(<<Ref("p", 1), Ref("s", 2), Ref("i", 1)>>, "arr", el), Multi(<<Ref("s", 2), Ref("p", 1)>>, "arr", "int")>>,
    line |-> [inl |-> inl, cap |-> cap, extra |-> ex, doc |-> NoDoc, tag |-> NoGroup, ndk |-> 0]] :
     el \in {"int", "text"}, inl \in {NoGroup, G(t12)}, cap \in {NoMatch, Groups7(G(tNeg3), NoGroup, NoGroup), Groups7(NoGroup, G(t12), NoGroup)}, ex \in {<<>>, <<t12>>, <<tAbc, t12>>}}
  \cup {[cols |-> <<[Multi(<<Ref("p", 1), Ref("s", 2), Ref("s", 3)>>, "ts", "") EXCEPT !.def = NoDef]>>,
         line |-> [inl |-> NoGroup, cap |-> Groups7(G(<<50, 48, 50, 49>>), NoGroup, NoGroup), extra |-> ex, doc |-> NoDoc, tag |-> NoGroup, ndk |-> 0]] :
          ex \in {<<<<49, 50>>, <<51, 49>>>>, <<<<50>>, <<51, 48>>>>, <<<<74, 117, 110>>, <<55>>>>, <<>>}}

\* (iv-c) array / TIMESTAMP columns over split fields listed in an order that is not ascending (the year late in the line but listed first), lines with
\* more fields than the highest one referenced
CasesSplitOrder ==
  {[cols |-> <<Multi(<<Ref("s", 4), Ref("s", 2), Ref("s", 3)>>, ty, el), One("s", 2, "int")>>,
    line |-> [inl |-> NoGroup, cap |-> NoMatch, extra |-> ex, doc |-> NoDoc, tag |-> NoGroup, ndk |-> 0]] :
     ty \in {"arr"}, el \in {"int", "text"}, ex \in {<<<<54>>, <<49, 55>>, <<50, 48, 48, 53>>>>, <<<<54>>, <<49, 55>>, <<50, 48, 48, 53>>, <<57>>, <<56>>>>, <<<<54>>, <<49, 55>>>>}}
  \cup {[cols |-> <<[Multi(<<Ref("s", 4), Ref("s", 2), Ref("s", 3)>>, "ts", "") EXCEPT !.def = NoDef]>>,
          line |-> [inl |-> NoGroup, cap |-> NoMatch, extra |-> ex, doc |-> NoDoc, tag |-> NoGroup, ndk |-> 0]] :
           ex \in {<<<<54>>, <<49, 55>>, <<50, 48, 48, 53>>>>, <<<<54>>, <<49, 55>>, <<50, 48, 48, 53>>, <<57>>>>}}

\* (v) split fields, inline pattern, several patterns, a second match later in the line
SecondMatch == <<80, 58, 65, 60, 57, 57, 62>>     \* "P:A<99>" appearing after the first match
CasesSplit ==
  {c \in {[cols |-> <<One("s", g, ty), One("i", 1, "int"), One("p", 1, "int")>>,
    line |-> [inl |-> inl, cap |-> cap, extra |-> ex, doc |-> NoDoc, tag |-> NoGroup, ndk |-> 0]] :
     g \in {0, 1, 2, 3, 9}, ty \in {"text", "int", "bool"}, inl \in {NoGroup, G(t12), G(tAbc)},
     cap \in {NoMatch, Groups7(G(tNeg3), NoGroup, NoGroup), Groups7(NoGroup, NoGroup, NoGroup)}, ex \in {<<>>, <<t12>>, <<tAbc, <<>>>>, <<SecondMatch>>, <<tPad7, t12>>}} :
     \* a second match later in the line presupposes a first one (else it would be the leftmost)
     c.line.cap.m \/ c.line.extra # <<SecondMatch>>}

\* ---- JSON (C02) --------------------------------------------------------------------------------------
sA == "a"
Leaves == {JNum(IntV(5)), JNum(IntV(-2)), JNum(MaxV(0)), JBigU64, JHuge, JNum(RealV(1, 1)), JNum(RealV(3, 2)), JStr(t12), JStr(tAbc), JStr(tTs), JStr(<<>>),
           JBool(TRUE), JNull, JArr(<<>>), JArr(<<JNum(IntV(1)), JNum(IntV(2))>>), JArr(<<JNum(IntV(1)), JStr(tAbc), JNull>>), JArr(<<JArr(<<JNum(IntV(1))>>)>>),
           JObj(<<<<"b", JNum(IntV(9))>>>>)}
JTypes == {<<"int", "">>, <<"real", "">>, <<"text", "">>, <<"bool", "">>, <<"arr", "int">>, <<"arr", "text">>, <<"ts", "">>, <<"iv", "">>}
JMods == {"plain", "conv", "def", "nn"}
JWith(c, m) == CASE m = "conv" -> [c EXCEPT !.conv = TRUE] [] m = "def" -> [c EXCEPT !.def = DefOf(c.ty)] [] m = "nn" -> [c EXCEPT !.nn = TRUE] [] OTHER -> c
JLine(doc, tag, ndk) == [inl |-> NoGroup, cap |-> NoMatch, extra |-> <<>>, doc |-> doc, tag |-> tag, ndk |-> ndk]
TagCol == One("tag", 1, "int")

\* every leaf x type x modifier, addressed by .a ; the raw-line regex column rides along
CasesJsonLeaf ==
  {[cols |-> <<JWith(JsonC(<<F("a")>>, ty[1], ty[2]), m), TagCol>>, line |-> JLine(JObj(<<<<"a", leaf>>, <<"z", JNum(IntV(0))>>>>), tag, 0)] :
     leaf \in Leaves, ty \in JTypes, m \in JMods, tag \in {NoGroup, G(t12)}}

\* paths of length 1..3 through objects and arrays; missing and wrong-kind intermediate nodes
Paths == {<<F("a")>>, <<F("a"), F("b")>>, <<F("a"), I(0)>>, <<F("a"), I(1), F("b")>>, <<I(0)>>, <<I(1), F("a")>>, <<F("b")>>}
Docs == {JObj(<<>>), JObj(<<<<"a", JNum(IntV(5))>>>>), JObj(<<<<"a", JObj(<<<<"b", JNum(IntV(6))>>>>)>>>>),
         JObj(<<<<"a", JArr(<<JNum(IntV(7)), JObj(<<<<"b", JNum(IntV(8))>>>>)>>)>>>>), JArr(<<JNum(IntV(1)), JObj(<<<<"a", JNum(IntV(2))>>>>)>>),
         JObj(<<<<"a", JNull>>>>), JObj(<<<<"b", JNum(IntV(3))>>, <<"a", JNum(IntV(4))>>>>), JNum(IntV(1)), JStr(tAbc),
         JObj(<<<<"a", JNum(IntV(1))>>, <<"a", JNum(IntV(2))>>>>),
         \* objects whose keys look like array indexes (an index step addresses arrays only), arrays where a field step arrives
         JObj(<<<<"a", JObj(<<<<"0", JNum(IntV(9))>>, <<"1", JObj(<<<<"b", JNum(IntV(7))>>>>)>>>>)>>>>), JObj(<<<<"0", JNum(IntV(5))>>, <<"1", JObj(<<<<"a", JNum(IntV(6))>>>>)>>>>),
         JArr(<<JObj(<<<<"a", JNum(IntV(1))>>, <<"b", JNum(IntV(2))>>>>)>>), JObj(<<<<"a", JArr(<<JArr(<<JNum(IntV(1))>>), JNum(IntV(2))>>)>>, <<"b", JArr(<<JNum(IntV(3))>>)>>>>)}
CasesJsonPath ==
  {[cols |-> <<JWith(JsonC(p, "int", ""), m), JsonC(<<F("b")>>, "int", "")>>, line |-> JLine(d, NoGroup, 0)] : p \in Paths, d \in Docs, m \in {"plain", "def", "nn"}}
  \cup {[cols |-> <<JWith(JsonC(<<F("a")>>, ty[1], ty[2]), m), TagCol>>, line |-> JLine(NoDoc, tag, k)] :
          ty \in JTypes, m \in JMods, tag \in {NoGroup, G(t12)}, k \in 1..5}

\* the same documents written with insignificant whitespace around / inside them (layout codes 6..10 of the harness: leading blanks, a trailing blank,
\* a trailing tab, a trailing CR, blanks inside): a JSON text stays the same document
CasesJsonLayout ==
  {c \in {[cols |-> <<JsonC(p, "int", ""), JWith(JsonC(<<F("b")>>, "int", ""), m), TagCol>>, line |-> JLine(d, tag, k)] :
     p \in {<<F("a")>>, <<F("a"), I(0)>>}, m \in {"plain", "nn"}, tag \in {NoGroup, G(t12)}, k \in 6..10,
     d \in {JObj(<<<<"a", JNum(IntV(5))>>>>), JObj(<<<<"b", JNum(IntV(3))>>, <<"a", JNum(IntV(4))>>>>), JObj(<<<<"a", JArr(<<JNum(IntV(7)), JNum(IntV(8))>>)>>, <<"b", JNum(IntV(1))>>>>), JArr(<<JNum(IntV(1))>>)}} :
     c.line.doc.k = "arr" => c.line.tag = NoGroup}         \* the harness can only plant the tag text inside a top-level object

\* columns whose paths overlap on one JSON string (the same path twice, an array and one of its elements): each column has the value
CasesJsonOverlap ==
  {[cols |-> cs, line |-> JLine(d, NoGroup, 0)] :
     cs \in {<<JsonC(<<F("a")>>, "text", ""), JsonC(<<F("a")>>, "text", "")>>, <<JsonC(<<F("a")>>, "arr", "text"), JsonC(<<F("a"), I(0)>>, "text", "")>>,
             <<JsonC(<<F("a"), I(1)>>, "text", ""), JsonC(<<F("a")>>, "arr", "text"), JsonC(<<F("a"), I(1)>>, "text", "")>>},
     d \in {JObj(<<<<"a", JStr(tAbc)>>>>), JObj(<<<<"a", JArr(<<JStr(tAbc), JStr(t12)>>)>>>>)}}

\* the admission rule (C06) over tables that mix JSON and regex columns: NOT NULL in every position -- before, at and after the first JSON column --
\* on lines where exactly that column has no value while another one has
J1 == JsonC(<<F("a")>>, "int", "")
J2 == JsonC(<<F("b")>>, "int", "")
AdmitOrders == {<<J1, J2, TagCol>>, <<J1, TagCol>>, <<TagCol, J1, J2>>, <<J1, J2>>, <<TagCol, J1>>, <<J2, TagCol, J1>>}
NnAt(cols, i) == [j \in 1..Len(cols) |-> IF j = i THEN JWith(cols[j], "nn") ELSE cols[j]]
CasesAdmit ==
  {c \in {[cols |-> NnAt(o, i), line |-> JLine(d, tag, 0)] : o \in AdmitOrders, i \in 1..3, tag \in {NoGroup, G(t12)},
           d \in {JObj(<<>>), JObj(<<<<"a", JNum(IntV(5))>>>>), JObj(<<<<"b", JNum(IntV(3))>>, <<"a", JNum(IntV(4))>>>>), JObj(<<<<"b", JNum(IntV(3))>>>>), JObj(<<<<"a", JNull>>, <<"b", JNum(IntV(1))>>>>)}} :
     Len(c.cols) >= 2}
  \cup {[cols |-> NnAt(o, i), line |-> JLine(NoDoc, tag, k)] : o \in AdmitOrders, i \in 1..3, tag \in {NoGroup, G(t12)}, k \in 1..2}

Cases == (IF "types" \in CaseSets THEN CasesTypes ELSE {}) \cup (IF "rows" \in CaseSets THEN CasesRows \cup CasesTwoNotNull ELSE {})
         \cup (IF "ts" \in CaseSets THEN CasesTs ELSE {}) \cup (IF "arrays" \in CaseSets THEN CasesArrays \cup CasesCross \cup CasesSplitOrder ELSE {})
         \cup (IF "split" \in CaseSets THEN CasesSplit ELSE {}) \cup (IF "admit" \in CaseSets THEN CasesAdmit ELSE {})
         \cup (IF "jsonleaf" \in CaseSets THEN CasesJsonLeaf ELSE {}) \cup (IF "jsonpath" \in CaseSets THEN CasesJsonPath \cup CasesJsonLayout \cup CasesJsonOverlap ELSE {})

VARIABLE cs
Init == cs \in Cases
Next == UNCHANGED cs
Spec == Init /\ [][Next]_cs

Independent == ColumnsIndependent(cs.cols, cs.line)
Admission == AdmissionRule(cs.cols, cs.line)
Emit == LET r == ExtractRow(cs.cols, cs.line)
        IN PrintT(<<"REPLAY", ToJson([cols |-> cs.cols, line |-> cs.line, text |-> LineTextOf(cs.line), st |-> r[1], row |-> r[2]])>>)
=============================================================================
