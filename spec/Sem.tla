--------------------------------- MODULE Sem ---------------------------------
(***************************************************************************)
(* Declarative meaning of sqlgrep statements over a list of input lines:   *)
(* admission (C06), SELECT / WHERE (C03), GROUP BY and aggregates (C04),   *)
(* JOIN (C05), DISTINCT (C08), LIMIT (C07).  Engine.tla is the operational *)
(* machine shaped like the code; TLC checks that it refines this module.   *)
(*                                                                         *)
(* A row (environment) is a function  column name -> Value ; "input" is    *)
(* the raw line.  Statements are records (rendered to SQL text by the      *)
(* harness and parsed by the real parser):                                 *)
(*  [kind |-> "select", star, proj, where, distinct, limit, join]          *)
(*  [kind |-> "agg", items, group, where, having, distinct, limit, join]   *)
(*   item = [a |-> "key", e] | [a |-> "count_star"] | [a |-> "count", col] *)
(*        | [a |-> "count_distinct", col] | [a |-> "sum"|"min"|"max"|"avg" *)
(*        |"bool_and"|"bool_or"|"array_agg"|"variance"|"stddev", e]        *)
(*        | [a |-> "string_agg", e, delim] | [a |-> "percentile", e, pn, pd]*)
(*     each with  wrap  (an expression over "$value", or NoE)              *)
(*   having = NoH | [h |-> "agg", it, f, c] | [h |-> "key", e, f, c]       *)
(*          | [h |-> "keynull", e, neg] | [h |-> "and"|"or", l, r]         *)
(***************************************************************************)
EXTENDS Expr

SemDevNames == {"AvgIntTrunc"}

NoE == [op |-> "none"]
NoH == [h |-> "none"]
NoLimit == -1

\* outcome of a whole run: the records in order and how it ended
Out(recs, st) == [recs |-> recs, st |-> st]        \* st \in {"ok", "err", "unk", "panic"}

-----------------------------------------------------------------------------
\* one environment -> what a SELECT does with it
Pass(where, env) ==          \* "yes" | "no" | "err" | "unk" | "panic"
  IF where = NoE THEN "yes"
  ELSE LET o == Eval(where, env)
       IN IF o.k = "val" THEN (IF Truth(o.v) THEN "yes" ELSE "no") ELSE o.k

\* projection of one environment: <<status, tuple>>
RECURSIVE ProjectFrom(_, _, _)
ProjectFrom(es, env, acc) ==
  IF es = <<>> THEN <<"row", acc>>
  ELSE LET o == Eval(Head(es), env)
       IN IF o.k # "val" THEN <<o.k, <<>>>> ELSE ProjectFrom(Tail(es), env, Append(acc, o.v))

SelectEnv(q, env, starCols) ==
  LET p == Pass(q.where, env)
  IN IF p = "no" THEN <<"skip", <<>>>>
     ELSE IF p # "yes" THEN <<p, <<>>>>
     ELSE IF q.star THEN <<"row", [i \in 1..Len(starCols) |-> env[starCols[i]]]>>
     ELSE ProjectFrom([i \in 1..Len(q.proj) |-> q.proj[i].e], env, <<>>)

\* tuple equality for DISTINCT: column-wise by the value equality (NULL = NULL, numbers by value)
TupleEq(a, b) == Len(a) = Len(b) /\ \A i \in 1..Len(a) : EqB(a[i], b[i])
Seen(seen, t) == \E i \in 1..Len(seen) : TupleEq(seen[i], t)

RECURSIVE StableDedup(_, _)
StableDedup(rows, acc) ==
  IF rows = <<>> THEN acc
  ELSE IF Seen(acc, Head(rows)) THEN StableDedup(Tail(rows), acc)
  ELSE StableDedup(Tail(rows), Append(acc, Head(rows)))

Take(n, s) == IF n = NoLimit \/ n >= Len(s) THEN s ELSE SubSeq(s, 1, n)

\* SELECT over a sequence of environments, without LIMIT: rows in order until the first error
RECURSIVE SelectAll(_, _, _, _)
SelectAll(q, envs, starCols, acc) ==
  IF envs = <<>> THEN Out(acc, "ok")
  ELSE LET r == SelectEnv(q, Head(envs), starCols)
       IN IF r[1] = "skip" THEN SelectAll(q, Tail(envs), starCols, acc)
          ELSE IF r[1] # "row" THEN Out(acc, r[1])
          ELSE IF q.distinct /\ Seen(acc, r[2]) THEN SelectAll(q, Tail(envs), starCols, acc)
          ELSE SelectAll(q, Tail(envs), starCols, Append(acc, r[2]))

-----------------------------------------------------------------------------
\* Aggregates: folds over the rows of one group

NonNull(vs) == SelectSeq(vs, LAMBDA v : ~IsNull(v))

RECURSIVE EvalAll(_, _, _)
EvalAll(e, envs, acc) ==      \* <<status, values>>
  IF envs = <<>> THEN <<"ok", acc>>
  ELSE LET o == Eval(e, Head(envs))
       IN IF o.k # "val" THEN <<o.k, acc>> ELSE EvalAll(e, Tail(envs), Append(acc, o.v))

RECURSIVE SumInts(_, _)
SumInts(vs, acc) == IF vs = <<>> THEN acc
                    ELSE LET r == IAdd(acc, Head(vs)) IN IF r.t \in {"ovf", "unk"} THEN r ELSE SumInts(Tail(vs), r)
RECURSIVE SumReals(_, _)
SumReals(vs, acc) == IF vs = <<>> THEN acc
                     ELSE IF Head(vs).c # "fin" THEN XUnk
                     ELSE LET r == RAdd(acc, Head(vs)) IN IF r.t = "unk" THEN r ELSE SumReals(Tail(vs), r)

RECURSIVE SumIvs(_, _)
SumIvs(vs, acc) == IF vs = <<>> THEN Val(acc)
                   ELSE LET r == ArithV("+", acc, Head(vs)) IN IF r.k # "val" THEN r ELSE SumIvs(Tail(vs), r.v)

AllOf(vs, ty) == \A i \in 1..Len(vs) : vs[i].t = ty

SumOf(vs) ==    \* vs non-NULL, non-empty
  IF AllOf(vs, "int") THEN (LET r == SumInts(Tail(vs), Head(vs)) IN
                             IF r.t = "unk" THEN Unk ELSE IF r.t = "ovf" THEN (IF "UncheckedArith" \in Dev THEN Panic ELSE Err) ELSE Val(r))
  ELSE IF AllOf(vs, "real") THEN (IF Head(vs).c # "fin" THEN Unk ELSE LET r == SumReals(Tail(vs), Head(vs)) IN IF r.t = "unk" THEN Unk ELSE Val(r))
  ELSE IF AllOf(vs, "iv") THEN SumIvs(Tail(vs), Head(vs))
  ELSE Unk

RECURSIVE Extreme(_, _, _)
Extreme(vs, best, wantMax) ==
  IF vs = <<>> THEN best
  ELSE LET c == CmpB(Head(vs), best)
       IN Extreme(Tail(vs), IF (wantMax /\ c > 0) \/ (~wantMax /\ c < 0) THEN Head(vs) ELSE best, wantMax)

RECURSIVE SortVals(_, _)
InsertVal(xs, v) == LET RECURSIVE ins(_) 
                        ins(s) == IF s = <<>> THEN <<v>>
                                  ELSE IF CmpB(v, Head(s)) < 0 THEN <<v>> \o s ELSE <<Head(s)>> \o ins(Tail(s))
                    IN ins(xs)
SortVals(vs, acc) == IF vs = <<>> THEN acc ELSE SortVals(Tail(vs), InsertVal(acc, Head(vs)))

RECURSIVE DistinctCount(_, _)
DistinctCount(vs, seen) ==
  IF vs = <<>> THEN Len(seen)
  ELSE IF \E i \in 1..Len(seen) : EqB(seen[i], Head(vs)) THEN DistinctCount(Tail(vs), seen)
  ELSE DistinctCount(Tail(vs), Append(seen, Head(vs)))

RECURSIVE JoinText(_, _, _)
JoinText(vs, delim, acc) == IF vs = <<>> THEN acc ELSE JoinText(Tail(vs), delim, acc \o delim \o Head(vs).s)

IsPow2(n) == n \in {1, 2, 4, 8, 16}

\* the value of one aggregate over the group's environments (before the wrapper)
AggValue(it, envs) ==
  CASE it.a = "count_star" -> Val(IntV(Len(envs)))
    [] it.a \in {"count", "count_distinct"} ->
         IF \E i \in 1..Len(envs) : it.col \notin DOMAIN envs[i] THEN Err
         ELSE LET vs == NonNull([i \in 1..Len(envs) |-> envs[i][it.col]])
              IN IF it.a = "count" THEN Val(IntV(Len(vs))) ELSE Val(IntV(DistinctCount(vs, <<>>)))
    [] OTHER ->
         LET ev == EvalAll(it.e, envs, <<>>)
         IN IF ev[1] # "ok" THEN [k |-> ev[1]]
            ELSE LET all == ev[2]
                     vs  == NonNull(all)
                 IN CASE it.a = "sum" -> IF vs = <<>> THEN Val(Null) ELSE SumOf(vs)
                      [] it.a \in {"min", "max"} ->
                           IF vs = <<>> THEN Val(Null)
                           ELSE IF \E i \in 1..Len(vs) : ~Comparable(vs[i], vs[1]) THEN Unk
                           ELSE Val(Extreme(Tail(vs), Head(vs), it.a = "max"))
                      [] it.a = "avg" ->
                           IF vs = <<>> THEN Val(Null)
                           ELSE LET s == SumOf(vs)
                                IN IF s.k # "val" THEN s
                                   ELSE IF s.v.t = "int" THEN (IF s.v.b # 0 THEN Unk ELSE Val(IntV(TruncDiv(s.v.i, Len(vs)))))   \* AVG of INT: integer division (pinned by the repository's tests; the property leaves it open)
                                   ELSE IF s.v.t = "iv" THEN (IF s.v.ms % Len(vs) = 0 THEN Val(IvV(s.v.ms \div Len(vs))) ELSE Unk)       \* AVG of INTERVAL: exact quotients only
                                   ELSE IF IsPow2(Len(vs)) THEN (LET r == RealRes(s.v.n, s.v.d * Len(vs)) IN IF r.t = "unk" THEN Unk ELSE Val(r))
                                   ELSE Unk
                      [] it.a \in {"bool_and", "bool_or"} ->
                           IF \E i \in 1..Len(vs) : vs[i].t # "bool" THEN Err
                           ELSE IF vs = <<>> THEN Val(Null)
                           ELSE Val(BoolV(IF it.a = "bool_and" THEN \A i \in 1..Len(vs) : vs[i].v ELSE \E i \in 1..Len(vs) : vs[i].v))
                      [] it.a = "string_agg" ->
                           IF \E i \in 1..Len(vs) : vs[i].t # "text" THEN Err
                           ELSE IF vs = <<>> THEN Val(Null)
                           ELSE IF \E i \in 1..Len(vs) : vs[i].s = <<>> THEN Unk          \* empty strings: left open
                           ELSE Val(TextV(JoinText(Tail(vs), it.delim, Head(vs).s)))
                      [] it.a = "array_agg" ->
                           IF IsNull(all[1]) THEN Unk                                     \* element type unknown at the first row: left open
                           ELSE IF \E i \in 1..Len(vs) : ElemTypeOf(vs[i]) # ElemTypeOf(vs[1]) THEN Unk
                           ELSE Val(ArrV(ElemTypeOf(vs[1]), all))
                      [] it.a = "percentile" ->
                           IF vs = <<>> THEN Val(Null)
                           ELSE IF \E i \in 1..Len(vs) : ~Comparable(vs[i], vs[1]) THEN Unk
                           ELSE LET sorted == SortVals(vs, <<>>)
                                    idx == (it.pn * Len(vs)) \div it.pd              \* floor(p * n)
                                IN Val(sorted[IF idx >= Len(vs) THEN Len(vs) ELSE idx + 1])
                      [] it.a \in {"variance", "stddev"} ->
                           IF vs = <<>> THEN Val(Null)
                           ELSE IF ~AllOf(vs, "int") \/ ~IsPow2(Len(vs)) \/ \E i \in 1..Len(vs) : (vs[i].b # 0 \/ vs[i].i > 1000 \/ vs[i].i < -1000) THEN Unk
                           ELSE LET n  == Len(vs)
                                    s  == SumInts(Tail(vs), Head(vs)).i
                                    sq == [i \in 1..n |-> IntV(vs[i].i * vs[i].i)]
                                    ss == SumInts(Tail(sq), Head(sq)).i
                                    num == n * ss - s * s
                                IN IF it.a = "variance" THEN (LET r == RealRes(num, n * n) IN IF r.t = "unk" THEN Unk ELSE Val(r))
                                   ELSE IF PerfectSquare(num) THEN (LET r == RealRes(ISqrt(num, 0), n) IN IF r.t = "unk" THEN Unk ELSE Val(r))
                                   ELSE Unk

ItemValue(it, envs) ==
  IF it.a = "key" THEN Eval(it.e, envs[1])
  ELSE LET o == AggValue(it, envs)
       IN IF o.k # "val" \/ it.wrap = NoE THEN o
          ELSE Eval(it.wrap, [n \in {"$value"} |-> o.v])

RECURSIVE HavingHolds(_, _)
HavingHolds(h, envs) ==     \* "yes" | "no" | "err" | "unk" | "panic"
  CASE h.h = "none" -> "yes"
    [] h.h = "agg" -> LET o == AggValue(h.it, envs)
                      IN IF o.k # "val" THEN o.k
                         ELSE LET c == Compare(h.f, o.v, h.c) IN IF c.k # "val" THEN c.k ELSE IF c.v.v THEN "yes" ELSE "no"
    [] h.h = "key" -> LET o == Eval(h.e, envs[1])
                      IN IF o.k # "val" THEN o.k
                         ELSE LET c == Compare(h.f, o.v, h.c) IN IF c.k # "val" THEN c.k ELSE IF c.v.v THEN "yes" ELSE "no"
    [] h.h = "keynull" -> LET o == Eval(h.e, envs[1]) IN IF o.k # "val" THEN o.k ELSE IF IsNull(o.v) # h.neg THEN "yes" ELSE "no"
    [] h.h \in {"and", "or"} ->
         LET l == HavingHolds(h.l, envs)
         IN IF l \notin {"yes", "no"} THEN l
            ELSE IF h.h = "and" /\ l = "no" THEN "no"
            ELSE IF h.h = "or" /\ l = "yes" THEN "yes"
            ELSE HavingHolds(h.r, envs)

\* key of one environment: <<status, tuple>>
KeyOf(q, env) == IF q.group = <<>> THEN <<"row", <<Null>>>> ELSE ProjectFrom(q.group, env, <<>>)

KeyItemsOk(q) == \A i \in 1..Len(q.items) : q.items[i].a = "key" => \E j \in 1..Len(q.group) : q.group[j] = q.items[i].e

\* the environments that pass WHERE, each with its key: <<status, seq of [key, env]>>
RECURSIVE Qualifying(_, _, _)
Qualifying(q, envs, acc) ==
  IF envs = <<>> THEN <<"ok", acc>>
  ELSE LET p == Pass(q.where, Head(envs))
       IN IF p = "no" THEN Qualifying(q, Tail(envs), acc)
          ELSE IF p # "yes" THEN <<p, acc>>
          ELSE LET k == KeyOf(q, Head(envs))
               IN IF k[1] # "row" THEN <<k[1], acc>>
                  ELSE Qualifying(q, Tail(envs), Append(acc, [key |-> k[2], env |-> Head(envs)]))

KeyEq(a, b) == TupleEq(a, b)
RECURSIVE CmpKey(_, _)
CmpKey(a, b) == IF a = <<>> THEN 0 ELSE LET c == CmpB(Head(a), Head(b)) IN IF c # 0 THEN c ELSE CmpKey(Tail(a), Tail(b))

RECURSIVE DistinctKeys(_, _)
DistinctKeys(ks, acc) ==
  IF ks = <<>> THEN acc
  ELSE IF \E i \in 1..Len(acc) : KeyEq(acc[i], Head(ks)) THEN DistinctKeys(Tail(ks), acc)
  ELSE DistinctKeys(Tail(ks), Append(acc, Head(ks)))

RECURSIVE SortKeys(_, _)
SortKeys(ks, acc) ==
  IF ks = <<>> THEN acc
  ELSE LET k == Head(ks)
           RECURSIVE ins(_)
           ins(s) == IF s = <<>> THEN <<k>> ELSE IF CmpKey(k, Head(s)) < 0 THEN <<k>> \o s ELSE <<Head(s)>> \o ins(Tail(s))
       IN SortKeys(Tail(ks), ins(acc))

\* one output row per group: <<status, tuple>> or <<"drop", _>> when HAVING rejects it
GroupRow(q, genvs) ==
  LET h == HavingHolds(q.having, genvs)
      RECURSIVE cells(_, _)
      cells(i, acc) == IF i > Len(q.items) THEN <<"row", acc>>
                       ELSE LET o == ItemValue(q.items[i], genvs)
                            IN IF o.k # "val" THEN <<o.k, acc>> ELSE cells(i + 1, Append(acc, o.v))
      row == cells(1, <<>>)
  IN \* the code builds every cell before it evaluates HAVING
     IF row[1] # "row" THEN row
     ELSE IF h = "no" THEN <<"drop", <<>>>>
     ELSE IF h # "yes" THEN <<h, <<>>>>
     ELSE row

RECURSIVE TableRows(_, _, _, _)
TableRows(q, qual, keys, acc) ==
  IF keys = <<>> THEN Out(acc, "ok")
  ELSE LET sel == SelectSeq(qual, LAMBDA x : KeyEq(x.key, Head(keys)))
           genvs == [i \in 1..Len(sel) |-> sel[i].env]
           r == GroupRow(q, genvs)
       IN IF r[1] = "drop" THEN TableRows(q, qual, Tail(keys), acc)
          ELSE IF r[1] # "row" THEN Out(acc, r[1])
          ELSE IF q.distinct /\ Seen(acc, r[2]) THEN TableRows(q, qual, Tail(keys), acc)
          ELSE TableRows(q, qual, Tail(keys), Append(acc, r[2]))

\* the table of an aggregate statement over the given environments (no LIMIT applied)
AggTable(q, envs) ==
  LET qf == Qualifying(q, envs, <<>>)
  IN IF qf[2] # <<>> /\ ~KeyItemsOk(q) THEN Out(<<>>, "err")       \* a key expression that is not in GROUP BY: reported at the first qualifying row
     ELSE IF qf[1] # "ok" THEN Out(<<>>, qf[1])
     ELSE LET keys == SortKeys(DistinctKeys([i \in 1..Len(qf[2]) |-> qf[2][i].key], <<>>), <<>>)
              t == TableRows(q, qf[2], keys, <<>>)
          IN IF t.st = "ok" THEN t ELSE Out(<<>>, t.st)          \* a table that cannot be built is not shown at all

-----------------------------------------------------------------------------
\* JOIN: environments of the pairs (r, s) with equal non-NULL keys, by r then s; OUTER adds r x NULLs
JoinEnvs(join, envs, jenvs, lkey, rkey, merge(_, _), nullRight) ==
  LET RECURSIVE go(_, _)
      go(rs, acc) ==
        IF rs = <<>> THEN acc
        ELSE LET r == Head(rs)
                 ps == SelectSeq(jenvs, LAMBDA s : ~IsNull(r[lkey]) /\ ~IsNull(s[rkey]) /\ EqB(r[lkey], s[rkey]))
             IN IF ps = <<>>
                THEN go(Tail(rs), IF join = "outer" THEN Append(acc, merge(r, nullRight)) ELSE acc)
                ELSE go(Tail(rs), acc \o [i \in 1..Len(ps) |-> merge(r, ps[i])])
  IN go(envs, <<>>)
=============================================================================
