--------------------------- MODULE MC_EnginePairs ---------------------------
(* The consumer menu of C16 (every consumer of the value order on every same-kind pair of the boundary universe): a large constant set, *)
(* kept out of MC_Engine's start-up by instantiating it only here.                                                                  *)
EXTENDS MC_Engine
PairMenu == PairMenuF(0)
=============================================================================
