------------------------------- MODULE Values -------------------------------
(***************************************************************************)
(* The abstract value universe of sqlgrep (src/model.rs: enum Value) and   *)
(* the one comparison that WHERE, GROUP BY order, MIN/MAX, PERCENTILE,     *)
(* array_unique, DISTINCT and join lookup must share (property C16).       *)
(*                                                                         *)
(* Every abstract value has exactly one concrete counterpart:              *)
(*   Null                  [t |-> "null"]                                  *)
(*   INT                   [t |-> "int", b, i]  b = 0: the integer i       *)
(*                           b = 1: i64::MAX + i (i <= 0)                  *)
(*                           b = -1: i64::MIN + i (i >= 0)                 *)
(*   REAL                  [t |-> "real", c, n, d]  c = "fin": n / d with  *)
(*                           d a power of two (exact in f64), or one of    *)
(*                           "nan", "nnan", "pinf", "ninf", "nzero" (-0.0) *)
(*   BOOLEAN               [t |-> "bool", v]                               *)
(*   TEXT                  [t |-> "text", s]   s = sequence of code points *)
(*   ARRAY                 [t |-> "arr", et, xs]                           *)
(*   TIMESTAMP             [t |-> "ts", f]  f = <<y,mo,d,h,mi,s,us>> (UTC) *)
(*   INTERVAL              [t |-> "iv", ms]                                *)
(*                                                                         *)
(* Ideal  = what C16 demands.   AsBuilt = Ideal + the named deviations in  *)
(* Dev (KNOWN_FINDINGS.txt): the code's derived, variant-first ordering.   *)
(***************************************************************************)
EXTENDS Integers, Sequences, FiniteSets, TLC

CONSTANT Dev
ValueDevNames == {"NumVariantOrder", "FloatNanOrd", "FloatHashBits"}

Null        == [t |-> "null"]
IntV(i)     == [t |-> "int", b |-> 0, i |-> i]
MaxV(i)     == [t |-> "int", b |-> 1, i |-> i]      \* i64::MAX + i
MinV(i)     == [t |-> "int", b |-> -1, i |-> i]     \* i64::MIN + i
RealV(n, d) == [t |-> "real", c |-> "fin", n |-> n, d |-> d]
RealS(c)    == [t |-> "real", c |-> c, n |-> 0, d |-> 1]
NaN  == RealS("nan")
NNaN == RealS("nnan")      \* a NaN with the sign bit set ('-NaN', or what 0.0 / 0.0 gives on x86-64): the same value as NaN, other bits
PInf == RealS("pinf")
NInf == RealS("ninf")
NZero == RealS("nzero")
P63 == RealS("p63")        \* 2^63 exactly (one above i64::MAX)
N63 == RealS("n63")        \* -2^63 exactly (= i64::MIN)
E19 == RealS("e19")        \* 10^19: a finite REAL beyond the 64-bit integers (printing only: it takes no part in the order laws)
NE19 == RealS("ne19")
E300 == RealS("e300")
P53 == RealS("p53")        \* 2^53 exactly: the last point up to which every integer is a REAL
P53b == RealS("p53b")      \* 2^53 + 2 (the next REAL)
I53(i) == [t |-> "int", b |-> 3, i |-> i]     \* the integer 2^53 + i
I31(i) == [t |-> "int", b |-> 4, i |-> i]     \* the integer 2^31 + i: its square fits 64 bits, the square of a sum of two does not
Q25n == RealS("q25n")      \* the REAL right after 0.25 (0.25 + 2^-54): closer to 0.25 than f64::EPSILON
BoolV(v)    == [t |-> "bool", v |-> v]
TextV(s)    == [t |-> "text", s |-> s]
ArrV(et, xs) == [t |-> "arr", et |-> et, xs |-> xs]
TsV(f)      == [t |-> "ts", f |-> f]
IvV(ms)     == [t |-> "iv", ms |-> ms]

IsNull(v) == v.t = "null"
IsNum(v)  == v.t \in {"int", "real"}

Sign(x) == IF x < 0 THEN -1 ELSE IF x > 0 THEN 1 ELSE 0
CmpInt(x, y) == Sign(x - y)

\* lexicographic comparison of two sequences of integers
RECURSIVE CmpIntSeq(_, _)
CmpIntSeq(a, b) ==
  IF a = <<>> /\ b = <<>> THEN 0
  ELSE IF a = <<>> THEN -1
  ELSE IF b = <<>> THEN 1
  ELSE LET c == CmpInt(Head(a), Head(b)) IN IF c # 0 THEN c ELSE CmpIntSeq(Tail(a), Tail(b))

-----------------------------------------------------------------------------
\* Numbers.  Class of a number on the extended real line:
\*   0 = -inf, 1 = near i64::MIN, 2 = ordinary (exact rational), 3 = near i64::MAX, 4 = +inf, 5 = NaN, 23 = near 2^53 (between 2 and 3)
NumClass(v) ==
  IF v.t = "int" THEN (IF v.b = -1 THEN 1 ELSE IF v.b = 1 THEN 3 ELSE IF v.b = 3 THEN 23 ELSE IF v.b = 4 THEN 22 ELSE IF v.b = 2 THEN 22 ELSE 2)
  ELSE CASE v.c = "ninf" -> 0 [] v.c = "pinf" -> 4 [] v.c \in {"nan", "nnan"} -> 5 [] v.c = "p63" -> 3 [] v.c = "n63" -> 1 [] v.c \in {"p53", "p53b"} -> 23 [] OTHER -> 2
ClassPos(c) == IF c = 23 THEN 25 ELSE IF c = 22 THEN 22 ELSE c * 10          \* position of a class on the line: 0, 10, 20, 22 (2^31.. 2^32), 25, 30, 40, 50

\* numerator / denominator of an ordinary number (-0.0 counts as 0)
NumN(v) == IF v.t = "int" THEN v.i ELSE IF v.c = "fin" THEN v.n ELSE IF v.c = "q25n" THEN 1 ELSE 0
NumD(v) == IF v.t = "int" THEN 1 ELSE IF v.c = "fin" THEN v.d ELSE IF v.c = "q25n" THEN 4 ELSE 1
Eps(v) == IF v.t = "real" /\ v.c = "q25n" THEN 1 ELSE 0          \* an infinitesimal above the rational

\* offset of a number near an end of the 64-bit range: INT MAX + i / MIN + i, REAL 2^63 = MAX + 1, REAL -2^63 = MIN + 0
EdgeOff(v) == IF v.t = "int" THEN v.i ELSE IF v.c = "p63" THEN 1 ELSE IF v.c = "p53b" THEN 2 ELSE 0

\* na / da against nb / db (denominators positive) without leaving TLC's 32-bit integers: whole parts first (\div rounds down), then the remainders
CmpFrac(na, da, nb, db) ==
  LET qa == na \div da  qb == nb \div db
  IN IF qa # qb THEN CmpInt(qa, qb) ELSE CmpInt((na % da) * db, (nb % db) * da)

\* numeric comparison by value, NaN equal to itself and above everything (total)
CmpNum(a, b) ==
  LET ca == NumClass(a)  cb == NumClass(b)
  IN IF ca # cb THEN CmpInt(ClassPos(ca), ClassPos(cb))
     ELSE IF ca \in {1, 3, 23} THEN CmpInt(EdgeOff(a), EdgeOff(b))
     ELSE IF ca = 22 THEN (IF a.b # b.b THEN CmpInt(a.b, b.b) * (-1) ELSE CmpInt(a.i, b.i))        \* base 4 (2^31) below base 2 (2^32)
     ELSE IF ca = 2 THEN (LET c == CmpFrac(NumN(a), NumD(a), NumN(b), NumD(b)) IN IF c # 0 THEN c ELSE CmpInt(Eps(a), Eps(b)))
     ELSE 0

TypeRank(v) == CASE v.t = "null" -> 0 [] v.t = "int" -> 1 [] v.t = "real" -> 1 [] v.t = "bool" -> 3
                 [] v.t = "text" -> 4 [] v.t = "arr" -> 5 [] v.t = "ts" -> 6 [] v.t = "iv" -> 7

\* the code's enum variant index (derive(PartialOrd, Ord) orders by it first)
VariantRank(v) == CASE v.t = "null" -> 0 [] v.t = "int" -> 1 [] v.t = "real" -> 2 [] v.t = "bool" -> 3
                    [] v.t = "text" -> 4 [] v.t = "arr" -> 5 [] v.t = "ts" -> 6 [] v.t = "iv" -> 7

ElemTypeRank(et) == CASE et = "int" -> 0 [] et = "real" -> 1 [] et = "bool" -> 2 [] et = "text" -> 3
                      [] et = "ts" -> 5 [] et = "iv" -> 6 [] OTHER -> 4

\* ---------------------------------------------------------------- Ideal order (C16)
RECURSIVE Cmp(_, _), CmpXs(_, _)
CmpXs(a, b) ==   \* lexicographic, element-wise by Cmp
  IF a = <<>> /\ b = <<>> THEN 0
  ELSE IF a = <<>> THEN -1
  ELSE IF b = <<>> THEN 1
  ELSE LET c == Cmp(Head(a), Head(b)) IN IF c # 0 THEN c ELSE CmpXs(Tail(a), Tail(b))
Cmp(a, b) ==
  IF TypeRank(a) # TypeRank(b) THEN CmpInt(TypeRank(a), TypeRank(b))
  ELSE CASE a.t = "null" -> 0
         [] IsNum(a)     -> CmpNum(a, b)
         [] a.t = "bool" -> CmpInt(IF a.v THEN 1 ELSE 0, IF b.v THEN 1 ELSE 0)
         [] a.t = "text" -> CmpIntSeq(a.s, b.s)
         [] a.t = "arr"  -> IF a.et # b.et THEN CmpInt(ElemTypeRank(a.et), ElemTypeRank(b.et))
                            ELSE CmpXs(a.xs, b.xs)
         [] a.t = "ts"   -> CmpIntSeq(a.f, b.f)
         [] a.t = "iv"   -> CmpInt(a.ms, b.ms)

Eq(a, b) == Cmp(a, b) = 0

\* canonical representative of the equality class (what a correct hash may depend on)
RECURSIVE Canon(_)
Canon(v) ==
  CASE v.t = "real" ->
         IF v.c = "nzero" THEN IntV(0)
         ELSE IF v.c = "nnan" THEN NaN
         ELSE IF v.c = "n63" THEN MinV(0)
         ELSE IF v.c = "p53" THEN I53(0) ELSE IF v.c = "p53b" THEN I53(2)
         ELSE IF v.c = "fin" /\ v.n % v.d = 0 THEN IntV(v.n \div v.d)
         ELSE v
    [] v.t = "arr" -> ArrV(v.et, [i \in 1..Len(v.xs) |-> Canon(v.xs[i])])
    [] OTHER -> v

\* ---------------------------------------------------------------- As-built order
\* Float::cmp of the pinned code: `<`, `>` else Equal -- NaN "equals" everything (FloatNanOrd).
CmpFloatB(a, b) ==
  IF "FloatNanOrd" \in Dev /\ (a.c \in {"nan", "nnan"} \/ b.c \in {"nan", "nnan"}) THEN 0 ELSE CmpNum(a, b)

RECURSIVE CmpB(_, _), CmpXsB(_, _)
CmpXsB(a, b) ==
  IF a = <<>> /\ b = <<>> THEN 0
  ELSE IF a = <<>> THEN -1
  ELSE IF b = <<>> THEN 1
  ELSE LET c == CmpB(Head(a), Head(b)) IN IF c # 0 THEN c ELSE CmpXsB(Tail(a), Tail(b))
CmpB(a, b) ==
  IF "NumVariantOrder" \in Dev
  THEN \* derive(Ord): variant index first, then payload
       IF VariantRank(a) # VariantRank(b) THEN CmpInt(VariantRank(a), VariantRank(b))
       ELSE CASE a.t = "null" -> 0
              [] a.t = "int"  -> CmpNum(a, b)
              [] a.t = "real" -> CmpFloatB(a, b)
              [] a.t = "bool" -> CmpInt(IF a.v THEN 1 ELSE 0, IF b.v THEN 1 ELSE 0)
              [] a.t = "text" -> CmpIntSeq(a.s, b.s)
              [] a.t = "arr"  -> IF a.et # b.et THEN CmpInt(ElemTypeRank(a.et), ElemTypeRank(b.et))
                                 ELSE CmpXsB(a.xs, b.xs)
              [] a.t = "ts"   -> CmpIntSeq(a.f, b.f)
              [] a.t = "iv"   -> CmpInt(a.ms, b.ms)
  ELSE IF a.t = "real" /\ b.t = "real" THEN CmpFloatB(a, b)
  ELSE IF a.t = "arr" /\ b.t = "arr" /\ a.et = b.et THEN CmpXsB(a.xs, b.xs)
  ELSE Cmp(a, b)

\* derived PartialEq: same variant and equal payload; f64 == for REAL (NaN # NaN, -0.0 = 0.0)
RECURSIVE EqB(_, _)
EqB(a, b) ==
  IF "NumVariantOrder" \in Dev /\ VariantRank(a) # VariantRank(b) THEN FALSE
  ELSE IF a.t = "real" /\ b.t = "real" /\ "FloatNanOrd" \in Dev
       THEN (a.c \notin {"nan", "nnan"} /\ b.c \notin {"nan", "nnan"} /\ CmpNum(a, b) = 0)
  ELSE IF a.t = "arr" /\ b.t = "arr"
       THEN a.et = b.et /\ Len(a.xs) = Len(b.xs) /\ \A i \in 1..Len(a.xs) : EqB(a.xs[i], b.xs[i])
  ELSE IF "NumVariantOrder" \in Dev THEN CmpB(a, b) = 0
  ELSE Cmp(a, b) = 0

\* what the code's Hash depends on
RECURSIVE HashKeyB(_)
HashKeyB(v) ==
  CASE v.t = "real" ->
         IF "FloatHashBits" \in Dev THEN v                      \* raw bits: -0.0 and 0.0 differ
         ELSE IF "NumVariantOrder" \in Dev
              THEN (IF v.c = "nzero" THEN RealV(0, 1) ELSE v)   \* per-variant hash, zeros normalised
              ELSE Canon(v)
    [] v.t = "arr" -> ArrV(v.et, [i \in 1..Len(v.xs) |-> HashKeyB(v.xs[i])])
    [] OTHER -> v

\* The laws of C16 (trichotomy, transitivity, equality = order, equal => same hash, numbers by value) are
\* stated per triple of values in MC_Values.tla and checked by TLC over the boundary universe defined there.
=============================================================================
