--------------------------- MODULE Trace_Extract ---------------------------
(***************************************************************************)
(* impl -> spec, semantic, for Extract.tla (C01, C02, C06 admission).      *)
(*                                                                         *)
(* Each event is one (definition, line) pair the real code extracted a row *)
(* from.  The driver (harness/src/extracttrace.rs) draws the definition    *)
(* from an open-ended space -- realistic patterns in capture and split     *)
(* mode, inline patterns, JSON paths, every type and modifier -- and the   *)
(* line from log-like tokens (carriage returns, tabs, Unicode blanks,      *)
(* numeric extremes) or from a randomised JSON writer (escapes in keys and *)
(* strings, insignificant blanks, alternative number spellings).           *)
(*                                                                         *)
(* The event records what the trusted base says about the line -- per      *)
(* pattern the groups the regex crate reports (`pats`), and the line as    *)
(* serde_json's document (`doc`) -- and the row the code produced.  This   *)
(* module computes the row from those answers with Extract.tla's rules and *)
(* demands equality.  An event whose numbers TLC cannot read (`open`) is   *)
(* only required to have ended without a crash or error.                   *)
(***************************************************************************)
EXTENDS Extract, Json, IOUtils
Rec == ndJsonDeserialize(IOEnv.TRACE)
VARIABLE l
TraceInit == TLCSet(1, 1) /\ TLCSet(2, 0) /\ TLCSet(3, 0) /\ l = 1
Expected(e) == ExtractRow(e.cols, e.line)
EventOK(e) ==
  IF e.open THEN e.out.st \in {"row", "norow"}
  ELSE LET r == Expected(e)
       IN \/ r[1] = "unk" /\ e.out.st \in {"row", "norow"}            \* not predicted: only totality
          \/ r[1] = "norow" /\ e.out.st = "norow"
          \/ r[1] = "row" /\ e.out.st = "row" /\ e.out.row = r[2]
Predicted(e) == ~e.open /\ Expected(e)[1] # "unk"
Extracted == /\ l <= Len(Rec) /\ Rec[l].ev = "extract" /\ EventOK(Rec[l]) /\ l' = l + 1
             /\ TLCSet(2, TLCGet(2) + (IF Predicted(Rec[l]) THEN 1 ELSE 0))                                   \* events whose row the model predicted
             /\ TLCSet(3, TLCGet(3) + (IF Predicted(Rec[l]) /\ Expected(Rec[l])[1] = "row" THEN 1 ELSE 0))    \* ... and predicted to be a row
\* C06 as a law between two batch runs of the real code over one definition: all the recorded lines / only the lines that gave a row (as the extraction events
\* above say, each of them judged by the model): every kind of statement prints the same
NoiseLaw == /\ l <= Len(Rec) /\ Rec[l].ev = "noiselaw" /\ Rec[l].all = Rec[l].rows /\ Rec[l].all.st \in {"ok", "err"} /\ l' = l + 1
            /\ TLCSet(2, TLCGet(2) + 1)
TraceNext == Extracted \/ NoiseLaw
TraceSpec == TraceInit /\ [][TraceNext]_l
TraceUnfinished == l <= Len(Rec) \/ (PrintT(<<"TRACE-STATS", TLCGet(2), TLCGet(3)>>) /\ FALSE)
TrackProgress == TLCSet(1, IF TLCGet(1) < l THEN l ELSE TLCGet(1))
TraceRejectedAt == PrintT(<<"TRACE-REJECTED", "first unmatched event", TLCGet(1),
                            IF TLCGet(1) <= Len(Rec) THEN <<Rec[TLCGet(1)], "model says", IF Rec[TLCGet(1)].ev = "extract" THEN Expected(Rec[TLCGet(1)]) ELSE <<"the two runs print the same">>>> ELSE <<"none">>>>)
=============================================================================
