---------------------------- MODULE Trace_Follow ----------------------------
(***************************************************************************)
(* impl -> spec: validates a trace recorded while a real writer thread     *)
(* raced the real FollowFileIterator (harness: `vh trace follow`).         *)
(* Logged: start (content, start offset, head, capacity, the writer's      *)
(* chunking), every delivered line with an upper bound on the bytes        *)
(* written when it was observed, and how the run ended.  Not logged: the   *)
(* reader's Fill / Scan / Retry steps and the position of the writer's     *)
(* appends between them -- TLC finds them (silent steps of Follow's own    *)
(* actions).  The trace is accepted iff some interleaving of Follow's      *)
(* actions explains every logged event in order.                           *)
(***************************************************************************)
EXTENDS Follow, Json, IOUtils

Rec == ndJsonDeserialize(IOEnv.TRACE)

VARIABLES l,        \* next trace line
          chunks,   \* the writer's chunk sizes for this run
          ci        \* chunks already appended

tvars == <<vars, l, chunks, ci>>
tview == <<view, l, ci>>

IsEvent(e) == l <= Len(Rec) /\ Rec[l].ev = e /\ l' = l + 1

TraceInit ==
  /\ TLCSet(1, 1)
  /\ l = 1 /\ chunks = <<>> /\ ci = 0
  /\ content = <<>> /\ pre = 0 /\ head = TRUE /\ cap = 1 /\ written = 0 /\ pos = 0
  /\ buf = <<>> /\ cur = <<>> /\ line = <<>> /\ delivered = <<>> /\ pc = "stopped" /\ idle = 0 /\ running = TRUE /\ hist = <<>>

TStart ==
  /\ IsEvent("start")
  /\ pc \in {"stopped", "retry"}
  /\ content' = Rec[l].content /\ pre' = Rec[l].pre /\ head' = Rec[l].head /\ cap' = Rec[l].cap
  /\ chunks' = Rec[l].chunks /\ ci' = 0
  /\ written' = Rec[l].pre
  /\ pos' = IF Rec[l].head THEN 0 ELSE Rec[l].pre
  /\ buf' = <<>> /\ cur' = <<>> /\ line' = <<>> /\ delivered' = <<>> /\ pc' = "fill" /\ idle' = 0 /\ running' = TRUE /\ hist' = <<>>

TDeliver ==
  /\ IsEvent("deliver")
  /\ Scan
  /\ Len(delivered') = Len(delivered) + 1
  /\ delivered'[Len(delivered')] = Rec[l].line
  /\ written <= Rec[l].upper            \* the reader cannot have seen bytes the writer had not announced
  /\ UNCHANGED <<chunks, ci>>

TEnd ==
  /\ IsEvent("end")
  /\ Rec[l].how = "quiescent"           \* "failed" / "panic" have no counterpart in the Ideal spec
  /\ Quiescent /\ ci = Len(chunks)
  /\ Len(delivered) = Rec[l].n
  /\ UNCHANGED <<vars, chunks, ci>>

\* silent steps: the spec's own actions, unlogged
SilentReader ==
  /\ (Fill \/ (Scan /\ delivered' = delivered) \/ Retry)
  /\ UNCHANGED <<l, chunks, ci>>

SilentWriter ==
  /\ ci < Len(chunks)
  /\ WAppend(chunks[ci + 1])
  /\ ci' = ci + 1
  /\ UNCHANGED <<l, chunks>>

TraceNext == TStart \/ TDeliver \/ TEnd \/ SilentReader \/ SilentWriter
TraceSpec == TraceInit /\ [][TraceNext]_tvars

\* every state reached while validating satisfies the safety properties of Follow
TraceSafety == pc # "stopped" => (DeliveredPrefix /\ Conservation /\ QuiescentComplete)

\* Acceptance: TLC "violates" this exactly when some path consumed the whole trace.
TraceUnfinished == l <= Len(Rec)

\* For diagnosis on rejection: remember the longest matched prefix (needs -workers 1).
TrackProgress == TLCSet(1, IF TLCGet(1) < l THEN l ELSE TLCGet(1))
TraceRejectedAt ==
  PrintT(<<"TRACE-REJECTED", "first unmatched event", TLCGet(1), IF TLCGet(1) <= Len(Rec) THEN Rec[TLCGet(1)] ELSE "none">>)
=============================================================================
