------------------------------ MODULE MC_Engine ------------------------------
(***************************************************************************)
(* Bounded configurations of Engine.tla: the menus the environment chooses *)
(* from, and the REPLAY emission for the harness.                          *)
(***************************************************************************)
EXTENDS Engine, Universe, Json, Randomization

A == TextV(<<97>>)
B == TextV(<<98>>)

P(e, as) == [e |-> e, as |-> as]
Sel(proj, where, distinct, limit, join) ==
  [kind |-> "select", star |-> FALSE, proj |-> proj, where |-> where, distinct |-> distinct, limit |-> limit, join |-> join]
Star(where, distinct, limit, join) ==
  [kind |-> "select", star |-> TRUE, proj |-> <<>>, where |-> where, distinct |-> distinct, limit |-> limit, join |-> join]
It(a, as) == [a |-> a, as |-> as, wrap |-> NoE]
ItE(a, e, as) == [a |-> a, e |-> e, as |-> as, wrap |-> NoE]
ItC(a, col, as) == [a |-> a, col |-> col, as |-> as, wrap |-> NoE]
Agg(items, group, where, having, distinct, limit, join) ==
  [kind |-> "agg", items |-> items, group |-> group, where |-> where, having |-> having, distinct |-> distinct, limit |-> limit, join |-> join]
HAgg(it, f, c) == [h |-> "agg", it |-> it, f |-> f, c |-> c]

K == Col("k")
V == Col("v")
KeyK == ItE("key", K, "k")
CountStar == It("count_star", "n")
SumV == ItE("sum", V, "s")
MinOfV == ItE("min", V, "lo")
MaxOfV == ItE("max", V, "hi")
MinK == ItE("min", K, "klo")
MaxK == ItE("max", K, "khi")
CountV == ItC("count", "v", "c")

\* ---- statement menus ------------------------------------------------------
W == Col("w")
One == Lit(IntV(1))
Zero == Lit(IntV(0))
VPos == CmpE(">", V, Zero)
PlainKV == Sel(<<P(K, ""), P(V, "")>>, NoE, FALSE, NoLimit, "none")

\* C03: projection, WHERE, naming, `*`, input
SelectMenu == {
  PlainKV,
  Sel(<<P(K, ""), P(Arith("+", V, One), "")>>, VPos, FALSE, NoLimit, "none"),
  Sel(<<P(V, "x")>>, BoolE("or", IsE(FALSE, K, Lit(Null)), CmpE("=", K, Lit(A))), FALSE, NoLimit, "none"),
  Sel(<<P(Col("input"), "")>>, NoE, FALSE, NoLimit, "none"),
  Sel(<<P(Col("input"), ""), P(K, "key")>>, IsE(TRUE, V, Lit(Null)), FALSE, NoLimit, "none"),
  Star(NoE, FALSE, NoLimit, "none"),
  Star(BoolE("and", VPos, NotE(CmpE("=", K, Lit(B)))), FALSE, NoLimit, "none"),
  Sel(<<P(CaseE(<<<<VPos, K>>>>, Lit(TextV(<<122>>))), ""), P(Col("t.v"), "")>>, NoE, FALSE, NoLimit, "none"),
  Sel(<<P(Arith("/", One, V), "q")>>, NoE, FALSE, NoLimit, "none"),                 \* division by zero on the row with v = 0
  Sel(<<P(Col("nosuch"), "")>>, NoE, FALSE, NoLimit, "none"),                        \* unknown column
  Sel(<<P(InE(FALSE, V, <<One, Lit(IntV(2))>>), "m"), P(InE(TRUE, K, <<Lit(A), Lit(B)>>), "")>>, NoE, FALSE, NoLimit, "none")
}

\* C03 / C16: an INT column against REAL literals at the points where INT and REAL part company (2^53, 2^53 + 2, 2^63, -2^63) and at ordinary values,
\* under every comparison operator, with the REAL on either side, through IN and in WHERE (over LinesBig: 2^53 + 1, i64::MAX, i64::MIN ...)
EdgeReals == {P53, P53b, P63, N63, RealV(1, 1), RealV(3, 2)}
NumCmpMenu == {Sel(<<P(CmpE(op, V, Lit(x)), "l"), P(CmpE(op, Lit(x), V), "r")>>, NoE, FALSE, NoLimit, "none") : op \in {"=", "!=", "<", "<=", ">", ">="}, x \in EdgeReals}
              \cup {Sel(<<P(V, "")>>, CmpE(op, V, Lit(x)), FALSE, NoLimit, "none") : op \in {"=", ">", "<="}, x \in {P53, P53b, P63}}
              \cup {Sel(<<P(InE(ng, V, <<Lit(P53), Lit(RealV(1, 1))>>), "m")>>, NoE, FALSE, NoLimit, "none") : ng \in BOOLEAN}

\* C03: functions, casts, CASE, EXTRACT, subscripts and nested expressions evaluated on each row
Two == Lit(IntV(2))
ArrVV == Call("array", <<V, Two>>)
TsLit == Lit(TsV(<<2021, 3, 4, 5, 6, 7, 0>>))
FunctionMenu == {
  Sel(<<P(Call("length", <<K>>), "len"), P(Call("upper", <<K>>), "up"), P(Call("lower", <<Lit(TextV(<<65, 201>>))>>), "lo")>>, IsE(TRUE, K, Lit(Null)), FALSE, NoLimit, "none"),
  Sel(<<P(Call("abs", <<V>>), ""), P(Call("least", <<V, One>>), "l"), P(Call("greatest", <<V, One>>), "g")>>, NoE, FALSE, NoLimit, "none"),
  Sel(<<P(ArrVV, "a"), P(Call("array_length", <<ArrVV>>), "n"), P(Idx(ArrVV, V), "e"), P(Idx(ArrVV, Arith("+", V, One)), "e2")>>, IsE(TRUE, V, Lit(Null)), FALSE, NoLimit, "none"),
  Sel(<<P(Call("array_cat", <<ArrVV, Call("array", <<One>>)>>), "c"), P(Call("array_append", <<ArrVV, V>>), "ap"), P(Call("array_prepend", <<V, ArrVV>>), "pp"),
        P(Call("array_unique", <<Call("array", <<V, One, V>>)>>), "u")>>, IsE(TRUE, V, Lit(Null)), FALSE, NoLimit, "none"),
  Sel(<<P(Cast(V, "text"), "t"), P(Cast(Cast(V, "text"), "int"), "i"), P(Cast(Lit(TextV(<<49, 46, 53>>)), "real"), "r")>>, NoE, FALSE, NoLimit, "none"),
  Sel(<<P(Cast(K, "int"), "ki")>>, NoE, FALSE, NoLimit, "none"),                                                  \* 'a'::int is an error
  Sel(<<P(CaseE(<<<<CmpE("=", K, Lit(A)), Lit(IntV(10))>>, <<CmpE(">", V, One), Lit(IntV(20))>>>>, Lit(Null)), "c")>>, NoE, FALSE, NoLimit, "none"),
  Sel(<<P(Call("extract_year", <<TsLit>>), "y"), P(Call("extract_minute", <<TsLit>>), "mi"), P(CmpE("<", TsLit, Lit(TsV(<<2021, 3, 4, 5, 6, 8, 0>>))), "before")>>, NoE, FALSE, NoLimit, "none"),
  Sel(<<P(Arith("-", Arith("*", Arith("+", V, One), Two), Arith("/", V, One)), "x")>>, BoolE("and", NotE(IsE(FALSE, V, Lit(Null))), CmpE("<=", V, Two)), FALSE, NoLimit, "none"),
  Sel(<<P(CmpE("<", K, Lit(B)), "lt"), P(CmpE(">=", K, Lit(TextV(<<97, 97>>))), "ge"), P(NotE(CmpE("=", K, Lit(A))), "n"), P(BoolE("or", CmpE("=", V, One), IsE(FALSE, K, Lit(Null))), "o")>>, NoE, FALSE, NoLimit, "none"),
  Sel(<<P(NegE(V), "neg"), P(Arith("+", V, Lit(Null)), "vn"), P(IsE(TRUE, Arith("*", V, Lit(Null)), Lit(Null)), "isn")>>, NoE, FALSE, NoLimit, "none"),
  Sel(<<P(V, "")>>, InE(FALSE, K, <<Lit(A), Lit(Null)>>), FALSE, NoLimit, "none"),
  Sel(<<P(V, "")>>, InE(TRUE, V, <<One, Two>>), FALSE, NoLimit, "none"),
  \* a WHEN condition that has no value on some row (100 / 0) is an error, not a condition that is false
  Sel(<<P(CaseE(<<<<CmpE(">", Arith("/", Lit(IntV(100)), V), Lit(IntV(10))), Lit(TextV(<<115>>))>>>>, Lit(TextV(<<122>>))), "size")>>, NoE, FALSE, NoLimit, "none"),
  Sel(<<P(K, "")>>, CaseE(<<<<CmpE("=", Cast(K, "int"), One), Lit(BoolV(TRUE))>>>>, Lit(BoolV(FALSE))), FALSE, NoLimit, "none"),
  Sel(<<P(Arith("+", K, One), "bad")>>, NoE, FALSE, NoLimit, "none"),                                               \* TEXT + INT: type mismatch
  Sel(<<P(Call("length", <<V>>), "bad")>>, CmpE("=", K, Lit(B)), FALSE, NoLimit, "none")                            \* length(INT): error only on rows that pass WHERE
}

\* C08
NegZeroOrZero == CaseE(<<<<CmpE("=", V, One), Lit(RealV(0, 1))>>>>, Lit(NZero))
NaNOrNNaN == CaseE(<<<<CmpE("=", V, One), Lit(NaN)>>>>, Lit(NNaN))        \* two NaNs of different bit patterns are one value
DistinctMenu == {
  Sel(<<P(NaNOrNNaN, "f"), P(K, "")>>, NoE, TRUE, NoLimit, "none"),
  Sel(<<P(NaNOrNNaN, "f")>>, NoE, TRUE, NoLimit, "none"),
  Sel(<<P(K, "")>>, NoE, TRUE, NoLimit, "none"),
  Sel(<<P(K, ""), P(V, "")>>, NoE, TRUE, NoLimit, "none"),
  Sel(<<P(V, ""), P(Lit(Null), "z")>>, NoE, TRUE, NoLimit, "none"),
  Sel(<<P(NegZeroOrZero, "f")>>, NoE, TRUE, NoLimit, "none"),
  Star(VPos, TRUE, NoLimit, "none"),
  Agg(<<CountStar>>, <<K>>, NoE, NoH, TRUE, NoLimit, "none"),
  Agg(<<CountStar, ItE("max", V, "hi")>>, <<K>>, NoE, HAgg(CountStar, ">=", IntV(1)), TRUE, NoLimit, "none"),
  Agg(<<ItE("min", V, "lo")>>, <<K>>, NoE, NoH, TRUE, NoLimit, "none"),
  Agg(<<CountStar>>, <<K>>, NoE, HAgg(MaxOfV, ">", IntV(1)), TRUE, NoLimit, "none"),
  Agg(<<CountStar, ItE("min", V, "lo")>>, <<K>>, NoE, [h |-> "keynull", e |-> K, neg |-> TRUE], TRUE, NoLimit, "none"),
  \* three columns whose outer values are exchanged between rows: (a, v, b) and (b, v, a) are different tuples
  Sel(<<P(K, ""), P(V, ""), P(CaseE(<<<<CmpE("=", K, Lit(A)), Lit(B)>>>>, Lit(A)), "o")>>, NoE, TRUE, NoLimit, "none"),
  Sel(<<P(V, ""), P(K, ""), P(V, "v2"), P(K, "k2")>>, NoE, TRUE, NoLimit, "none"),
  \* groups keyed by an expression that is not shown (alone, and next to a plain key that is shown): groups with equal shown rows
  Agg(<<CountStar>>, <<Arith("+", V, Zero)>>, NoE, NoH, TRUE, NoLimit, "none"),
  Agg(<<KeyK, CountStar>>, <<K, Arith("*", V, One)>>, NoE, NoH, TRUE, NoLimit, "none"),
  Agg(<<CountStar>>, <<CaseE(<<<<CmpE("=", K, Lit(A)), Lit(B)>>>>, Lit(A))>>, NoE, NoH, TRUE, NoLimit, "none"),
  \* an expression over an aggregate that is not injective: groups whose aggregates differ (1, 2 and 3 rows; sums 1, 2, 3) but whose shown cells are equal
  Agg(<<[CountStar EXCEPT !.wrap = Arith("/", Col("$value"), Two)]>>, <<K>>, NoE, NoH, TRUE, NoLimit, "none"),
  Agg(<<[SumV EXCEPT !.wrap = CmpE(">", Col("$value"), Zero)], [CountStar EXCEPT !.wrap = Arith("*", Col("$value"), Zero)]>>, <<K>>, NoE, HAgg(CountStar, ">=", IntV(1)), TRUE, NoLimit, "none"),
  Agg(<<[MaxOfV EXCEPT !.wrap = Call("abs", <<Arith("-", Col("$value"), Two)>>)]>>, <<K, V>>, NoE, NoH, TRUE, NoLimit, "none"),
  \* DISTINCT on a projection of only some of the group keys: groups that differ in the other key show equal rows
  Agg(<<ItE("key", V, "v")>>, <<K, V>>, NoE, HAgg(CountStar, ">=", IntV(1)), TRUE, NoLimit, "none"),
  Agg(<<KeyK>>, <<K, V>>, NoE, HAgg(CountStar, ">=", IntV(1)), TRUE, NoLimit, "none")
}

\* PERCENTILE(e, p) is the element of rank floor(p * n) of the sorted group for every p the grammar accepts -- also fractions of three decimals
\* (0.666 of three values: rank 1, not 2) and eighths over groups of more than 24 values (p is not a whole number of percents)
PctIt(pn, pd) == [a |-> "percentile", e |-> V, pn |-> pn, pd |-> pd, as |-> "p", wrap |-> NoE]
PctFine == {<<666, 1000>>, <<334, 1000>>, <<1, 8>>, <<7, 8>>, <<5, 8>>, <<999, 1000>>, <<1, 1000>>, <<995, 1000>>}
PercentileFineMenu == {Agg(<<PctIt(f[1], f[2]), CountStar>>, <<>>, NoE, NoH, FALSE, NoLimit, "none") : f \in PctFine}
                      \cup {Agg(<<KeyK, PctIt(f[1], f[2])>>, <<K>>, NoE, NoH, FALSE, NoLimit, "none") : f \in {<<666, 1000>>, <<334, 1000>>}}

\* C16 over whole rows: DISTINCT and GROUP BY compare tuples column by column -- rows whose outer values are exchanged, rows that hold the
\* same values in another column order, rows that differ in the middle column only
SwapK == CaseE(<<<<CmpE("=", K, Lit(A)), Lit(B)>>>>, Lit(A))
TupleMenu == {
  Sel(<<P(K, ""), P(V, ""), P(SwapK, "o")>>, NoE, TRUE, NoLimit, "none"),
  Sel(<<P(V, ""), P(K, ""), P(V, "v2"), P(K, "k2")>>, NoE, TRUE, NoLimit, "none"),
  Sel(<<P(K, ""), P(SwapK, "o")>>, NoE, TRUE, NoLimit, "none"),
  Sel(<<P(SwapK, "o"), P(V, ""), P(K, ""), P(V, "v2")>>, NoE, TRUE, NoLimit, "none"),
  Agg(<<CountStar>>, <<K, V, SwapK>>, NoE, NoH, FALSE, NoLimit, "none"),
  Agg(<<ItE("key", K, "k"), ItE("key", SwapK, "o"), CountStar>>, <<K, V, SwapK>>, NoE, NoH, TRUE, NoLimit, "none")
}

\* C07
LimitMenu == { [s EXCEPT !.limit = n] : s \in {PlainKV,
                                               Sel(<<P(K, "")>>, NoE, TRUE, NoLimit, "none"),
                                               Sel(<<P(Lit(Null), "z")>>, NoE, FALSE, NoLimit, "none"),
                                               Sel(<<P(K, ""), P(V, "")>>, VPos, FALSE, NoLimit, "none"),
                                               Agg(<<KeyK, CountStar>>, <<K>>, NoE, NoH, FALSE, NoLimit, "none"),
                                               Agg(<<CountStar>>, <<>>, NoE, NoH, FALSE, NoLimit, "none"),
                                               Agg(<<KeyK, CountStar>>, <<K>>, NoE, HAgg(CountStar, ">=", IntV(2)), FALSE, NoLimit, "none"),
                                               Agg(<<KeyK, SumV>>, <<K>>, NoE, [h |-> "keynull", e |-> K, neg |-> TRUE], FALSE, NoLimit, "none"),
                                               Agg(<<CountStar>>, <<K>>, NoE, NoH, TRUE, NoLimit, "none"),
                                               Agg(<<KeyK, [a |-> "percentile", e |-> V, pn |-> 1, pd |-> 2, as |-> "p50", wrap |-> NoE]>>, <<K>>, NoE, NoH, FALSE, NoLimit, "none"),
                                               Agg(<<KeyK, CountV>>, <<K>>, NoE, NoH, FALSE, NoLimit, "none")}, n \in 0..3 }
             \* a LIMIT beyond every size (2000000001 / 2000000002 are rendered as i64::MAX / 2^62): all rows, nothing is sized by the number
             \cup { [s EXCEPT !.limit = n] : s \in {PlainKV, Sel(<<P(K, "")>>, NoE, TRUE, NoLimit, "none"), Agg(<<KeyK, CountStar>>, <<K>>, NoE, NoH, FALSE, NoLimit, "none"),
                                                     Agg(<<CountStar>>, <<K>>, NoE, NoH, TRUE, NoLimit, "none")}, n \in {2000000001, 2000000002} }
\* an aggregate's LIMIT counts the rows that DISTINCT / HAVING let through: groups whose rows coincide must not use up the limit
LimitDistinctMenu == { [s EXCEPT !.limit = n] : s \in {Agg(<<CountStar>>, <<K>>, NoE, NoH, TRUE, NoLimit, "none"),
                                                        Agg(<<CountStar, MaxOfV>>, <<K>>, NoE, HAgg(CountStar, ">=", IntV(1)), TRUE, NoLimit, "none"),
                                                        Agg(<<ItE("key", V, "v")>>, <<K, V>>, NoE, HAgg(CountStar, ">=", IntV(1)), TRUE, NoLimit, "none")}, n \in 1..2 }
LimitJoinMenu == { [s EXCEPT !.limit = n] : s \in {Star(NoE, FALSE, NoLimit, "inner"), Star(NoE, FALSE, NoLimit, "outer"),
                                                   Sel(<<P(W, "")>>, NoE, TRUE, NoLimit, "inner"),
                                                   Sel(<<P(K, ""), P(W, "")>>, CmpE(">", W, Zero), FALSE, NoLimit, "inner"),
                                                   Sel(<<P(K, ""), P(W, "")>>, CmpE(">", W, Zero), FALSE, NoLimit, "outer")}, n \in 0..4 }

\* a LIMIT beyond every size: all rows, and nothing may be sized by the number (DISTINCT memories, result tables)
HugeLimitMenu == { [s EXCEPT !.limit = n] : s \in {PlainKV, Sel(<<P(K, "")>>, NoE, TRUE, NoLimit, "none"), Sel(<<P(V, ""), P(K, "")>>, VPos, TRUE, NoLimit, "none"),
                                                    Agg(<<KeyK, CountStar>>, <<K>>, NoE, NoH, FALSE, NoLimit, "none"), Agg(<<CountStar>>, <<K>>, NoE, NoH, TRUE, NoLimit, "none"),
                                                    Agg(<<KeyK, SumV>>, <<K>>, NoE, HAgg(CountStar, ">=", IntV(1)), FALSE, NoLimit, "none")}, n \in {2000000001, 2000000002} }

\* C04: every aggregate, alone, in both positions relative to the key, in pairs, without GROUP BY, with WHERE / HAVING / wrapper
Comma == <<44>>
\* STRING_AGG over a text that is NULL on some rows of a group (NULL first, then text)
SaCase == [a |-> "string_agg", e |-> CaseE(<<<<CmpE(">", V, Lit(IntV(0))), Lit(TextV(<<112>>))>>>>, Lit(Null)), delim |-> <<44>>, as |-> "sc", wrap |-> NoE]
AllAggs == {
  CountStar, CountV, ItC("count_distinct", "v", "d"), SumV, MinOfV, MaxOfV, ItE("avg", V, "a"), MinK, MaxK,
  ItE("bool_and", VPos, "ba"), ItE("bool_or", CmpE("=", K, Lit(A)), "bo"),
  [a |-> "string_agg", e |-> K, delim |-> Comma, as |-> "sa", wrap |-> NoE],
  ItE("array_agg", V, "aa"),
  [a |-> "percentile", e |-> V, pn |-> 1, pd |-> 2, as |-> "p50", wrap |-> NoE],
  [a |-> "percentile", e |-> V, pn |-> 1, pd |-> 1, as |-> "p100", wrap |-> NoE],
  [a |-> "percentile", e |-> V, pn |-> 0, pd |-> 1, as |-> "p0", wrap |-> NoE],
  ItE("variance", V, "var"), ItE("stddev", V, "sd"),
  SaCase
}
SomeAggs == {CountStar, CountV, SumV, MinK, [a |-> "string_agg", e |-> K, delim |-> Comma, as |-> "sa", wrap |-> NoE],
             [a |-> "percentile", e |-> V, pn |-> 1, pd |-> 2, as |-> "p50", wrap |-> NoE], ItE("bool_and", VPos, "ba"), SaCase}
ArrKey == CaseE(<<<<CmpE(">", V, One), Call("array", <<K, Lit(A)>>)>>>>, Call("array", <<K>>))
AggMenu ==
  {Agg(<<KeyK, x>>, <<K>>, NoE, NoH, FALSE, NoLimit, "none") : x \in AllAggs}
  \cup {Agg(<<x, KeyK>>, <<K>>, NoE, NoH, FALSE, NoLimit, "none") : x \in SomeAggs}
  \cup {Agg(<<x>>, <<>>, NoE, NoH, FALSE, NoLimit, "none") : x \in AllAggs}
  \cup {Agg(<<x, KeyK, y>>, <<K>>, NoE, NoH, FALSE, NoLimit, "none") : x \in {CountV, MinK}, y \in SomeAggs \ {CountV, MinK}}
  \cup {Agg(<<KeyK, SumV>>, <<K>>, VPos, HAgg(CountStar, ">", IntV(1)), FALSE, NoLimit, "none"),
        Agg(<<KeyK, CountStar>>, <<K>>, NoE, HAgg(CountV, "=", IntV(0)), FALSE, NoLimit, "none"),
        Agg(<<KeyK, CountStar>>, <<K>>, NoE, [h |-> "and", l |-> [h |-> "keynull", e |-> K, neg |-> TRUE], r |-> HAgg(SumV, ">=", IntV(2))], FALSE, NoLimit, "none"),
        Agg(<<KeyK, MaxOfV>>, <<K>>, NoE, [h |-> "or", l |-> [h |-> "key", e |-> K, f |-> "=", c |-> A], r |-> HAgg(MinOfV, "<", IntV(1))], FALSE, NoLimit, "none"),
        Agg(<<KeyK, [SumV EXCEPT !.wrap = Arith("*", Col("$value"), Lit(IntV(2)))]>>, <<K>>, NoE, NoH, FALSE, NoLimit, "none"),
        Agg(<<[CountStar EXCEPT !.wrap = Arith("+", Col("$value"), One)], ItE("key", V, "v")>>, <<V>>, NoE, NoH, FALSE, NoLimit, "none"),
        Agg(<<KeyK, CountStar, [CountV EXCEPT !.wrap = Arith("+", Col("$value"), One)],
              [ItC("count_distinct", "v", "d") EXCEPT !.wrap = Arith("-", Lit(IntV(100)), Col("$value"))], [MinOfV EXCEPT !.wrap = Arith("*", Col("$value"), Lit(IntV(2)))]>>, <<K>>, NoE, NoH, FALSE, NoLimit, "none"),
        Agg(<<KeyK, [SumV EXCEPT !.wrap = Arith("+", One, Arith("*", Col("$value"), Lit(IntV(2))))], [MaxOfV EXCEPT !.wrap = Arith("*", Lit(IntV(2)), Arith("+", Col("$value"), One))],
              [CountStar EXCEPT !.wrap = Arith("-", Lit(IntV(100)), Arith("*", Col("$value"), Lit(IntV(10))))]>>, <<K>>, NoE, NoH, FALSE, NoLimit, "none"),
        \* HAVING over two (three) aggregates of which only the first is also in the select list
        Agg(<<KeyK, CountStar>>, <<K>>, NoE, [h |-> "and", l |-> HAgg(CountStar, ">=", IntV(2)), r |-> HAgg(MaxOfV, ">", IntV(1))], FALSE, NoLimit, "none"),
        Agg(<<KeyK, CountStar>>, <<K>>, NoE, [h |-> "or", l |-> HAgg(CountStar, ">=", IntV(3)), r |-> [h |-> "or", l |-> HAgg(MinOfV, ">", IntV(1)), r |-> HAgg(MaxOfV, "<", IntV(0))]], FALSE, NoLimit, "none"),
        Agg(<<KeyK, SumV>>, <<K>>, NoE, [h |-> "and", l |-> HAgg(MaxOfV, ">=", IntV(1)), r |-> HAgg(SumV, ">", IntV(1))], FALSE, NoLimit, "none"),
        \* the same aggregate twice in one HAVING (a range), also next to a third one and with the aggregate not selected at all
        Agg(<<KeyK, CountStar>>, <<K>>, NoE, [h |-> "and", l |-> HAgg(CountStar, ">=", IntV(1)), r |-> HAgg(CountStar, "<=", IntV(1))], FALSE, NoLimit, "none"),
        Agg(<<KeyK>>, <<K>>, NoE, [h |-> "and", l |-> HAgg(SumV, ">=", IntV(1)), r |-> [h |-> "and", l |-> HAgg(SumV, "<", IntV(3)), r |-> HAgg(MaxOfV, ">=", IntV(1))]], FALSE, NoLimit, "none"),
        Agg(<<KeyK, MaxOfV>>, <<K>>, NoE, [h |-> "or", l |-> HAgg(MaxOfV, "<", IntV(1)), r |-> HAgg(MaxOfV, ">", IntV(1))], FALSE, NoLimit, "none"),
        \* wrappers whose outer node is a unary minus, NOT or a cast around a deeper arithmetic wrapper; the aggregate deep inside a CASE
        Agg(<<KeyK, [SumV EXCEPT !.wrap = NegE(Arith("+", Col("$value"), One))], [MaxOfV EXCEPT !.wrap = Cast(Arith("*", Col("$value"), Lit(IntV(3))), "text")],
              [CountStar EXCEPT !.wrap = NotE(CmpE(">", Arith("*", Col("$value"), Two), Lit(IntV(2))))], [MinOfV EXCEPT !.wrap = NegE(Col("$value"))]>>, <<K>>, NoE, NoH, FALSE, NoLimit, "none"),
        Agg(<<KeyK, [CountV EXCEPT !.wrap = NegE(NegE(Arith("-", Col("$value"), One)))], [SumV EXCEPT !.wrap = Call("abs", <<Arith("-", Col("$value"), Lit(IntV(5)))>>)]>>, <<K>>, NoE, NoH, FALSE, NoLimit, "none"),
        \* HAVING on an aggregate that the select list shows inside a wrapper: the condition is about the aggregate, not about the shown value
        Agg(<<KeyK, [SumV EXCEPT !.wrap = Arith("*", Col("$value"), Two)]>>, <<K>>, NoE, HAgg(SumV, ">=", IntV(2)), FALSE, NoLimit, "none"),
        Agg(<<[CountStar EXCEPT !.wrap = Arith("-", Col("$value"), One)], KeyK>>, <<K>>, NoE, HAgg(CountStar, ">=", IntV(2)), FALSE, NoLimit, "none"),
        Agg(<<KeyK, [MaxOfV EXCEPT !.wrap = Arith("+", Col("$value"), Lit(IntV(10)))], SumV>>, <<K>>, NoE, [h |-> "and", l |-> HAgg(MaxOfV, "<", IntV(5)), r |-> HAgg(SumV, ">", IntV(0))], FALSE, NoLimit, "none"),
        \* groups keyed by arrays of different lengths: ascending order is element by element (a prefix before its extensions: {a} < {a,a} < {b} < {b,a}), MIN / MAX likewise
        Agg(<<ItE("key", ArrKey, "g"), CountStar>>, <<ArrKey>>, NoE, NoH, FALSE, NoLimit, "none"),
        Agg(<<ItE("min", ArrKey, "lo"), ItE("max", ArrKey, "hi")>>, <<>>, IsE(FALSE, K, Lit(Null)), NoH, FALSE, NoLimit, "none"),
        Agg(<<KeyK, ItE("key", V, "v"), CountStar>>, <<K, V>>, NoE, NoH, FALSE, NoLimit, "none"),
        Agg(<<ItE("key", V, "v"), CountStar>>, <<K>>, NoE, NoH, FALSE, NoLimit, "none")}       \* key expression not in GROUP BY: error

\* C15: the listed order-insensitive aggregates over INT, TEXT and BOOLEAN arguments, with GROUP BY / WHERE / HAVING
CombineStmt == Agg(<<KeyK, CountStar, CountV, SumV, MinOfV, MaxOfV>>, <<K>>, NoE, NoH, FALSE, NoLimit, "none")
OrderMenu ==
  {Agg(<<KeyK, x>>, <<K>>, NoE, NoH, FALSE, NoLimit, "none") : x \in AllAggs \ {ItE("array_agg", V, "aa"), [a |-> "string_agg", e |-> K, delim |-> Comma, as |-> "sa", wrap |-> NoE]}}
  \cup {Agg(<<x>>, <<>>, VPos, NoH, FALSE, NoLimit, "none") : x \in {CountStar, SumV, MinK, MaxK, ItE("avg", V, "a"), ItC("count_distinct", "v", "d")}}
  \cup {Agg(<<KeyK, SumV, MaxK>>, <<K>>, NoE, HAgg(CountStar, ">", IntV(1)), FALSE, NoLimit, "none"), CombineStmt,
        Agg(<<ItE("sum", Lit(MaxV(0)), "big"), ItE("sum", V, "s")>>, <<>>, NoE, NoH, FALSE, NoLimit, "none")}

\* aggregates over an arithmetic expression that leaves the 64-bit range on one row of a group and not on the others: an error for every order of the rows
\* (never a result that depends on which kind of row the group saw first)
LinesOvf == {KV(A, MaxV(0)), KV(A, IntV(3)), KV(A, IntV(-2)), KV(B, MinV(0)), KV(B, IntV(1))}
OverflowAggMenu ==
  {Agg(<<KeyK, ItE(a, Arith("*", V, Two), "x")>>, <<K>>, NoE, NoH, FALSE, NoLimit, "none") : a \in {"sum", "avg", "min", "max"}}
  \cup {Agg(<<ItE("sum", Arith("+", V, One), "x"), CountStar>>, <<>>, NoE, NoH, FALSE, NoLimit, "none"),
        Agg(<<ItE("avg", Arith("-", V, Two), "x")>>, <<>>, NoE, NoH, FALSE, NoLimit, "none"),
        Agg(<<KeyK>>, <<K>>, NoE, HAgg(ItE("sum", Arith("*", V, Two), "x"), ">", IntV(0)), FALSE, NoLimit, "none")}

\* an aggregate whose argument has no value on one row of a group (6 / v on the row v = 0, a cast of a text that is no number): the statement fails -- wherever that
\* row stands in the input and whatever the rows before it were (an aggregate that is "already decided" may not skip evaluating its argument)
DivV == Arith("/", Lit(IntV(6)), V)
ErrAggMenu ==
  {Agg(<<KeyK, ItE(a, DivV, "x")>>, <<K>>, NoE, NoH, FALSE, NoLimit, "none") : a \in {"sum", "avg", "min", "max", "array_agg", "variance", "stddev"}}
  \cup {Agg(<<KeyK, ItE(a, CmpE(">", DivV, Two), "x")>>, <<K>>, NoE, NoH, FALSE, NoLimit, "none") : a \in {"bool_and", "bool_or"}}
  \cup {Agg(<<ItE(a, CmpE("<", DivV, Two), "x"), CountStar>>, <<>>, NoE, NoH, FALSE, NoLimit, "none") : a \in {"bool_and", "bool_or"}}
  \cup {Agg(<<KeyK, [a |-> "percentile", e |-> DivV, pn |-> 1, pd |-> 2, as |-> "p50", wrap |-> NoE]>>, <<K>>, NoE, NoH, FALSE, NoLimit, "none"),
        Agg(<<KeyK, [a |-> "string_agg", e |-> Cast(DivV, "text"), delim |-> Comma, as |-> "sa", wrap |-> NoE]>>, <<K>>, NoE, NoH, FALSE, NoLimit, "none"),
        Agg(<<KeyK>>, <<K>>, NoE, HAgg(ItE("bool_or", CmpE(">", DivV, Two), "x"), "=", BoolV(TRUE)), FALSE, NoLimit, "none"),
        Agg(<<KeyK, ItE("max", Cast(K, "int"), "x")>>, <<K>>, NoE, NoH, FALSE, NoLimit, "none")}
LinesErrAgg == {KV(A, IntV(0)), KV(A, IntV(1)), KV(A, IntV(6)), KV(B, IntV(2)), KV(A, Null)}
\* aggregate statements whose LIMIT meets HAVING / DISTINCT: which groups fill the limit may not depend on the order in which the groups first appear
OrderLimitMenu == { [s EXCEPT !.limit = n] : s \in {Agg(<<KeyK, CountStar>>, <<K>>, NoE, HAgg(CountStar, ">=", IntV(2)), FALSE, NoLimit, "none"),
                                                     Agg(<<CountStar>>, <<K>>, NoE, NoH, TRUE, NoLimit, "none"),
                                                     Agg(<<KeyK, SumV>>, <<K>>, NoE, HAgg(MaxOfV, ">", IntV(1)), FALSE, NoLimit, "none"),
                                                     Agg(<<KeyK, CountStar>>, <<K>>, NoE, NoH, FALSE, NoLimit, "none")}, n \in 1..2 }

\* C09 / C03: operators, functions, subscripts and casts on boundary values (64-bit extremes, zero divisors, NaN / infinities / -0.0)
BInts == {MinV(0), MinV(1), IntV(-1), IntV(0), IntV(1), IntV(2), IntV(63), IntV(64), MaxV(-1), MaxV(0)}
BReals == {RealV(3, 2), RealV(0, 1), NZero, NaN, PInf, NInf, RealV(-1, 4)}
Arr78 == Lit(ArrV("int", <<IntV(7), IntV(8)>>))
Digits19 == <<57, 50, 50, 51, 51, 55, 50, 48, 51, 54, 56, 53, 52, 55, 55, 53, 56, 48, 55>>
ExprOnly(e) == Sel(<<P(e, "r")>>, NoE, FALSE, NoLimit, "none")
BoundaryMenu ==
  {ExprOnly(Arith(f, Lit(x), Lit(y))) : f \in {"+", "-", "*", "/"}, x \in BInts, y \in BInts}
  \cup {ExprOnly(Arith(f, Lit(x), Lit(y))) : f \in {"+", "-", "*", "/"}, x \in BReals, y \in BReals}
  \cup {ExprOnly(Arith(f, Lit(x), Lit(y))) : f \in {"+", "/"}, x \in {IntV(1), Null}, y \in {RealV(3, 2), Null, TextV(<<97>>), BoolV(TRUE)}}
  \cup {ExprOnly(NegE(Lit(x))) : x \in BInts \cup BReals \cup {Null, TextV(<<97>>)}}
  \cup {ExprOnly(Call("abs", <<Lit(x)>>)) : x \in BInts \cup BReals \cup {Null}}
  \cup {ExprOnly(Idx(Arr78, Lit(i))) : i \in BInts \cup {IntV(3), Null, RealV(1, 1)}}
  \cup {ExprOnly(Idx(Lit(x), Lit(IntV(1)))) : x \in {Null, IntV(5), TextV(<<97>>)}}
  \cup {ExprOnly(Call(f, <<Lit(x), Lit(y)>>)) : f \in {"least", "greatest"}, x \in {MinV(0), IntV(0), MaxV(0), Null}, y \in {MinV(0), IntV(1), MaxV(0), RealV(1, 1)}}
  \cup {ExprOnly(Cast(Lit(TextV(t_)), ty)) : t_ \in {Digits19, Append(Digits19, 48), <<45>> \o Digits19, <<49, 50>>, <<49, 46, 53>>, <<97>>, <<>>, <<116, 114, 117, 101>>}, ty \in {"int", "real", "boolean", "text"}}
  \cup {ExprOnly(Cast(Lit(x), "text")) : x \in {IntV(-12), BoolV(FALSE), RealV(3, 2), RealV(-1, 4)}}
  \cup {ExprOnly(CaseE(<<<<Lit(c), Lit(IntV(1))>>>>, Arith("/", One, Zero))) : c \in {BoolV(TRUE), BoolV(FALSE), Null}}
  \cup {ExprOnly(CaseE(<<<<CmpE("=", Arith("/", One, Zero), One), Lit(IntV(1))>>>>, Lit(IntV(2)))), ExprOnly(CaseE(<<<<Lit(BoolV(FALSE)), Lit(IntV(1))>>, <<CmpE("<", NegE(Lit(MinV(0))), One), Lit(IntV(2))>>>>, Lit(IntV(3))))}
  \cup {ExprOnly(BoolE(f, Lit(x), CmpE("=", Arith("/", One, Zero), One))) : f \in {"and", "or"}, x \in {BoolV(TRUE), BoolV(FALSE), Null}}
  \cup {ExprOnly(InE(ng, Lit(x), <<Lit(y), Lit(z)>>)) : ng \in BOOLEAN, x \in {Null, IntV(1)}, y \in {Null, IntV(1), IntV(2)}, z \in {Null, IntV(2)}}
  \cup {ExprOnly(NotE(InE(ng, Lit(x), <<Lit(y), Lit(z)>>))) : ng \in BOOLEAN, x \in {Null, IntV(1)}, y \in {Null, IntV(1), IntV(2)}, z \in {Null, IntV(2)}}       \* NOT over IN is not NOT IN (two-valued logic, NULL)
  \cup {ExprOnly(NotE(IsE(ng, Lit(x), Lit(y)))) : ng \in BOOLEAN, x \in {Null, IntV(1)}, y \in {Null, IntV(1), IntV(2)}}
  \cup {ExprOnly(NotE(CmpE(f, Lit(x), Lit(y)))) : f \in {"=", "!=", "<", ">="}, x \in {Null, IntV(1)}, y \in {Null, IntV(1), IntV(2)}}                       \* NOT (NULL = 1) is TRUE: a comparison with NULL is false
  \cup {ExprOnly(Call(f, <<Lit(TextV(<<97, 201, 98>>))>>)) : f \in {"upper", "lower", "length"}}
  \cup {ExprOnly(Call(f, <<Lit(TextV(tx))>>)) : f \in {"upper", "lower", "length"}, tx \in {<<304, 223, 8490, 64257>>, <<160, 120, 8195>>, <<128512, 769>>, <<>>}}       \* letters whose case forms have other lengths, wide blanks, astral + combining
  \cup {ExprOnly(CmpE(f, Lit(TextV(<<304>>)), Lit(TextV(<<105, 775>>)))) : f \in {"=", "<"}}
  \cup {ExprOnly(Call(f, <<Lit(TsV(<<2021, 3, 28, 2, 30, 59, 0>>))>>)) : f \in {"extract_year", "extract_month", "extract_day", "extract_hour", "extract_minute", "extract_second"}}
LinesOne == {KV(A, IntV(1))}
\* one line whose INT value lies near a boundary (the raw line, `*`, arithmetic and naming on it): the text of such a line is part of the model (IntTextB)
LinesBig == {KV(A, I31(5)), KV(A, MaxV(0)), KV(B, MinV(0)), KV(A, MaxV(-1)), KV(B, MinV(1)), KV(A, I53(1)), KV(A, [t |-> "int", b |-> 2, i |-> 1]), KV(Null, IntV(1600000007))}

\* ---- C03 / C04 / C09: timestamps and intervals (calendar arithmetic under TZ=UTC), pow / sqrt / regex_matches / date_trunc / EXTRACT(EPOCH)
T_(s) == Lit(TextV(s))
I_(n) == Lit(IntV(n))
MkTs(y, mo, d, h, mi, sc, us) == Call("make_timestamp", <<y, mo, d, h, mi, sc, us>>)
TsOfV == MkTs(I_(2021), I_(3), V, I_(5), I_(6), I_(7), I_(0))                       \* the day of the month comes from column v (NULL when there is no such day)
TsRef == Lit(TsV(<<2021, 3, 4, 5, 6, 7, 0>>))
TsFrac == Lit(TsV(<<2021, 3, 28, 2, 30, 59, 123456>>))
TsUs(us) == Lit(TsV(<<2021, 3, 28, 2, 30, 59, us>>))
IvOfV == Arith("-", TsRef, TsOfV)                                                   \* (4 - v) days
H130 == Cast(T_(<<49, 58, 51, 48, 58, 48, 48>>), "interval")
OnRow1 == CmpE("=", V, One)
CalSel(ps, w) == Sel(ps, w, FALSE, NoLimit, "none")
TruncPartTexts == {<<121, 101, 97, 114>>, <<109, 111, 110, 116, 104>>, <<100, 97, 121>>, <<104, 111, 117, 114>>, <<109, 105, 110, 117, 116, 101>>, <<115, 101, 99, 111, 110, 100>>, <<109, 105, 108, 108, 105, 115, 101, 99, 111, 110, 100, 115>>, <<109, 105, 99, 114, 111, 115, 101, 99, 111, 110, 100, 115>>, <<119, 101, 101, 107>>, <<89, 101, 97, 114>>, <<>>}
CalMenu ==
  {CalSel(<<P(TsOfV, "ts"), P(Arith("+", TsOfV, H130), "plus"), P(Arith("-", TsOfV, H130), "minus"), P(Arith("+", H130, TsOfV), "rplus")>>, NoE),
   CalSel(<<P(IvOfV, "d"), P(Arith("+", IvOfV, H130), "s"), P(Arith("-", H130, IvOfV), "m"), P(Cast(IvOfV, "int"), "secs"), P(Cast(H130, "real"), "r"),
            P(Cast(Arith("+", IvOfV, H130), "text"), "t"), P(Cast(TsOfV, "text"), "tt")>>, NoE),
   CalSel(<<P(Call("extract_day", <<TsOfV>>), "day"), P(Call("extract_epoch", <<TsOfV>>), "ep"), P(Call("extract_hour", <<Arith("+", TsOfV, Cast(T_(<<49, 57, 58, 48, 48, 58, 48, 48>>), "interval"))>>), "h")>>, NoE),
   CalSel(<<P(CmpE("<", TsOfV, T_(<<50, 48, 50, 49, 45, 48, 51, 45, 48, 50, 32, 48, 53, 58, 48, 54, 58, 48, 55>>)), "lt"), P(CmpE("=", T_(<<50, 48, 50, 49, 45, 48, 51, 45, 48, 50, 32, 48, 53, 58, 48, 54, 58, 48, 55>>), TsOfV), "eq"), P(CmpE(">=", TsOfV, TsRef), "ge")>>, NoE),
   \* two instants within one millisecond are different instants (comparison, IN, CASE, least / greatest, DISTINCT-able projection)
   CalSel(<<P(CmpE("=", TsUs(123456), TsUs(123457)), "eq"), P(CmpE("<", TsUs(123456), TsUs(123457)), "lt"), P(CmpE("!=", TsUs(123999), TsUs(123000)), "ne"),
            P(InE(FALSE, TsUs(123456), <<TsUs(123457), TsUs(123000)>>), "isin"), P(CaseE(<<<<CmpE(">=", TsUs(123456), TsUs(123457)), One>>>>, Two), "c"),
            P(Call("greatest", <<TsUs(123456), TsUs(123457)>>), "g"), P(Arith("-", TsUs(124000), TsUs(123000)), "d")>>, NoE),
   CalSel(<<P(CmpE("<", T_(<<50, 48, 50, 49, 45, 48, 51, 45, 48, 50, 32, 48, 53, 58, 48, 54, 58, 48, 55>>), TsOfV), "lt"), P(CmpE(">=", T_(<<50, 48, 50, 49, 45, 48, 51, 45, 48, 50, 32, 48, 53, 58, 48, 54, 58, 48, 55>>), TsOfV), "ge"), P(CmpE(">", TsOfV, T_(<<50, 48, 50, 49, 45, 48, 51, 45, 48, 50, 32, 48, 53, 58, 48, 54, 58, 48, 55>>)), "gt"),
            P(CmpE("<=", T_(<<50, 48, 50, 49, 45, 48, 51, 45, 48, 51, 32, 48, 48, 58, 48, 48, 58, 48, 48>>), TsRef), "le")>>, NoE),
   CalSel(<<P(CmpE("<", TsOfV, T_(<<121, 101, 115, 116, 101, 114, 100, 97, 121>>)), "bad")>>, OnRow1),
   CalSel(<<P(Cast(T_(<<50, 48, 50, 49, 45, 48, 51, 45, 48, 52, 32, 48, 53, 58, 48, 54, 58, 48, 55>>), "timestamp"), "c"), P(CmpE("=", Cast(T_(<<50, 48, 50, 49, 45, 48, 51, 45, 48, 52, 32, 48, 53, 58, 48, 54, 58, 48, 55>>), "timestamp"), TsRef), "same"),
            P(Cast(T_(<<50, 48, 50, 49, 45, 48, 50, 45, 51, 48, 32, 48, 53, 58, 48, 54, 58, 48, 55>>), "timestamp"), "nosuchday")>>, OnRow1),
   CalSel(<<P(Call("least", <<TsOfV, TsRef>>), "l"), P(Call("greatest", <<IvOfV, H130>>), "g"), P(Call("abs", <<IvOfV>>), "a")>>, NoE),
   CalSel(<<P(Arith("*", TsOfV, H130), "bad")>>, OnRow1),
   CalSel(<<P(Arith("-", H130, TsOfV), "bad")>>, OnRow1),
   CalSel(<<P(Arith("+", TsOfV, TsOfV), "bad")>>, OnRow1),
   CalSel(<<P(Arith("*", H130, H130), "bad")>>, OnRow1),
   CalSel(<<P(Arith("/", TsOfV, H130), "bad")>>, OnRow1),
   CalSel(<<P(Arith("+", TsOfV, One), "bad")>>, OnRow1),
   CalSel(<<P(NegE(H130), "bad")>>, OnRow1),
   CalSel(<<P(Call("pow", <<V, Two>>), "sq"), P(Call("pow", <<V, I_(3)>>), "cube"), P(Call("pow", <<Lit(RealV(3, 2)), Lit(RealV(2, 1))>>), "r"),
            P(Call("sqrt", <<Lit(RealV(9, 4))>>), "s"), P(Call("sqrt", <<Lit(RealV(-1, 1))>>), "nan")>>, NoE),
   CalSel(<<P(Call("pow", <<Two, V>>), "p")>>, NoE),                                   \* a negative exponent has no INT value: error on that row
   CalSel(<<P(Call("sqrt", <<V>>), "bad")>>, OnRow1),                                  \* sqrt(INT): type mismatch
   CalSel(<<P(Call("regex_matches", <<K, T_(<<94, 97>>)>>), "front"), P(Call("regex_matches", <<K, T_(<<98, 36>>)>>), "back"), P(Call("regex_matches", <<K, T_(<<97>>)>>), "has"),
            P(Call("regex_matches", <<K, T_(<<94, 97, 36>>)>>), "whole"), P(Call("regex_matches", <<Col("input"), T_(<<118, 61, 49>>)>>), "line")>>, NoE),
   \* the pattern is a value of the row (a column, a CASE): it differs from row to row, and a row whose pattern is no regular expression is an error there only
   CalSel(<<P(Call("regex_matches", <<T_(<<120, 97>>), K>>), "m"), P(Call("regex_matches", <<K, CaseE(<<<<OnRow1, T_(<<94, 97>>)>>>>, T_(<<98, 36>>))>>), "c"), P(K, "")>>, IsE(TRUE, K, Lit(Null))),
   CalSel(<<P(Call("regex_matches", <<K, CaseE(<<<<OnRow1, T_(<<40>>)>>>>, T_(<<97>>))>>), "badpat")>>, NoE),
   CalSel(<<P(Call("regex_matches", <<V, T_(<<97>>)>>), "bad")>>, OnRow1),
   CalSel(<<P(K, "")>>, Call("regex_matches", <<K, T_(<<94, 97>>)>>))}
  \cup {CalSel(<<P(Call("date_trunc", <<T_(pt), TsFrac>>), "t"), P(Call("date_trunc", <<T_(pt), TsOfV>>), "tv")>>, NoE) : pt \in TruncPartTexts}
CalAggMenu ==
  {Agg(<<KeyK, ItE("min", TsOfV, "lo"), ItE("max", TsOfV, "hi"), CountStar>>, <<K>>, NoE, NoH, FALSE, NoLimit, "none"),
   Agg(<<KeyK, ItE("sum", IvOfV, "s"), ItE("avg", IvOfV, "a"), ItE("max", IvOfV, "m"), ItE("min", IvOfV, "n")>>, <<K>>, NoE, NoH, FALSE, NoLimit, "none"),
   Agg(<<ItE("key", TsOfV, "day"), CountStar, MinK>>, <<TsOfV>>, NoE, NoH, FALSE, NoLimit, "none"),
   Agg(<<ItE("key", Call("date_trunc", <<T_(<<109, 111, 110, 116, 104>>), TsOfV>>), "mon"), CountStar>>, <<Call("date_trunc", <<T_(<<109, 111, 110, 116, 104>>), TsOfV>>)>>, NoE, NoH, FALSE, NoLimit, "none"),
   Agg(<<ItE("key", IvOfV, "d"), CountStar>>, <<IvOfV>>, NoE, NoH, TRUE, NoLimit, "none"),
   Agg(<<KeyK, [a |-> "percentile", e |-> IvOfV, pn |-> 1, pd |-> 2, as |-> "p50", wrap |-> NoE], ItE("array_agg", TsOfV, "aa")>>, <<K>>, IsE(TRUE, TsOfV, Lit(Null)), NoH, FALSE, NoLimit, "none"),
   Agg(<<KeyK, ItE("max", TsOfV, "hi")>>, <<K>>, NoE, HAgg(ItE("min", IvOfV, "n"), ">", IvV(0)), FALSE, NoLimit, "none"),
   Agg(<<ItE("stddev", IvOfV, "sd"), ItE("variance", H130, "var")>>, <<>>, NoE, NoH, FALSE, NoLimit, "none"),
   Sel(<<P(TsOfV, "ts")>>, NoE, TRUE, NoLimit, "none"),
   Sel(<<P(IvOfV, "d"), P(K, "")>>, NoE, TRUE, NoLimit, "none")}
LinesCal == {KV(A, IntV(1)), KV(A, IntV(2)), KV(B, IntV(3)), KV(B, IntV(31)), KV(Null, IntV(2)), KV(A, IntV(32)), KV(B, IntV(-1)), KV(A, IntV(0))}

\* boundary values of the same functions (C09: value, error or "not predicted" -- never a crash)
BigIvTexts == {<<57, 57, 57, 57, 57, 57, 57, 57, 57, 57, 57, 57, 57, 57, 57, 57, 58, 48, 58, 48>>, <<50, 53, 54, 50, 48, 52, 55, 55, 56, 56, 48, 49, 53, 58, 49, 50, 58, 53, 53>>, <<50, 53, 54, 50, 48, 52, 55, 55, 56, 56, 48, 49, 53, 58, 49, 50, 58, 53, 54>>, <<45, 50, 53, 54, 50, 48, 52, 55, 55, 56, 56, 48, 49, 53, 58, 49, 50, 58, 53, 54>>, <<48, 58, 57, 57, 57, 57, 57, 57, 57, 57, 57, 57, 57, 57, 57, 57, 57, 57, 58, 48>>, <<48, 58, 48, 58, 57, 50, 50, 51, 51, 55, 50, 48, 51, 54, 56, 53, 52, 55, 55, 53, 56, 48, 55>>, <<48, 58, 48, 58, 45, 57, 50, 50, 51, 51, 55, 50, 48, 51, 54, 56, 53, 52, 55, 55, 53, 56, 48, 56>>, <<49, 58, 50>>, <<97, 58, 98, 58, 99>>, <<49, 58, 50, 58, 51>>, <<45, 49, 58, 45, 50, 58, 45, 51>>, <<49, 58, 50, 58, 51, 58, 52>>, <<>>, <<58, 58>>}
BigIv == Cast(T_(<<50, 53, 54, 50, 48, 52, 55, 55, 56, 56, 48, 49, 53, 58, 49, 50, 58, 53, 53>>), "interval")
NegBigIv == Cast(T_(<<45, 50, 53, 54, 50, 48, 52, 55, 55, 56, 56, 48, 49, 53, 58, 49, 50, 58, 53, 53>>), "interval")
TsParts == {MaxV(0), MinV(0), IntV(-1), IntV(0), IntV(1), [t |-> "int", b |-> 2, i |-> 1], I31(0), IntV(13), IntV(32), IntV(60), IntV(9999), IntV(10000), IntV(262143), IntV(-262144), Null, RealV(1, 1)}
TsEdge == {TsV(<<1, 1, 1, 0, 0, 0, 0>>), TsV(<<9999, 12, 31, 23, 59, 59, 999999>>), TsV(<<1600, 2, 29, 12, 0, 0, 0>>), TsV(<<1970, 1, 1, 0, 0, 0, 0>>), TsV(<<1969, 12, 31, 23, 59, 59, 0>>), TsV(<<2038, 1, 19, 3, 14, 8, 0>>)}
CalBoundaryMenu ==
  {ExprOnly(Cast(T_(tx), "interval")) : tx \in BigIvTexts}
  \cup {ExprOnly(Arith(f, x, y)) : f \in {"+", "-"}, x \in {BigIv, NegBigIv, H130}, y \in {BigIv, NegBigIv}}
  \cup {ExprOnly(Arith(f, Lit(ts), y)) : f \in {"+", "-"}, ts \in TsEdge, y \in {BigIv, NegBigIv, H130}}
  \cup {ExprOnly(Arith("-", Lit(x), Lit(y))) : x \in TsEdge, y \in TsEdge}
  \cup {ExprOnly(Call("abs", <<x>>)) : x \in {BigIv, NegBigIv}}
  \cup {ExprOnly(Cast(x, ty)) : x \in {BigIv, NegBigIv, H130}, ty \in {"int", "real", "text"}}
  \cup {ExprOnly(MkTs(Lit(y), I_(3), I_(4), I_(5), I_(6), I_(7), I_(0))) : y \in TsParts}
  \cup {ExprOnly(MkTs(I_(2021), Lit(x), I_(4), I_(5), I_(6), I_(7), I_(0))) : x \in TsParts}
  \cup {ExprOnly(MkTs(I_(2021), I_(2), Lit(x), I_(5), I_(6), I_(7), I_(0))) : x \in TsParts \cup {IntV(28), IntV(29), IntV(30)}}
  \cup {ExprOnly(MkTs(I_(2024), I_(2), Lit(x), I_(5), I_(6), I_(7), I_(0))) : x \in {IntV(28), IntV(29), IntV(30)}}
  \cup {ExprOnly(MkTs(I_(2021), I_(3), I_(4), Lit(x), I_(6), I_(7), I_(0))) : x \in TsParts \cup {IntV(23), IntV(24)}}
  \cup {ExprOnly(MkTs(I_(2021), I_(3), I_(4), I_(5), I_(6), Lit(x), I_(0))) : x \in TsParts \cup {IntV(59)}}
  \cup {ExprOnly(MkTs(I_(2021), I_(3), I_(4), I_(5), I_(6), I_(59), Lit(x))) : x \in TsParts \cup {IntV(999999), IntV(1000000), [t |-> "int", b |-> 0, i |-> 1999999], [t |-> "int", b |-> 0, i |-> 2000000]}}
  \cup {ExprOnly(Call("pow", <<Lit(x), Lit(y)>>)) : x \in BInts, y \in BInts \cup {IntV(3), IntV(62), I31(0)}}
  \cup {ExprOnly(Call("pow", <<Lit(x), Lit(y)>>)) : x \in BReals, y \in {RealV(0, 1), RealV(1, 1), RealV(2, 1), RealV(1, 2), RealV(-1, 1), NaN, PInf}}
  \cup {ExprOnly(Call("pow", <<Lit(x), Lit(y)>>)) : x \in {IntV(2), Null}, y \in {RealV(2, 1), Null, IntV(2)}}
  \cup {ExprOnly(Call("sqrt", <<Lit(x)>>)) : x \in BReals \cup {RealV(9, 4), RealV(2, 1), RealV(16, 1), P63, N63, Null, IntV(4), TextV(<<52>>)}}
  \cup {ExprOnly(Call("date_trunc", <<T_(pt), Lit(ts)>>)) : pt \in TruncPartTexts, ts \in TsEdge}
  \cup {ExprOnly(Call("date_trunc", <<x, y>>)) : x \in {Lit(Null), I_(1), T_(<<100, 97, 121>>)}, y \in {Lit(Null), I_(1), T_(<<100, 97, 121>>), TsRef}}
  \cup {ExprOnly(Call(f, <<Lit(ts)>>)) : f \in {"extract_epoch", "extract_year", "extract_second"}, ts \in TsEdge}
  \cup {ExprOnly(Call("extract_epoch", <<Lit(x)>>)) : x \in {Null, IntV(1)}}
  \cup {ExprOnly(Call("regex_matches", <<Lit(x), Lit(y)>>)) : x \in {Null, TextV(<<97, 98>>), IntV(1)}, y \in {Null, TextV(<<97>>), TextV(<<40>>), TextV(<<91, 97>>), TextV(<<>>), TextV(<<46, 42>>), IntV(1)}}
  \cup {ExprOnly(CmpE(f, Lit(ts), T_(tx))) : f \in {"<", "="}, ts \in {TsV(<<2021, 3, 4, 5, 6, 7, 0>>)}, tx \in {<<50, 48, 50, 49, 45, 48, 51, 45, 48, 52, 32, 48, 53, 58, 48, 54, 58, 48, 55>>, <<50, 48, 50, 49, 45, 48, 51, 45, 48, 52, 32, 48, 53, 58, 48, 54, 58, 48, 56>>, <<50, 48, 50, 49, 45, 51, 45, 52, 32, 53, 58, 54, 58, 55>>, <<50, 48, 50, 49, 45, 48, 51, 45, 48, 52>>, <<>>, <<50, 48, 50, 49, 45, 48, 50, 45, 51, 48, 32, 48, 48, 58, 48, 48, 58, 48, 48>>, <<57, 57, 57, 57, 57, 45, 48, 49, 45, 48, 49, 32, 48, 48, 58, 48, 48, 58, 48, 48>>}}
CalBoundaryAggMenu ==
  {Agg(<<ItE(a, x, "r")>>, <<>>, NoE, NoH, FALSE, NoLimit, "none") : a \in {"sum", "avg", "min", "max", "stddev", "variance"}, x \in {BigIv, NegBigIv, H130, Cast(T_(<<57, 57, 57, 57, 57, 57, 57, 57, 57, 57, 57, 57, 57, 57, 57, 57, 58, 48, 58, 48>>), "interval")}}
  \cup {Agg(<<[a |-> "percentile", e |-> BigIv, pn |-> 1, pd |-> 2, as |-> "p50", wrap |-> NoE], ItE("array_agg", NegBigIv, "aa")>>, <<>>, NoE, NoH, FALSE, NoLimit, "none")}

\* C03 / C13: statements the harness writes with the FEWEST parentheses the standard precedence allows (field min: what a user types);
\* the tree is the intended grouping, so an operator table or a precedence-climbing loop that groups differently gives other rows
SelMin(proj, where) == [kind |-> "select", star |-> FALSE, proj |-> proj, where |-> where, distinct |-> FALSE, limit |-> NoLimit, join |-> "none", min |-> TRUE]
Seven == Cast(T_(<<55>>), "int")
PrecMenu == {
  SelMin(<<P(Arith("-", Arith("-", V, Arith("*", Two, I_(3))), I_(4)), "a"),                 \* v - 2 * 3 - 4
           P(Arith("-", Arith("-", I_(100), Seven), V), "b"),                                 \* 100 - '7'::int - v
           P(Arith("+", Arith("-", I_(10), Col("t.v")), One), "c"),                           \* 10 - t.v + 1
           P(Arith("/", Arith("/", I_(100), Cast(T_(<<53>>), "int")), Two), "d"),             \* 100 / '5'::int / 2
           P(Arith("-", Arith("-", V, Idx(Arr78, One)), One), "e"),                            \* v - array[7, 8][1] - 1
           P(Arith("+", Arith("*", V, Two), Arith("*", I_(3), V)), "f"),                       \* v * 2 + 3 * v
           P(Arith("*", Arith("+", V, Two), I_(3)), "g")>>, NoE),                               \* (v + 2) * 3
  SelMin(<<P(Arith("-", Arith("-", V, One), Two), "h"), P(Arith("-", Arith("-", Arith("-", V, I_(5)), Two), One), "i"), P(Arith("*", Arith("*", V, Two), I_(3)), "j"),
           P(Arith("/", Arith("/", Arith("*", V, I_(12)), Two), I_(3)), "k2"), P(Arith("-", Arith("+", V, One), Two), "l"), P(Arith("+", Arith("-", V, One), Two), "m2")>>, NoE),     \* v - 1 - 2, v - 5 - 2 - 1, v * 2 * 3, v * 12 / 2 / 3, v + 1 - 2, v - 1 + 2
  SelMin(<<P(V, "v"), P(K, "k")>>, BoolE("or", CmpE("=", V, One), BoolE("and", CmpE("=", V, Two), CmpE("=", K, Lit(A))))),      \* v = 1 OR v = 2 AND k = 'a'
  SelMin(<<P(V, "v")>>, BoolE("and", BoolE("or", CmpE("=", V, One), CmpE("=", V, Two)), CmpE("=", K, Lit(A)))),                  \* (v = 1 OR v = 2) AND k = 'a'
  SelMin(<<P(V, "v")>>, NotE(CmpE("=", V, One))),                                                                                \* NOT v = 1
  SelMin(<<P(V, "v")>>, BoolE("and", NotE(CmpE("=", V, One)), CmpE("=", K, Lit(A)))),                                            \* NOT v = 1 AND k = 'a'
  SelMin(<<P(V, "v")>>, CmpE("=", V, NegE(One))),                                                                                \* v = -1
  SelMin(<<P(Arith("-", V, NegE(One)), "m"), P(NegE(Seven), "n"), P(NegE(Col("t.v")), "o"), P(Arith("*", NegE(V), NegE(Two)), "p")>>, NoE),     \* v - -1, -'7'::int, -t.v, -v * -2
  SelMin(<<P(V, "v")>>, InE(FALSE, V, <<One>>)),                                                                                 \* v IN (1)
  SelMin(<<P(V, "v")>>, NotE(IsE(TRUE, V, Lit(Null)))),                                                                          \* NOT v IS NOT NULL
  SelMin(<<P(V, "v")>>, NotE(InE(TRUE, V, <<One, Two>>))),                                                                       \* NOT v NOT IN (1, 2)
  SelMin(<<P(CmpE("=", IsE(TRUE, V, Lit(Null)), Lit(BoolV(FALSE))), "q"), P(CmpE("=", InE(TRUE, V, <<One, Two>>), Lit(BoolV(TRUE))), "r"),
           P(CmpE("=", CmpE("<", V, Arith("+", One, One)), Lit(BoolV(TRUE))), "s")>>, NoE),     \* v IS NOT NULL = FALSE, v NOT IN (1, 2) = TRUE, v < 1 + 1 = TRUE
  SelMin(<<P(CaseE(<<<<BoolE("or", CmpE(">", V, One), IsE(FALSE, K, Lit(Null))), Arith("-", Arith("-", V, One), One)>>>>, NegE(V)), "t")>>, NoE),
  SelMin(<<P(Cast(Arith("+", V, One), "text"), "u"), P(Arith("+", Cast(Cast(V, "text"), "int"), One), "w")>>, IsE(TRUE, V, Lit(Null)))   \* (v + 1)::text, v::text::int + 1
}

\* a small menu for interrupt / incremental / file-split exploration
CoreMenu == {PlainKV, Sel(<<P(K, "")>>, NoE, TRUE, NoLimit, "none"), Star(VPos, FALSE, NoLimit, "none"),
             Agg(<<KeyK, CountStar, SumV>>, <<K>>, NoE, NoH, FALSE, NoLimit, "none"),
             Agg(<<KeyK, CountV>>, <<K>>, NoE, NoH, FALSE, NoLimit, "none"),
             Agg(<<CountStar, MaxK>>, <<>>, VPos, NoH, FALSE, NoLimit, "none"),
             Agg(<<KeyK, MinOfV>>, <<K>>, NoE, HAgg(CountStar, ">", IntV(1)), TRUE, NoLimit, "none")}
\* aggregates with LIMIT in follow mode: the run ends once the rows of the tables shown so far reach the limit (Engine.tla, ReadLine)
FollowAggLimitMenu0 == {[s EXCEPT !.limit = n] : s \in {Agg(<<KeyK, CountStar>>, <<K>>, NoE, NoH, FALSE, NoLimit, "none"),
                                                        Agg(<<CountStar, MaxK>>, <<>>, NoE, NoH, FALSE, NoLimit, "none"),
                                                        Agg(<<KeyK, MinOfV>>, <<K>>, NoE, HAgg(CountStar, ">", IntV(1)), FALSE, NoLimit, "none")}, n \in 0..4}
FollowMenu == CoreMenu \cup {[PlainKV EXCEPT !.limit = n] : n \in 0..3} \cup {[Sel(<<P(K, "")>>, NoE, TRUE, NoLimit, "none") EXCEPT !.limit = n] : n \in 0..2} \cup FollowAggLimitMenu0
CoreLimitMenu == CoreMenu \cup {[PlainKV EXCEPT !.limit = 2], [Sel(<<P(K, "")>>, NoE, TRUE, NoLimit, "none") EXCEPT !.limit = 1]}

\* C05
JoinMenu == {
  Star(NoE, FALSE, NoLimit, "inner"),
  Star(NoE, FALSE, NoLimit, "outer"),
  Sel(<<P(K, ""), P(W, ""), P(Col("u.k"), "uk")>>, CmpE(">", W, Zero), FALSE, NoLimit, "inner"),
  Sel(<<P(Col("t.k"), ""), P(Col("u.w"), ""), P(V, "")>>, IsE(FALSE, W, Lit(Null)), FALSE, NoLimit, "outer"),
  Sel(<<P(W, "")>>, NoE, TRUE, NoLimit, "inner"),
  Agg(<<KeyK, CountStar, ItE("sum", W, "sw")>>, <<K>>, NoE, NoH, FALSE, NoLimit, "inner"),
  Agg(<<KeyK, CountStar>>, <<K>>, NoE, NoH, FALSE, NoLimit, "outer"),
  Agg(<<ItE("key", W, "w"), ItE("min", V, "lo"), CountStar>>, <<W>>, NoE, NoH, FALSE, NoLimit, "inner"),
  \* DISTINCT on an aggregate over a join: the duplicate lines of the joined file still count (DISTINCT only removes equal result rows)
  Agg(<<KeyK, CountStar, ItE("sum", W, "sw")>>, <<K>>, NoE, NoH, TRUE, NoLimit, "inner"),
  Agg(<<CountStar>>, <<K>>, NoE, NoH, TRUE, NoLimit, "inner"),
  \* an aggregate whose WHERE looks at the joined side: partners of one line that pass and fail in either order
  Agg(<<KeyK, CountStar, ItE("sum", W, "sw")>>, <<K>>, CmpE(">", W, Zero), NoH, FALSE, NoLimit, "inner"),
  Agg(<<CountStar, ItE("max", W, "hi")>>, <<>>, CmpE("<", W, Lit(IntV(5))), NoH, FALSE, NoLimit, "inner")
}
\* C05: a table joined with itself (table variant "selfj"): the plain names are the queried row, the table-qualified names the joined row -- in WHERE, in the
\* projections, as aggregate arguments and group keys (a condition on t.v alone is a condition on the JOINED row)
TK == Col("t.k")
TV == Col("t.v")
SelfJoinMenu == {
  Star(NoE, FALSE, NoLimit, "inner"), Star(NoE, FALSE, NoLimit, "outer"),
  Sel(<<P(K, ""), P(TK, "jk"), P(V, ""), P(TV, "jv")>>, CmpE(">", TV, Zero), FALSE, NoLimit, "inner"),
  Sel(<<P(V, ""), P(TV, "")>>, CmpE("=", TV, Lit(IntV(5))), FALSE, NoLimit, "inner"),
  Sel(<<P(TV, "jv")>>, CmpE("=", TK, Lit(A)), TRUE, NoLimit, "outer"),
  Sel(<<P(Arith("+", V, TV), "s"), P(Col("input"), "")>>, BoolE("and", VPos, IsE(TRUE, TV, Lit(Null))), FALSE, 2, "outer"),
  Agg(<<KeyK, CountStar, ItE("sum", TV, "s")>>, <<K>>, CmpE(">", TV, Zero), NoH, FALSE, NoLimit, "inner"),
  Agg(<<ItE("key", TV, "jv"), CountStar, ItE("max", V, "hi")>>, <<TV>>, NoE, NoH, FALSE, NoLimit, "inner"),
  Agg(<<CountStar, ItE("min", TK, "lo")>>, <<>>, CmpE("<", TV, Lit(IntV(5))), NoH, FALSE, NoLimit, "inner")
}

\* C05: a joined file that does not exist / an ON column the joined table lacks is an error -- with any LIMIT (LIMIT 0 included), with or without input
BadJoinMenu == {[s EXCEPT !.join = j, !.limit = n] : s \in {Star(NoE, FALSE, NoLimit, "inner"), Sel(<<P(K, "")>>, NoE, TRUE, NoLimit, "inner"),
                                                            Agg(<<KeyK, CountStar>>, <<K>>, NoE, NoH, FALSE, NoLimit, "inner")}, j \in {"badfile", "badcol", "dirfile", "badqcol", "badqcolouter"}, n \in {NoLimit, 0, 1}}

\* C16: every consumer of the value order on every pair of same-kind values of the boundary universe
Renderable(x) == ~IsNull(x) /\ (x.t = "arr" => (x.xs # <<>> /\ \E i \in 1..Len(x.xs) : ~IsNull(x.xs[i])))
\* (parametrised so that TLC does not evaluate these large sets at start-up in every configuration: MC_EnginePairs.tla instantiates them)
PairsF(zz) == {p \in U \X U : TypeRank(p[1]) = TypeRank(p[2]) /\ Renderable(p[1]) /\ Renderable(p[2]) /\ (p[1].t = "arr" => p[1].et = p[2].et)}
Pick(x, y) == CaseE(<<<<CmpE("=", V, One), Lit(x)>>>>, Lit(y))
PairMenuF(zz) ==
  LET Pairs == PairsF(zz) IN
  {Sel(<<P(CmpE("=", Lit(p[1]), Lit(p[2])), "eq"), P(CmpE("<", Lit(p[1]), Lit(p[2])), "lt"), P(CmpE(">=", Lit(p[1]), Lit(p[2])), "ge"),
         P(CmpE("!=", Lit(p[1]), Lit(p[2])), "ne")>>, NoE, FALSE, NoLimit, "none") : p \in Pairs}
  \cup {Sel(<<P(Pick(p[1], p[2]), "x")>>, NoE, TRUE, NoLimit, "none") : p \in Pairs}
  \cup {Sel(<<P(Pick(p[1], p[2]), "x"), P(K, "")>>, NoE, TRUE, NoLimit, "none") : p \in Pairs}        \* the value is not the last member of the hashed tuple
  \cup {Agg(<<ItE("key", Pick(p[1], p[2]), "x"), CountStar>>, <<Pick(p[1], p[2])>>, NoE, NoH, FALSE, NoLimit, "none") : p \in Pairs}
  \cup {Agg(<<ItE("min", Pick(p[1], p[2]), "lo"), ItE("max", Pick(p[1], p[2]), "hi")>>, <<>>, NoE, NoH, FALSE, NoLimit, "none") : p \in Pairs}
  \cup {Sel(<<P(Call("array_unique", <<Call("array", <<Lit(p[1]), Lit(p[2]), Lit(p[1])>>)>>), "u")>>, NoE, FALSE, NoLimit, "none") : p \in {x \in Pairs : x[1].t # "arr"}}
LinesPair == {KV(A, IntV(1)), KV(A, IntV(2))}

\* C15: COUNT(DISTINCT) over many distinct values with recurrences (long inputs, simulation), and aggregates over REALs closer than f64::EPSILON
LinesDistinct == {KV(A, IntV(i)) : i \in 1..10} \cup {KV(B, IntV(3)), KV(A, Null)}
LinesDistinctWide == {KV(A, IntV(i)) : i \in 1..18} \cup {KV(B, IntV(3)), KV(A, Null)}        \* more than 16 distinct values in one group, with recurrences
DistinctCountMenu == {Agg(<<ItC("count_distinct", "v", "d"), CountStar>>, <<>>, NoE, NoH, FALSE, NoLimit, "none"),
                      Agg(<<KeyK, ItC("count_distinct", "v", "d")>>, <<K>>, NoE, NoH, FALSE, NoLimit, "none")}
RealPairs == {<<RealV(1, 4), Q25n>>, <<Q25n, RealV(1, 4)>>, <<RealV(0, 1), NZero>>, <<NZero, RealV(0, 1)>>, <<RealV(1, 2), RealV(3, 2)>>, <<NaN, PInf>>, <<PInf, NaN>>}
RealOrderMenu ==
  {Agg(<<ItE("min", Pick(p[1], p[2]), "lo"), ItE("max", Pick(p[1], p[2]), "hi"), CountStar>>, <<>>, NoE, NoH, FALSE, NoLimit, "none") : p \in RealPairs}
  \cup {Agg(<<ItE("key", Pick(p[1], p[2]), "x"), CountStar>>, <<Pick(p[1], p[2])>>, NoE, NoH, FALSE, NoLimit, "none") : p \in RealPairs}
  \cup {Agg(<<[a |-> "percentile", e |-> Pick(p[1], p[2]), pn |-> 1, pd |-> 2, as |-> "p50", wrap |-> NoE]>>, <<>>, NoE, NoH, FALSE, NoLimit, "none") : p \in RealPairs}
\* PERCENTILE over values that are equal but distinguishable (0.0 / -0.0), long inputs fed line by line: the shown value is the one a single stable sort of the
\* prefix picks, however often the table was rebuilt before (groups of more than 20 values: beyond the sizes for which every sort is an insertion sort)
\* v = 1: 0.0, v = 2: -0.0, v = 3: 0.5, otherwise -0.5 (the zeros are the median, a few other values make a sort move elements around)
AroundZero == CaseE(<<<<CmpE("=", V, One), Lit(RealV(0, 1))>>, <<CmpE("=", V, Two), Lit(NZero)>>, <<CmpE("=", V, Lit(IntV(3))), Lit(RealV(1, 2))>>>>, Lit(RealV(-1, 2)))
PercentileZeroMenu ==
  {Agg(<<[a |-> "percentile", e |-> AroundZero, pn |-> pn, pd |-> 4, as |-> "p", wrap |-> NoE], CountStar>>, <<>>, NoE, NoH, FALSE, NoLimit, "none") : pn \in {1, 2, 3}}
  \cup {Agg(<<KeyK, [a |-> "percentile", e |-> AroundZero, pn |-> 1, pd |-> 2, as |-> "p", wrap |-> NoE]>>, <<K>>, NoE, NoH, FALSE, NoLimit, "none")}
LinesAroundZero == {KV(A, IntV(1)), KV(A, IntV(2)), KV(A, IntV(1)), KV(A, IntV(2)), KV(B, IntV(1)), KV(B, IntV(2)), KV(A, IntV(3)), KV(A, IntV(4)), KV(B, IntV(3))}
LinesPick == {KV(A, IntV(1)), KV(A, IntV(2)), KV(B, IntV(1)), KV(B, IntV(2))}

\* C05: join on a numeric column of different types on the two sides (INT = REAL), incl. values around 2^53
NumJoinMenu == {Star(NoE, FALSE, NoLimit, "inner"), Star(NoE, FALSE, NoLimit, "outer"),
                Agg(<<ItE("key", V, "v"), CountStar>>, <<V>>, NoE, NoH, FALSE, NoLimit, "inner")}
LinesNum == {KV(A, IntV(1)), KV(B, I53(2)), KV(A, I53(0)), KV(A, I53(1)), KV(B, IntV(2)), KV(A, Null)}
JoinSetsNum == {<<KV(A, IntV(1)), KV(B, I53(2)), KV(A, IntV(2))>>, <<KV(A, I53(0)), KV(A, I53(2)), KV(A, I53(2)), KV(B, Null)>>}

\* ---- input menus ----------------------------------------------------------
Lines4 == {KV(A, IntV(1)), KV(A, IntV(2)), KV(B, IntV(1)), KV(Null, IntV(1)), KV(A, Null), KV(Null, Null), Garbage}
LinesAgg == {KV(A, IntV(1)), KV(A, IntV(2)), KV(B, IntV(-1)), KV(B, Null), KV(Null, IntV(0)), KV(A, Null), Near}
\* a richer alphabet for the simulation runs: multi-character keys (lexicographic vs length order), integers whose numeric and textual
\* order differ (9 < 10 < 100), negative values, the 64-bit extremes
AB == TextV(<<97, 98>>)
BA == TextV(<<98, 97>>)
AA == TextV(<<97, 97>>)
LinesRich == {KV(A, IntV(1600000000)), KV(A, IntV(1600000007)), KV(A, I31(5)), KV(A, IntV(1)), KV(A, IntV(10)), KV(AB, IntV(9)), KV(B, IntV(100)), KV(BA, IntV(-1)), KV(AA, IntV(2)), KV(B, IntV(9)), KV(AB, Null), KV(Null, IntV(10)),
              KV(Null, IntV(0)), KV(A, MaxV(0)), KV(B, MinV(0)), KV(Null, Null), Garbage}
\* noise lines longer than any buffer of the reader (8 KiB BufReader, 64 KiB) whose tail reads like a row: for the anchored table they are noise as a whole
LinesNoiseLong == {KV(A, IntV(1)), KV(B, IntV(2)), LongPre(65536), LongPre(8192), LongPre(100000), Garbage}
LinesNoise == {KV(A, IntV(1)), KV(B, IntV(2)), KV(A, Null), KV(Null, IntV(3)), KV(Null, Null), Garbage, Empty, Near}
LinesNoiseDefault == {KV(A, IntV(1)), KV(Null, IntV(3)), KV(Null, Null), BigV, Garbage}        \* for the DEFAULT table: a value group that takes part but is no INT literal
\* statements whose WHERE looks at `input` alone and has no value on a noise line ("###": 10 / (3 - 3)): noise never reaches the evaluator
NoiseMenu == CoreLimitMenu \cup {
  Agg(<<CountStar>>, <<>>, NoE, NoH, FALSE, NoLimit, "none"),             \* COUNT(*) alone: a line that matches the pattern without giving a row is not counted
  Sel(<<P(K, ""), P(V, "")>>, CmpE(">", Arith("/", Lit(IntV(10)), Arith("-", Call("length", <<Col("input")>>), Lit(IntV(3)))), Zero), FALSE, NoLimit, "none"),
  Agg(<<CountStar>>, <<>>, CmpE(">", Arith("/", Lit(IntV(10)), Arith("-", Call("length", <<Col("input")>>), Lit(IntV(3)))), Zero), NoH, FALSE, NoLimit, "none"),
  Sel(<<P(Col("input"), "")>>, CmpE("!=", Cast(Call("lower", <<Col("input")>>), "text"), Lit(TextV(<<>>))), TRUE, NoLimit, "none")}
LongJoin == [i \in 1..34 |-> IF i % 2 = 0 THEN KV(A, IntV(i)) ELSE KV(B, IntV(i))]
LongJoinNoise == [i \in 1..34 |-> IF i \in {11, 21, 31} THEN Garbage ELSE IF i % 2 = 0 THEN KV(A, IntV(i)) ELSE KV(B, IntV(i))]   \* non-rows exactly where the flag is sampled
LongJoinEmpty == [i \in 1..34 |-> IF i \in {11, 21, 31} THEN Empty ELSE IF i \in {12, 22} THEN Near ELSE IF i % 2 = 0 THEN KV(A, IntV(i)) ELSE KV(B, IntV(i))]   \* empty lines exactly where the flag is sampled
JoinSetsLong == {LongJoin, LongJoinNoise, LongJoinEmpty}
\* 120 joined lines, three keys interleaved irregularly (partners of one key are scattered; an index built by sorting must be stable), some non-rows
LongJoinMixed == [i \in 1..120 |-> IF i % 13 = 0 THEN Garbage ELSE IF (i * i) % 7 \in {0, 1} THEN KV(A, IntV(i)) ELSE IF (i * i) % 7 = 2 THEN KV(B, IntV(i)) ELSE KV(TextV(<<99>>), IntV(i))]
JoinSetsMixed == {LongJoinMixed}
\* a file that starts with a byte order mark: its first line keeps it, in batch mode as in follow mode
LinesBom == {BomPre, KV(A, IntV(2)), Garbage}
BomMenu == CoreMenu \cup {Sel(<<P(Col("input"), ""), P(K, "key")>>, NoE, FALSE, NoLimit, "none"), Sel(<<P(Call("length", <<Col("input")>>), "n")>>, NoE, TRUE, NoLimit, "none")}
\* lines that end in white space (a blank, blank + tab, NO-BREAK SPACE, a carriage return that is not part of a line end because a blank follows it): every reader
\* (batch, line by line, follow mode) hands the engine the same line -- `input`, its length, DISTINCT on it, an anchored pattern
LinesPost == {KVPost(A, IntV(1), <<32>>), KVPost(A, IntV(1), <<32, 9>>), KV(A, IntV(1)), KVPost(B, IntV(2), <<160>>), KVPost(A, IntV(1), <<13, 32>>), KVPost(A, IntV(1), <<32, 12288>>)}
PostMenu == BomMenu \cup {Sel(<<P(Col("input"), "")>>, NoE, TRUE, NoLimit, "none"), Agg(<<ItE("key", Col("input"), "line"), CountStar>>, <<Col("input")>>, NoE, NoH, FALSE, NoLimit, "none"),
                          Agg(<<ItE("max", Call("length", <<Col("input")>>), "len"), ItC("count_distinct", "input", "d")>>, <<>>, NoE, NoH, FALSE, NoLimit, "none")}
Lines3 == {KV(A, IntV(1)), KV(B, IntV(2)), KV(Null, IntV(0)), KV(A, Null), Garbage}
LinesJ == {KV(A, IntV(1)), KV(B, IntV(2)), KV(Null, IntV(1))}
JoinSets == {<<KV(A, IntV(5)), KV(A, IntV(5)), KV(B, IntV(5))>>, <<>>, <<KV(A, IntV(5))>>, <<KV(A, IntV(0)), KV(A, IntV(5))>>, <<KV(B, IntV(5)), KV(A, IntV(5)), KV(A, IntV(6))>>, <<KV(A, IntV(5)), KV(A, IntV(0)), KV(Null, IntV(9))>>, <<KV(B, IntV(1)), Garbage, KV(A, IntV(3))>>}
\* joined files with empty lines and lines that match nothing (rows of the joined table when its key column has a DEFAULT: table variant ukdef)
JoinSetsEmpty == {<<KV(A, IntV(5)), Empty, KV(B, IntV(2)), Garbage>>, <<Empty>>, <<KV(Null, IntV(4)), KV(A, Null)>>, <<Empty, Empty, KV(B, IntV(1))>>}
NoIntr == {[at |-> "none", n |-> 0]}
LineIntr == {[at |-> "line", n |-> n] : n \in 0..4}
PrintIntr == {[at |-> "print", n |-> n] : n \in 1..3}

JoinIntr == {[at |-> "join", n |-> n] : n \in {0, 1, 9, 10, 11, 15, 20, 30, 33}} \cup NoIntr
AllIntr == NoIntr \cup LineIntr \cup PrintIntr

\* table variant "vreal" (v REAL): aggregates and comparisons over REAL inputs whose sums are exactly representable (quarters), -0.0 among them
LinesReal == {KV(A, RealV(3, 2)), KV(A, RealV(1, 4)), KV(B, RealV(-1, 2)), KV(A, RealV(0, 1)), KV(B, RealV(5, 1)), KV(Null, RealV(1, 1)), KV(A, Null), KV(B, RealV(10, 1)), KV(A, RealV(9, 4))}
RealMenu ==
  {Agg(<<KeyK, x>>, <<K>>, NoE, NoH, FALSE, NoLimit, "none") : x \in {CountV, SumV, MinOfV, MaxOfV, ItE("avg", V, "a"), ItC("count_distinct", "v", "d"),
                                                                     [a |-> "percentile", e |-> V, pn |-> 1, pd |-> 2, as |-> "p50", wrap |-> NoE], ItE("array_agg", V, "aa"),
                                                                     [SumV EXCEPT !.wrap = Arith("*", Col("$value"), Lit(RealV(2, 1)))]}}
  \cup {Agg(<<SumV, CountStar, MaxOfV>>, <<>>, CmpE(">", V, Lit(RealV(0, 1))), NoH, FALSE, NoLimit, "none"),
        Agg(<<KeyK, SumV>>, <<K>>, NoE, HAgg(SumV, ">=", RealV(3, 2)), FALSE, NoLimit, "none"),
        Agg(<<ItE("key", V, "v"), CountStar>>, <<V>>, NoE, NoH, FALSE, NoLimit, "none"),
        Sel(<<P(V, ""), P(Arith("+", V, Lit(RealV(1, 2))), "h"), P(CmpE("<", V, Lit(IntV(1))), "lt1"), P(Cast(V, "text"), "t"), P(NegE(V), "n"), P(Call("abs", <<V>>), "a")>>, NoE, FALSE, NoLimit, "none"),
        Sel(<<P(V, "")>>, CmpE(">=", V, Lit(RealV(3, 2))), TRUE, NoLimit, "none"),
        Star(InE(FALSE, V, <<Lit(RealV(3, 2)), Lit(IntV(5))>>), FALSE, NoLimit, "none")}

\* ---- every statement of every menu (without joins / with joins): random long inputs over them run under each engine-based property, so that a
\* statement shape kept for one property is also exercised under the checks of the others
UnionMenu == SelectMenu \cup FunctionMenu \cup DistinctMenu \cup LimitMenu \cup AggMenu \cup OrderMenu \cup CalMenu \cup CalAggMenu \cup PrecMenu \cup NoiseMenu
             \cup RealOrderMenu \cup DistinctCountMenu \cup PercentileZeroMenu
JoinUnionMenu == JoinMenu \cup LimitJoinMenu
LinesUnion == {KV(A, IntV(1)), KV(A, IntV(2)), KV(B, IntV(1)), KV(B, IntV(3)), KV(A, IntV(-1)), KV(B, IntV(31)), KV(A, IntV(32)), KV(Null, IntV(2)), KV(A, Null), KV(Null, Null), KV(AB, IntV(10)),
               KV(B, IntV(0)), Garbage, Empty, Near}

\* medium scale (configurations gen-wide): 40-64 random lines over 40 values x 3 keys -- more distinct rows, groups and values per group than the small fixed-size
\* shortcuts a program may take (8, 16, 32 entries), with recurrences far apart
LinesWide == {KV(k, IntV(i)) : k \in {A, B}, i \in 1..40} \cup {KV(AB, IntV(i)) : i \in {1, 2, 3}} \cup {KV(Null, IntV(7)), KV(A, Null), Garbage}

\* ---- scale (configuration scale): one input of 1 400 lines over 1 301 distinct keys in scrambled order (about a hundred of them recur far apart), values 0..6 --
\* more groups, distinct rows and distinct values than any in-memory shortcut of the code is sized for (tens, hundreds, 1 024 ...); the statements keep the
\* first rows of such a result (LIMIT with and without DISTINCT / HAVING), count and deduplicate them
Letters(n) == LET t == IntText(n) IN [j \in 1..Len(t) |-> t[j] + 49]          \* the digits 0..9 written as a..j (the table's key pattern is [a-z]+)
BigKey(i) == TextV(Letters((i * 37) % 1301))
BigInput == [i \in 1..1400 |-> KV(BigKey(i), IntV(i % 7))]
BigInputs == {<<BigInput>>}
\* the same shape at a size TLC evaluates in about a minute (configuration scale-300): 300 lines over 271 keys, about thirty of them recurring
MidKey(i) == TextV(Letters((i * 37) % 271))
MidInputs == {<<[i \in 1..300 |-> KV(MidKey(i), IntV(i % 7))]>>}
ScaleMenu == {
  Agg(<<ItE("max", V, "hi"), CountStar>>, <<K>>, NoE, NoH, TRUE, 2, "none"),          \* rows (6, 1), (6, 2): the first rows of the full result come from groups far apart
  Agg(<<ItE("max", V, "hi"), CountStar>>, <<K>>, NoE, NoH, TRUE, 9, "none"),
  Agg(<<KeyK, CountStar>>, <<K>>, NoE, NoH, FALSE, 3, "none"),
  Agg(<<KeyK, SumV>>, <<K>>, NoE, HAgg(CountStar, ">=", IntV(2)), FALSE, 3, "none"),
  Agg(<<KeyK, CountStar>>, <<K>>, NoE, NoH, FALSE, NoLimit, "none"),
  Agg(<<ItC("count_distinct", "k", "d"), ItC("count_distinct", "v", "dv"), CountStar>>, <<>>, NoE, NoH, FALSE, NoLimit, "none"),
  Agg(<<PctIt(1, 2), [PctIt(999, 1000) EXCEPT !.as = "p999"]>>, <<>>, NoE, NoH, FALSE, NoLimit, "none"),
  Sel(<<P(K, "")>>, NoE, TRUE, NoLimit, "none"),
  Sel(<<P(K, "")>>, NoE, TRUE, 1250, "none"),
  Sel(<<P(V, "")>>, NoE, TRUE, 7, "none"),
  Agg(<<ItE("key", V, "v"), ItC("count_distinct", "k", "d"), MinK, MaxK>>, <<V>>, NoE, NoH, FALSE, NoLimit, "none")
}

\* ---- generated statements (configurations gen / gen-join) ----------------------------------------------------------------------------------
\* Every clause is drawn independently from a pool (TLC's RandomElement / RandomSubset, reproducible under -seed), so that features meet in
\* combinations no hand-written menu lists: projections x WHERE x DISTINCT x LIMIT x GROUP BY keys (plain, two, expressions that are not shown)
\* x one to three aggregates (plain or inside a wrapper) x HAVING (selected / unselected aggregates, key conditions) x INNER / OUTER JOIN.
\* GenMenu(n, j) is a set of n such statements (j: over the join); the random long inputs of the lazy configuration run over it.
RECURSIVE SetSeq(_)
SetSeq(S) == IF S = {} THEN <<>> ELSE LET x == CHOOSE y \in S : TRUE IN <<x>> \o SetSeq(S \ {x})
GenExprs == {K, V, Arith("+", V, One), Arith("*", V, Two), Col("input"), CaseE(<<<<VPos, K>>>>, Lit(TextV(<<122>>))), Call("length", <<K>>), Col("t.v"), NegE(V), Cast(V, "text"),
             Call("upper", <<K>>), Lit(IntV(5)), Call("abs", <<V>>), IsE(FALSE, K, Lit(Null)), CmpE("=", K, Lit(A)), Arith("/", Lit(IntV(6)), V), Lit(Null), Arith("-", V, V)}
GenExprsJ == {W, Col("u.k"), Col("t.k"), Arith("+", V, W), Col("u.w"), CmpE("=", V, W), CaseE(<<<<IsE(TRUE, W, Lit(Null)), Lit(IntV(-1))>>>>, W)}
GenWheres == {VPos, CmpE("=", K, Lit(A)), IsE(TRUE, V, Lit(Null)), BoolE("or", IsE(FALSE, K, Lit(Null)), CmpE(">", V, One)), NotE(CmpE("=", K, Lit(B))),
              InE(FALSE, V, <<One, Two>>), InE(TRUE, V, <<One, Lit(Null)>>), CmpE("<", Arith("/", Lit(IntV(4)), V), Two), CmpE("!=", V, One)}
GenWheresJ == {CmpE(">", W, Zero), IsE(FALSE, W, Lit(Null)), CmpE("=", V, W), IsE(TRUE, W, Lit(Null))}
GenLimits == {0, 1, 2, 3, 2000000001}
CNames == <<"c1", "c2", "c3">>
GenWhere(j) == IF RandomElement(1..10) <= 4 THEN NoE ELSE IF j # "none" /\ RandomElement(1..10) <= 4 THEN RandomElement(GenWheresJ) ELSE RandomElement(GenWheres)
GenLimit(j) == IF RandomElement(1..10) <= 6 THEN NoLimit ELSE RandomElement(GenLimits)      \* (a parameter: TLC evaluates a definition without parameters only once)
GenSelect(j) ==
  IF RandomElement(1..10) <= 2 THEN Star(GenWhere(j), RandomElement(BOOLEAN), GenLimit(j), j)
  ELSE LET n == RandomElement(1..3)
           ex(i) == IF j # "none" /\ RandomElement(1..10) <= 4 THEN RandomElement(GenExprsJ) ELSE RandomElement(GenExprs)
           one(i) == LET e == ex(i) IN P(e, IF e.op = "col" \/ RandomElement(1..10) <= 6 THEN CNames[i] ELSE "")
       IN Sel([i \in 1..n |-> one(i)], GenWhere(j), RandomElement(BOOLEAN), GenLimit(j), j)
\* (the last four are not injective: groups whose aggregates differ may show equal cells -- what DISTINCT compares is the shown row)
WrapPool == {Arith("*", Col("$value"), Two), Arith("+", One, Col("$value")), NegE(Col("$value")), Arith("-", Lit(IntV(100)), Arith("*", Col("$value"), Lit(IntV(10)))),
             Arith("/", Col("$value"), Two), CmpE(">", Col("$value"), One), Call("abs", <<Arith("-", Col("$value"), Two)>>), Arith("*", Col("$value"), Zero)}
NumericAggs == {"count_star", "count", "count_distinct", "sum", "min", "max"}
\* aggregates over expressions, TEXT arguments, conditional arguments (NULL on some rows)
MoreAggs == {ItE("sum", Arith("*", V, Two), "s2"), ItE("max", Call("length", <<K>>), "ml"), ItC("count_distinct", "k", "dk"),
             ItE("min", CaseE(<<<<VPos, V>>>>, Lit(Null)), "mc"), ItE("array_agg", K, "ak"), ItE("avg", Arith("+", V, One), "a1"),
             ItE("max", Call("upper", <<K>>), "uk"), ItE("sum", Call("abs", <<V>>), "sa1"), ItE("bool_or", IsE(TRUE, V, Lit(Null)), "bn"),
             [a |-> "percentile", e |-> Arith("*", V, Two), pn |-> 3, pd |-> 4, as |-> "p75", wrap |-> NoE],
             [a |-> "string_agg", e |-> Call("upper", <<K>>), delim |-> <<45>>, as |-> "su", wrap |-> NoE]}
GenAggPool(j) == AllAggs \cup MoreAggs \cup (IF j = "none" THEN {} ELSE {ItE("sum", W, "sw"), ItE("max", W, "whi"), ItC("count", "w", "cw"), ItE("min", Col("u.k"), "uklo")})
MaybeWrap(it) == IF it.a \in NumericAggs /\ (("e" \in DOMAIN it) => it.e \in {V, W}) /\ RandomElement(1..10) <= 3 THEN [it EXCEPT !.wrap = RandomElement(WrapPool)] ELSE it
GenGroups(j) == {<<>>, <<K>>, <<V>>, <<K, V>>, <<Arith("+", V, Zero)>>, <<K, Arith("*", V, One)>>, <<Call("length", <<K>>)>>, <<VPos>>, <<V, K>>, <<ArrKey>>} \cup (IF j = "none" THEN {} ELSE {<<W>>, <<K, W>>})
KeyItemOf(e) == IF e = K THEN ItE("key", K, "k") ELSE IF e = V THEN ItE("key", V, "v") ELSE IF e = W THEN ItE("key", W, "w") ELSE ItE("key", e, "g")
GenHavings(group) ==
  {HAgg(CountStar, ">=", IntV(2)), HAgg(SumV, ">", IntV(1)), HAgg(CountV, "=", IntV(0)), HAgg(MaxOfV, "<", IntV(3)),
   HAgg(ItC("count_distinct", "v", "d"), ">=", IntV(2)), HAgg(MinK, "=", A), HAgg(ItE("avg", V, "a"), ">=", IntV(1)),
   [h |-> "and", l |-> HAgg(CountStar, ">=", IntV(1)), r |-> HAgg(CountStar, "<=", IntV(2))],
   [h |-> "or", l |-> HAgg(MinOfV, ">", IntV(1)), r |-> HAgg(SumV, "<", IntV(0))]}
  \cup (IF \E i \in 1..Len(group) : group[i] = K
        THEN {[h |-> "keynull", e |-> K, neg |-> TRUE], [h |-> "or", l |-> [h |-> "key", e |-> K, f |-> "=", c |-> A], r |-> HAgg(CountStar, ">", IntV(1))]} ELSE {})
GenAgg(j) ==
  LET group == RandomElement(GenGroups(j))
      shown == SelectSeq(group, LAMBDA e : IF e \in {K, V, W} THEN RandomElement(1..10) <= 8 ELSE (Len(group) = 1 /\ RandomElement(1..10) <= 5))    \* an expression key is shown half of the time
      keys == [i \in 1..Len(shown) |-> KeyItemOf(shown[i])]
      aggs0 == SetSeq(RandomSubset(RandomElement(1..3), GenAggPool(j)))
      aggs == [i \in 1..Len(aggs0) |-> MaybeWrap(aggs0[i])]
      cut == RandomElement(0..Len(aggs))
      having == IF RandomElement(1..10) <= 6 THEN NoH ELSE RandomElement(GenHavings(group))
  IN Agg(SubSeq(aggs, 1, cut) \o keys \o SubSeq(aggs, cut + 1, Len(aggs)), group, GenWhere(j), having, RandomElement(1..10) <= 2, GenLimit(j), j)
GenStmt(j) == IF RandomElement(1..10) <= 4 THEN GenSelect(j) ELSE GenAgg(j)
GenMenuOf(n, joins) == {GenStmt(IF joins THEN RandomElement({"inner", "outer"}) ELSE "none") : i \in 1..n}
GenMenu == GenMenuOf(400, FALSE)
GenJoinMenu == GenMenuOf(300, TRUE)

\* which open deviations made this behaviour differ from the Ideal meaning (batch, uninterrupted)
IdealOut == SemResult(AllLines, jlines)
Deviates == /\ Dev # {} /\ mode = "batch" /\ Uninterrupted /\ KnownSt(status) /\ KnownSt(IdealOut.st)
            /\ (printed # IdealOut.recs \/ status # IdealOut.st)

Emit ==
  pc = "done" =>
    PrintT(<<"REPLAY", ToJson([tdef |-> tdef, q |-> q, files |-> files, jlines |-> jlines, mode |-> mode, intr |-> intr,
                                cols |-> ColNames(q), printed |-> printed, status |-> status, consumed |-> consumed,
                                steps |-> steps,
                                \* the run ended because its LIMIT was complete (follow mode: the executor returns at once, it does not wait for a further line)
                                bylimit |-> HasLimit /\ status = "ok" /\ nout >= q.limit /\ (IsAgg => (mode = "follow" /\ steps # <<>> /\ steps[Len(steps)].st = "ok")),
                                jcalls |-> IF q.join = "none" THEN 0 ELSE IF ji < Len(jlines) THEN ji + 1 ELSE Len(jlines),
                                fired |-> IF Deviates THEN Dev ELSE {},
                                ideal |-> IF Deviates THEN IdealOut ELSE Out(<<>>, "same")])>>)
=============================================================================
