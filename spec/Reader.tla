------------------------------- MODULE Reader -------------------------------
(***************************************************************************)
(* Batch input: every line of every input file reaches the query exactly   *)
(* once, in order (property C12).                                          *)
(*                                                                         *)
(* Code map (src/executor.rs FileExecutor::execute, join.rs loader):       *)
(*   ReadLine   one item of BufRead::lines(): bytes up to LF, LF and one   *)
(*              preceding CR stripped, decoded as UTF-8                    *)
(*   NextFile   the reader is exhausted, the next file is opened           *)
(* Bytes are naturals: 120 'x' (stands for a run of ordinary bytes, see    *)
(* Unit), 10 LF, 13 CR, 255 a byte that is not valid UTF-8, 195 169 the    *)
(* two bytes of U+00E9.                                                    *)
(***************************************************************************)
EXTENDS Naturals, Sequences, FiniteSets, TLC

CONSTANTS MaxLen, MaxFiles, Dev
ReaderDevNames == {"InvalidUtf8EndsFile"}

LF == 10
CR == 13
BAD == 255
Sym == {120, LF, CR, BAD, 195, 169}

VARIABLES files,      \* the byte contents, chosen once
          fi, pos,    \* current file and offset
          out,        \* lines presented to the query so far (sequences of code points)
          lost        \* observation: a file was abandoned before its end

vars == <<files, fi, pos, out, lost>>

\* every byte sequence is a file: 195 169 is U+00E9; a 195 that is not followed by 169 (a character cut off by the end of the line, of the file, or
\* by any other byte), a 169 without its 195 and BAD are malformed: each is read as one U+FFFD and the line goes on
WellFormed(s) == TRUE
Malformed(s) == \E i \in 1..Len(s) : \/ s[i] = BAD
                                      \/ (s[i] = 195 /\ ~(i < Len(s) /\ s[i + 1] = 169))
                                      \/ (s[i] = 169 /\ ~(i > 1 /\ s[i - 1] = 195))

RECURSIVE SeqsUpTo(_)
SeqsUpTo(n) == IF n = 0 THEN {<<>>}
               ELSE LET S == SeqsUpTo(n - 1) IN S \cup {Append(s, b) : s \in {t \in S : Len(t) = n - 1}, b \in Sym}
Contents == {s \in SeqsUpTo(MaxLen) : WellFormed(s)}

RECURSIVE FirstLF(_, _)
FirstLF(s, i) == IF i > Len(s) THEN 0 ELSE IF s[i] = LF THEN i ELSE FirstLF(s, i + 1)

\* decoding of one line's bytes to code points: U+00E9 for 195 169, U+FFFD for a malformed byte
RECURSIVE Decode(_)
Decode(b) == IF b = <<>> THEN <<>>
             ELSE IF Head(b) = 195 /\ Len(b) >= 2 /\ b[2] = 169 THEN <<233>> \o Decode(SubSeq(b, 3, Len(b)))
             ELSE IF Head(b) \in {BAD, 195, 169} THEN <<65533>> \o Decode(Tail(b))
             ELSE <<Head(b)>> \o Decode(Tail(b))

StripCR(b) == IF b # <<>> /\ b[Len(b)] = CR THEN SubSeq(b, 1, Len(b) - 1) ELSE b

\* BufRead::lines strips "\n" and then one "\r" only when the "\n" was there
RECURSIVE Lines(_)
Lines(s) ==
  IF s = <<>> THEN <<>>
  ELSE LET i == FirstLF(s, 1)
       IN IF i = 0 THEN <<Decode(s)>>
          ELSE <<Decode(StripCR(SubSeq(s, 1, i - 1)))>> \o Lines(SubSeq(s, i + 1, Len(s)))

RECURSIVE AllLines(_)
AllLines(fs) == IF fs = <<>> THEN <<>> ELSE Lines(Head(fs)) \o AllLines(Tail(fs))
RECURSIVE Concat(_)
Concat(fs) == IF fs = <<>> THEN <<>> ELSE Head(fs) \o Concat(Tail(fs))

NewlineTerminated(s) == s = <<>> \/ s[Len(s)] = LF

\* all ways of cutting s into 1..MaxFiles consecutive pieces
Cuts(s) == {<<s>>}
           \cup (IF MaxFiles >= 2 THEN {<<SubSeq(s, 1, c), SubSeq(s, c + 1, Len(s))>> : c \in 0..Len(s)} ELSE {})
           \cup (IF MaxFiles >= 3 THEN {<<SubSeq(s, 1, cd[1]), SubSeq(s, cd[1] + 1, cd[2]), SubSeq(s, cd[2] + 1, Len(s))>> :
                                          cd \in {x \in (0..Len(s)) \X (0..Len(s)) : x[1] <= x[2]}} ELSE {})

Init == /\ \E s \in Contents : files \in {fs \in Cuts(s) : \A i \in 1..Len(fs) : WellFormed(fs[i])}
        /\ fi = 1 /\ pos = 0 /\ out = <<>> /\ lost = FALSE

ReadLine ==
  /\ fi <= Len(files) /\ pos < Len(files[fi])
  /\ LET rest == SubSeq(files[fi], pos + 1, Len(files[fi]))
         i == FirstLF(rest, 1)
         raw == IF i = 0 THEN rest ELSE StripCR(SubSeq(rest, 1, i - 1))
         next == IF i = 0 THEN Len(files[fi]) ELSE pos + i
     IN IF "InvalidUtf8EndsFile" \in Dev /\ Malformed(raw)
        THEN \* as built: `if let Ok(line) = line {..} else { break; }` -- the rest of the file is skipped silently
             /\ pos' = Len(files[fi]) /\ lost' = ((next < Len(files[fi])) \/ lost) /\ UNCHANGED out
        ELSE /\ out' = Append(out, Decode(raw)) /\ pos' = next /\ UNCHANGED lost
  /\ UNCHANGED <<files, fi>>

NextFile ==
  /\ fi <= Len(files) /\ pos >= Len(files[fi])
  /\ fi' = fi + 1 /\ pos' = 0
  /\ UNCHANGED <<files, out, lost>>

Next == ReadLine \/ NextFile
Spec == Init /\ [][Next]_vars

Done == fi > Len(files)

\* C12: exactly the lines of every file, once, in order
ExactlyOnceInOrder == Done => out = AllLines(files)
PrefixAlways == LET a == AllLines(files) IN Len(out) <= Len(a) /\ SubSeq(a, 1, Len(out)) = out
\* running over several newline-terminated files = running over their concatenation
ConcatLaw == (\A i \in 1..Len(files) : NewlineTerminated(files[i])) => AllLines(files) = Lines(Concat(files))
\* a malformed line never makes later well-formed lines disappear silently
NothingLostSilently == ~lost
=============================================================================
