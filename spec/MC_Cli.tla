------------------------------- MODULE MC_Cli -------------------------------
EXTENDS Cli, Json

\* one line per finished behaviour for the replay harness (harness/src/cli.rs runs the real binary)
Emit ==
  Done => PrintT(<<"REPLAY", ToJson([files |-> files, query |-> query, defs |-> defs, format |-> format, stdin |-> usestdin,
                                      stats |-> stats, cmdsrc |-> cmdsrc, follow |-> follow, col |-> ColOf(query), out |-> out, exit |-> exit])>>)
=============================================================================
