----------------------------- MODULE Trace_Sem -----------------------------
(***************************************************************************)
(* impl -> spec, semantic, for Sem.tla (C03 C04 C08) over tables nobody     *)
(* wrote by hand.                                                          *)
(*                                                                         *)
(* Each event is one statement over one random table definition (the       *)
(* generator of the extraction traces: any pattern, columns of any type)   *)
(* and 2-8 random lines.  It records the rows the engine extracted from    *)
(* the lines (`envs`: column name -> value; judged on their own by         *)
(* Trace_Extract.tla), the statement as a tree -- projections of           *)
(* expressions that fit the column types, WHERE, DISTINCT, GROUP BY on     *)
(* columns of any type, every aggregate that fits its argument, HAVING --  *)
(* and the typed result of feeding the lines one by one to the statement's *)
(* engine.  The meaning of the statement over those rows is computed here  *)
(* with Sem.tla (SelectAll / AggTable) and must be the observed result;    *)
(* where Sem.tla does not predict the outcome (Unk) only an orderly end is *)
(* required.                                                               *)
(***************************************************************************)
EXTENDS Sem, Json, IOUtils
Evs == ndJsonDeserialize(IOEnv.TRACE)
VARIABLE l
TraceInit == TLCSet(1, 1) /\ TLCSet(2, 0) /\ l = 1
Meaning(e) == IF e.q.kind = "agg" THEN AggTable(e.q, e.envs) ELSE SelectAll(e.q, e.envs, e.star, <<>>)
Known(st) == st \in {"ok", "err"}
\* The open finding AggEmptyGroupDropped (KNOWN_FINDINGS.txt), declaratively: as built a group exists for the result only once one of its aggregates
\* (select list or HAVING) has an entry -- COUNT(c) / COUNT(DISTINCT c) / BOOL_AND / BOOL_OR / STRING_AGG / PERCENTILE have one only after a non-NULL
\* argument, the others always.  The as-built table is the meaning of the statement over the rows of the visible groups.
RECURSIVE HavingAggs(_)
HavingAggs(h) == CASE h.h = "agg" -> <<h.it>> [] h.h \in {"and", "or"} -> HavingAggs(h.l) \o HavingAggs(h.r) [] OTHER -> <<>>
AggItems(q) == SelectSeq(q.items, LAMBDA it : it.a # "key") \o HavingAggs(q.having)
Entry(it, genvs) ==
  CASE it.a \in {"count", "count_distinct"} -> \E i \in 1..Len(genvs) : it.col \in DOMAIN genvs[i] /\ ~IsNull(genvs[i][it.col])
    [] it.a \in {"bool_and", "bool_or", "string_agg", "percentile"} -> \E i \in 1..Len(genvs) : LET o == Eval(it.e, genvs[i]) IN o.k = "val" /\ ~IsNull(o.v)
    [] OTHER -> TRUE
AsBuiltEnvs(q, envs) ==
  LET qual(env) == Pass(q.where, env) = "yes"
      same(a, b) == LET ka == KeyOf(q, a) kb == KeyOf(q, b) IN ka[1] = "row" /\ kb[1] = "row" /\ KeyEq(ka[2], kb[2])
      groupOf(env) == SelectSeq(envs, LAMBDA x : qual(x) /\ same(env, x))
      visible(env) == LET g == groupOf(env) IN \E j \in 1..Len(AggItems(q)) : Entry(AggItems(q)[j], g)
  IN SelectSeq(envs, LAMBDA env : ~qual(env) \/ KeyOf(q, env)[1] # "row" \/ visible(env))
AsBuilt(e) == IF e.q.kind = "agg" THEN AggTable(e.q, AsBuiltEnvs(e.q, e.envs)) ELSE Meaning(e)
EventOK(e) ==
  IF e.open THEN e.out.st \in {"ok", "err"}
  ELSE LET s == Meaning(e)
       IN IF Known(s.st) THEN e.out.st = s.st /\ (s.st = "ok" => (e.out.recs = s.recs \/ e.out.recs = AsBuilt(e).recs))
          ELSE e.out.st \in {"ok", "err"}
Stated == /\ l <= Len(Evs) /\ Evs[l].ev = "stmt" /\ EventOK(Evs[l]) /\ l' = l + 1
          /\ TLCSet(2, TLCGet(2) + (IF ~Evs[l].open /\ Known(Meaning(Evs[l]).st) THEN 1 ELSE 0))
TraceNext == Stated
TraceSpec == TraceInit /\ [][TraceNext]_l
TraceUnfinished == l <= Len(Evs) \/ (PrintT(<<"TRACE-STATS", TLCGet(2), 0>>) /\ FALSE)
TrackProgress == TLCSet(1, IF TLCGet(1) < l THEN l ELSE TLCGet(1))
TraceRejectedAt == PrintT(<<"TRACE-REJECTED", "first unmatched event", TLCGet(1),
                            IF TLCGet(1) <= Len(Evs) THEN <<Evs[TLCGet(1)], "model says", Meaning(Evs[TLCGet(1)]), "or (as built)", AsBuilt(Evs[TLCGet(1)])>> ELSE <<"none">>>>)
=============================================================================
