----------------------------- MODULE Trace_Laws -----------------------------
(***************************************************************************)
(* impl -> spec, relational: the trace holds several runs of the real code *)
(* on the repository's own corpora and queries (and generated ones) and    *)
(* this module checks the LAW that must hold between them.  No model of    *)
(* expression semantics is needed, so arbitrary queries can be used.       *)
(*                                                                         *)
(*   Base      a reference run: records printed (each a canonical string)  *)
(*   Noise     same query, non-admitted lines inserted          (C06)      *)
(*   Limit     same query with LIMIT n                          (C07)      *)
(*   Concat    same input cut into several files                (C12)      *)
(*   Perm      aggregate query, lines shuffled                  (C15)      *)
(*   Prefix    incremental output after k lines vs batch run    (C11)      *)
(*   Repeat    the same run again / in another process          (C18)      *)
(*   Layout    the query text re-laid out                       (C20)      *)
(*   Combine   aggregate table of x, of y and of x \o y         (C15)      *)
(*   Interrupt run interrupted at a line boundary               (C19)      *)
(***************************************************************************)
EXTENDS Integers, Sequences, TLC, Json, IOUtils

Rec == ndJsonDeserialize(IOEnv.TRACE)
VARIABLES l, base, agg
tvars == <<l, base, agg>>

TraceInit == TLCSet(1, 1) /\ l = 1 /\ base = <<>> /\ agg = FALSE
Ev(e) == l <= Len(Rec) /\ Rec[l].ev = e
Law(w) == Ev("law") /\ Rec[l].law = w
Step == l' = l + 1 /\ UNCHANGED <<base, agg>>

Take(n, s) == IF n >= Len(s) THEN s ELSE SubSeq(s, 1, n)
IsPrefix(a, b) == Len(a) <= Len(b) /\ SubSeq(b, 1, Len(a)) = a

Base == Ev("base") /\ Rec[l].status = "ok" /\ base' = Rec[l].out /\ agg' = Rec[l].agg /\ l' = l + 1

Noise  == Law("noise")  /\ Rec[l].status = "ok" /\ Rec[l].out = base /\ Step
Concat == Law("concat") /\ Rec[l].status = "ok" /\ Rec[l].out = base /\ Step
Perm   == Law("perm")   /\ Rec[l].status = "ok" /\ Rec[l].out = base /\ Step
Repeat == Law("repeat") /\ Rec[l].status = "ok" /\ Rec[l].out = base /\ Step
Layout == Law("layout") /\ Rec[l].status = "ok" /\ Rec[l].out = base /\ Step

\* LIMIT n: exactly the first n records; a SELECT consumes no line beyond the one producing the n-th row
Limit ==
  /\ Law("limit") /\ Rec[l].status = "ok"
  /\ Rec[l].out = Take(Rec[l].n, base)
  /\ (~agg => (Rec[l].consumed <= Rec[l].needed))
  /\ Step

\* C11: incremental = batch over the same prefix
Prefix == Law("prefix") /\ Rec[l].incr = Rec[l].batch /\ Step

\* C19: everything printed is a prefix of the uninterrupted output, no line is consumed after the interrupt, no error
Interrupt ==
  /\ Law("interrupt") /\ Rec[l].status = "ok"
  /\ (~agg => IsPrefix(Rec[l].out, base))
  /\ (agg => Rec[l].out = Rec[l].batch_of_consumed)
  /\ Rec[l].consumed <= Rec[l].at
  /\ Step

\* C15: key-wise combination of the tables over two parts: rows are [k, c, s, lo, hi] with s / lo / hi = [n (is NULL), v]
NullN == [n |-> TRUE, v |-> 0]
AddN(a, b) == IF a.n THEN b ELSE IF b.n THEN a ELSE [n |-> FALSE, v |-> a.v + b.v]
MinN(a, b) == IF a.n THEN b ELSE IF b.n THEN a ELSE IF a.v < b.v THEN a ELSE b
MaxN(a, b) == IF a.n THEN b ELSE IF b.n THEN a ELSE IF a.v > b.v THEN a ELSE b
RowFor(t, k) == LET hit == SelectSeq(t, LAMBDA r : r.k = k) IN IF hit = <<>> THEN [k |-> k, c |-> 0, s |-> NullN, lo |-> NullN, hi |-> NullN] ELSE hit[1]
CombineOK(x, y, xy) ==
  /\ \A i \in 1..Len(xy) : LET k == xy[i].k a == RowFor(x, k) b == RowFor(y, k)
                           IN /\ (\E j \in 1..Len(x) : x[j].k = k) \/ (\E j \in 1..Len(y) : y[j].k = k)       \* the set of groups is the union
                              /\ xy[i].c = a.c + b.c                                                        \* counts add
                              /\ xy[i].s = AddN(a.s, b.s)                                                   \* sums add
                              /\ xy[i].lo = MinN(a.lo, b.lo) /\ xy[i].hi = MaxN(a.hi, b.hi)                 \* minima and maxima combine
  /\ \A j \in 1..Len(x) : \E i \in 1..Len(xy) : xy[i].k = x[j].k
  /\ \A j \in 1..Len(y) : \E i \in 1..Len(xy) : xy[i].k = y[j].k
Combine == Law("combine") /\ CombineOK(Rec[l].x, Rec[l].y, Rec[l].xy) /\ Step

TraceNext == Base \/ Noise \/ Concat \/ Perm \/ Repeat \/ Layout \/ Limit \/ Prefix \/ Interrupt \/ Combine
TraceSpec == TraceInit /\ [][TraceNext]_tvars
TraceUnfinished == l <= Len(Rec)
TrackProgress == TLCSet(1, IF TLCGet(1) < l THEN l ELSE TLCGet(1))
TraceRejectedAt == PrintT(<<"TRACE-REJECTED", "first unmatched event", TLCGet(1), IF TLCGet(1) <= Len(Rec) THEN Rec[TLCGet(1)] ELSE "none">>)
=============================================================================
