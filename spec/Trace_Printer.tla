--------------------------- MODULE Trace_Printer ---------------------------
(***************************************************************************)
(* impl -> spec for Printer.tla (C17) over random results.                 *)
(*                                                                         *)
(* Each event is one OutputPrinter: its format, the print() calls it got   *)
(* (random column names; random values of every type -- 64-bit integers,   *)
(* any finite or non-finite REAL, TEXT with control characters, quotes and *)
(* delimiters, arrays, timestamps that often fall into the same second as  *)
(* the one printed before, intervals) and the lines it printed.  A JSON    *)
(* line is decoded by serde_json (the trusted base): names, and cells with *)
(* numbers in a canonical exact text.                                      *)
(*                                                                         *)
(* The event is replayed through the specification's own action: LoadCalls      *)
(* puts the calls into Printer.tla's variables, PrintResult is taken once  *)
(* per call, CompareLines demands that the lines the model printed are the      *)
(* recorded ones -- header once, every row once and in order, separators,  *)
(* the text of every record where Expr.Show gives one (TEXT, BOOLEAN,      *)
(* NULL, small integers, timestamps, intervals, arrays of them), one field *)
(* per column in CSV, and in JSON the names in order and every cell        *)
(* recovering the value: numbers exactly (2^63 written as                  *)
(* 9223372036854775807 is another number), timestamps / intervals as their *)
(* text form, non-finite REALs as any string or null.                      *)
(***************************************************************************)
EXTENDS Printer, Json, IOUtils
Evs == ndJsonDeserialize(IOEnv.TRACE)
VARIABLES l, loaded
tpvars == <<pvars, l, loaded>>

RECURSIVE JCell(_)
JCell(c) ==
  CASE c.t = "null" -> [k |-> "null"]
    [] c.t = "bool" -> [k |-> "bool", b |-> c.v]
    [] c.t = "int"  -> [k |-> "num", cp |-> IntTextB(c)]
    [] c.t = "num"  -> IF c.fin THEN [k |-> "num", cp |-> c.cp] ELSE [k |-> "any"]
    [] c.t = "text" -> [k |-> "str", s |-> c.s]
    [] c.t \in {"ts", "iv"} -> IF Show(c) = NoText THEN [k |-> "anystr"] ELSE [k |-> "str", s |-> Show(c)]
    [] c.t = "arr"  -> [k |-> "arr", xs |-> [i \in 1..Len(c.xs) |-> JCell(c.xs[i])]]
RECURSIVE CellOK(_, _)
CellOK(exp, got) ==
  IF exp.k = "any" THEN got.k \in {"str", "null"}
  ELSE IF exp.k = "anystr" THEN got.k = "str"
  ELSE IF exp.k = "arr" THEN got.k = "arr" /\ Len(got.xs) = Len(exp.xs) /\ \A i \in 1..Len(exp.xs) : CellOK(exp.xs[i], got.xs[i])
  ELSE exp = got

LineOK(o, ln) ==
  CASE o.k = "sep" -> ln.s = <<>>
    [] o.k = "hdr" -> ln.s = o.s
    [] o.k = "rec" ->
         IF fmt = "json"
         THEN /\ ln.rec.ok /\ ln.rec.names = o.cols /\ Len(ln.rec.cells) = Len(o.row)
              /\ \A j \in 1..Len(o.row) : CellOK(JCell(o.row[j]), ln.rec.cells[j])
         ELSE /\ (o.s # NoText => ln.s = o.s)
              /\ ln.s # <<>>
              /\ (fmt = "csv" => Len(SelectSeq(ln.s, LAMBDA c : c = 59)) = Len(o.row) - 1)        \* one field per column

TraceInit == /\ TLCSet(1, 1) /\ l = 1 /\ loaded = FALSE
             /\ fmt = "text" /\ calls = <<>> /\ ci = 0 /\ firstLine = TRUE /\ outp = <<>>
LoadCalls ==
  /\ ~loaded /\ l <= Len(Evs) /\ Evs[l].ev = "print" /\ ~Evs[l].panic
  /\ fmt' = Evs[l].fmt /\ calls' = Evs[l].calls /\ ci' = 0 /\ firstLine' = TRUE /\ outp' = <<>>       \* a new OutputPrinter
  /\ loaded' = TRUE /\ UNCHANGED l
PrintStep == loaded /\ PrintResult /\ UNCHANGED <<l, loaded>>
CompareLines ==
  /\ loaded /\ ci = Len(calls)
  /\ Len(outp) = Len(Evs[l].lines)
  /\ \A i \in 1..Len(outp) : LineOK(outp[i], Evs[l].lines[i])
  /\ loaded' = FALSE /\ l' = l + 1 /\ UNCHANGED pvars
TraceNext == LoadCalls \/ PrintStep \/ CompareLines
TraceSpec == TraceInit /\ [][TraceNext]_tpvars
TraceUnfinished == l <= Len(Evs)
TrackProgress == TLCSet(1, IF TLCGet(1) < l THEN l ELSE TLCGet(1))
TraceRejectedAt == PrintT(<<"TRACE-REJECTED", "first unmatched event", TLCGet(1), IF TLCGet(1) <= Len(Evs) THEN Evs[TLCGet(1)] ELSE "none">>)
=============================================================================
