----------------------------- MODULE MC_Printer -----------------------------
EXTENDS Printer, Json

N(s) == s
cA == <<97>>           \* column "a"
cB == <<98, 98>>       \* column "bb"
cInput == <<105, 110, 112, 117, 116>>
PCall(cols, rows, single) == [cols |-> cols, rows |-> rows, single |-> single]

T(s) == TextV(s)
Vals1 == {Null, IntV(0), IntV(-12), MaxV(0), MinV(0), BoolV(TRUE), T(<<>>), T(<<120, 121>>), T(<<233>>),
          T(<<39>>), T(<<34, 59>>), T(<<10>>), T(<<9, 92>>), T(<<128512>>),
          T(<<304, 223, 8490, 64257>>), T(<<160, 120, 8195>>), T(<<128512, 769>>),
          \* TEXT that reads like JSON (a document, a number, a literal) stays a string
          T(<<91, 52, 50, 52, 50, 93>>), T(<<123, 125>>), T(<<123, 34, 97, 34, 58, 49, 125>>), T(<<91, 49, 46, 53, 48, 44, 34, 120, 34, 93>>), T(<<110, 117, 108, 108>>), T(<<116, 114, 117, 101>>), T(<<49, 50>>), T(<<34, 113, 34>>),
          \* control characters without a short JSON escape (ESC, NUL, BEL, US, DEL), CR, \b \f, line separator U+2028, BOM, backslash + quote, the last code point
          T(<<27, 91, 48, 109>>), T(<<0>>), T(<<7, 97>>), T(<<31>>), T(<<127>>), T(<<13>>), T(<<8, 12>>), T(<<8232>>), T(<<65279>>), T(<<92, 34>>), T(<<1114111>>), RealV(3, 2), RealV(1, 1), RealV(-1, 4), NaN, PInf, NZero,
          \* REALs at and beyond the ends of the 64-bit integers, and the first REAL that is no longer every integer: recovered exactly from the JSON number
          P63, N63, E19, NE19, E300, P53b, I53(1), I31(5),
          IvV(0), IvV(3723004), IvV(86400000), IvV(180930000), TsV(<<2021, 3, 4, 5, 6, 7, 89000>>), TsV(<<1999, 12, 31, 23, 59, 59, 999000>>),
          ArrV("int", <<IntV(1), Null, IntV(2)>>), ArrV("text", <<T(<<97>>), T(<<34>>)>>)}
ValsSmall == {Null, IntV(7), T(<<120>>)}

\* results: 0..3 rows x 1..2 columns
OneCol == {PCall(<<cA>>, <<>>, s) : s \in BOOLEAN}
          \cup {PCall(<<cA>>, <<<<v>>>>, s) : v \in Vals1, s \in BOOLEAN}
          \cup {PCall(<<cInput>>, <<<<v>>>>, FALSE) : v \in {T(<<108, 49>>), T(<<>>), Null}}
          \cup {PCall(<<cInput>>, <<<<T(<<108, 49>>)>>, <<T(<<108, 50>>)>>>>, FALSE)}
TwoCol == {PCall(<<cA, cB>>, <<<<v, w>>>>, FALSE) : v \in ValsSmall, w \in ValsSmall}
          \cup {PCall(<<cA, cB>>, <<<<v, IntV(1)>>, <<Null, v>>>>, s) : v \in ValsSmall, s \in BOOLEAN}
          \cup {PCall(<<cA, cB>>, <<<<v, IntV(1)>>, <<Null, v>>, <<v, v>>>>, TRUE) : v \in ValsSmall}
          \cup {PCall(<<cInput, cB>>, <<<<T(<<108>>), IntV(1)>>>>, FALSE)}
\* timestamps within one second that differ in their fraction, printed one after the other (in one result, in consecutive results, next to another column)
Ts125 == TsV(<<2021, 3, 4, 10, 20, 30, 125000>>)
Ts750 == TsV(<<2021, 3, 4, 10, 20, 30, 750000>>)
TsRows == {PCall(<<cA>>, <<<<Ts125>>, <<Ts750>>, <<Ts125>>>>, s) : s \in BOOLEAN} \cup {PCall(<<cA, cB>>, <<<<Ts125, IntV(1)>>, <<Ts750, IntV(2)>>>>, TRUE),
          PCall(<<cA, cB>>, <<<<Ts750, Ts125>>, <<Ts125, Ts750>>>>, FALSE), PCall(<<cA>>, <<<<ArrV("ts", <<Ts125, Ts750>>)>>, <<Ts750>>>>, FALSE)}
MenuAll == OneCol \cup TwoCol \cup TsRows
MenuSeq == {PCall(<<cA>>, <<>>, FALSE), PCall(<<cA>>, <<<<IntV(1)>>>>, FALSE), PCall(<<cA>>, <<<<IntV(2)>>, <<Null>>>>, FALSE),
            PCall(<<cA>>, <<<<T(<<120>>)>>, <<IntV(3)>>>>, TRUE), PCall(<<cInput>>, <<<<T(<<108>>)>>>>, FALSE),
            PCall(<<cA>>, <<<<Ts125>>>>, FALSE), PCall(<<cA>>, <<<<Ts750>>>>, FALSE)}

Emit == ci = Len(calls) => PrintT(<<"REPLAY", ToJson([fmt |-> fmt, calls |-> calls, out |-> outp])>>)
=============================================================================
