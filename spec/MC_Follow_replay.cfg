SPECIFICATION Spec
CONSTANTS MaxLen = 4
          Caps = {1, 2, 3, 8}
          MaxIdle = 1
          WithInterrupt = FALSE
          FreeAppend = FALSE
          Dev = {"FollowUtf8Split"}
INVARIANTS TypeOK Emit
CHECK_DEADLOCK FALSE
