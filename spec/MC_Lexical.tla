----------------------------- MODULE MC_Lexical -----------------------------
EXTENDS Lexical, Json
\* the swap action does not count as a layout edit when only permutations are explored
Emit == PrintT(<<"REPLAY", ToJson([si |-> si, text |-> Render, base |-> LexemesIn(Identity(Len(Stmt.clauses))),
                                    perm |-> perm, semi |-> semi, edits |-> edits])>>)
view == <<si, perm, cas, sep, lead, trail, semi>>

=============================================================================
