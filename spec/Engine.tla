-------------------------------- MODULE Engine --------------------------------
(***************************************************************************)
(* The operational machine, shaped like the code:                          *)
(*   FileExecutor::execute      (src/executor.rs)      batch driver        *)
(*   ExecutionEngine::execute   (execution_engine.rs)  per-line step       *)
(*   Select/AggregateExecutionEngine, join.rs          running state       *)
(*                                                                         *)
(* action            code                                                  *)
(*   LoadJoinLine    join.rs JoinedTableData::execute, one joined line     *)
(*                   (running sampled at lines 10, 20, ...)                *)
(*   ReadLine        executor.rs: next line of the current file, limit     *)
(*                   check, hook point, running check, then ExecLine =     *)
(*                   Extract . Admit . JoinFanOut . Filter . (Project |    *)
(*                   UpdateAggregates) . Distinct . CountLimit . Print     *)
(*   NextFile        end of a reader, move to the next one                 *)
(*   Final           executor.rs: the table of an aggregate statement      *)
(*   Interrupt       main.rs ctrl-c handler: running := FALSE              *)
(*                                                                         *)
(* mode "batch" = FileExecutor; mode "incr" = one ExecutionEngine::execute *)
(* per line with update+result (what follow mode does): C11.               *)
(* The environment's choices (statement, table variant, input files,      *)
(* joined file, interrupt point) are made in Init, so every behaviour is   *)
(* one deterministic run that the harness can replay.                      *)
(***************************************************************************)
EXTENDS Sem

EngineDevNames == {"LimitPerFile", "LimitAfterEmit", "LimitSkipsNullRows", "LimitNoTruncate", "JoinNullKeys", "AggEmptyGroupDropped"}

\* ------------------------------------------------------------------ tables and lines
\* main table t(k TEXT, v INT) over lines  k=<word> v=<int> ; joined table u(k TEXT, w INT)
KV(k, v)  == [kind |-> "kv", k |-> k, v |-> v]
\* a byte order mark (U+FEFF) in front of the text of a row: part of the line like any other character, wherever in the file the line stands
BomPre    == [kind |-> "longpre", n |-> 1, c |-> 65279]
\* the text of a row followed by further characters (blanks, a tab, a carriage return in the middle of the file's line ...): part of the line for every reader,
\* a row for an unanchored pattern, noise for table variant "anch"
KVPost(k, v, post) == [kind |-> "kvpost", k |-> k, v |-> v, post |-> post]
Garbage   == [kind |-> "garbage"]
Empty     == [kind |-> "empty"]
Near      == [kind |-> "near"]
BigV      == [kind |-> "bigv"]          \* "k= v=99999999999999999999": the value group takes part but is no INT literal -> NULL (a DEFAULT does not apply), k absent
LongPre(n) == [kind |-> "longpre", n |-> n, c |-> 35]     \* n filler bytes followed by the text of a row: a row for an unanchored pattern, noise for table variant "anch" (^...$)

Asc(s) == s      \* texts are sequences of code points already

\* the text of a value in column v: an INT, or (table variant "vreal": v REAL) a REAL written with two decimals
VText(v) == IF v.t = "real" THEN TextOf(v) ELSE IntTextB(v)
LineText(l) ==
  CASE l.kind = "kv" -> <<107, 61>> \o (IF IsNull(l.k) THEN <<>> ELSE l.k.s) \o <<32, 118, 61>> \o (IF IsNull(l.v) THEN <<>> ELSE VText(l.v))
    [] l.kind = "kvpost" -> <<107, 61>> \o (IF IsNull(l.k) THEN <<>> ELSE l.k.s) \o <<32, 118, 61>> \o (IF IsNull(l.v) THEN <<>> ELSE VText(l.v)) \o l.post
    [] l.kind = "garbage" -> <<35, 35, 35>>
    [] l.kind = "empty" -> <<>>
    [] l.kind = "near" -> <<107, 61, 97, 32, 118, 49>>            \* "k=a v1": one character short of a match
    [] l.kind = "bigv" -> <<107, 61, 32, 118, 61>> \o [i \in 1..20 |-> 57]
    [] l.kind = "longpre" -> [i \in 1..l.n |-> l.c] \o <<107, 61, 97, 32, 118, 61, 49>>

\* the row a table variant extracts: <<admitted, k, v>>
\*   "plain": both nullable;  "knn": k NOT NULL;  "vdef": v INT DEFAULT 7;  "bothnn": k NOT NULL and v NOT NULL;
\*   "nndef": k NOT NULL and v INT DEFAULT 7 (a line that matches nothing has the default and still fails NOT NULL);
\*   "udef": the JOINED table's column w has DEFAULT 7 (rows of the joined file get it; the NULL row of an OUTER JOIN does not);
\*   "anch": the pattern is anchored at both ends of the line (^...$);  "vreal": v is a REAL column (lines carry REAL values)
RowOf(tdef, l) ==
  LET k == IF l.kind = "kv" \/ (l.kind = "kvpost" /\ tdef # "anch") THEN l.k ELSE IF l.kind = "longpre" /\ tdef # "anch" THEN TextV(<<97>>) ELSE Null
      v0 == IF l.kind = "kv" \/ (l.kind = "kvpost" /\ tdef # "anch") THEN l.v ELSE IF l.kind = "longpre" /\ tdef # "anch" THEN IntV(1) ELSE Null
      v == IF tdef \in {"vdef", "nndef"} /\ IsNull(v0) /\ l.kind # "bigv" THEN IntV(7) ELSE v0        \* DEFAULT: only when the group took no part
      admitted == (~IsNull(k) \/ ~IsNull(v)) /\ (tdef \in {"knn", "bothnn", "nndef"} => ~IsNull(k)) /\ (tdef = "bothnn" => ~IsNull(v))
  IN <<admitted, k, v>>

MainEnv(tdef, l) ==
  LET r == RowOf(tdef, l)
  IN [n \in {"k", "v", "t.k", "t.v", "input"} |->
        CASE n \in {"k", "t.k"} -> r[2] [] n \in {"v", "t.v"} -> r[3] [] OTHER -> TextV(LineText(l))]

\* ------------------------------------------------------------------ variables
VARIABLES tdef, q, files, jlines, mode, intr,      \* the environment's choices (fixed per behaviour)
          pc,                \* "loadjoin" | "read" | "final" | "done"
          running,           \* the AtomicBool shared with the ctrl-c handler
          ji, jidx,          \* joined lines loaded; buckets <<[key, rows]>> in first-appearance order
          fi, li,            \* current file, lines of it already read
          hooks,             \* hook invocations so far (line boundaries seen by the driver)
          consumed,          \* statistics().total_lines
          seen,              \* DISTINCT memory (tuples)
          nout,              \* rows counted against LIMIT
          groups,            \* aggregate state: <<[key, st]>>, st = one running state per aggregate
          printed,           \* records printed so far, in order
          steps,             \* incr mode: the output of each line (observation)
          status,            \* "ok" | "err" | "unk" | "panic"
          closed             \* Lazy only: the environment has finished writing the input

cvars == <<tdef, q, files, jlines, mode, intr>>

\* table variant "selfj": the table is joined with ITSELF (FROM t INNER JOIN t::'file' ON t.k = t.k).  Every joined column clashes with a queried one, so the joined
\* row is addressable by the table-qualified names only (t.k, t.v: the joined row) and the plain names stay with the queried row (k, v, input)
MergeEnv(env, s) ==        \* s = <<k, w>> of the joined side; a clashing name stays with the queried table
  IF tdef = "selfj" THEN [n \in DOMAIN env |-> CASE n = "t.k" -> s[1] [] n = "t.v" -> s[2] [] OTHER -> env[n]]
  ELSE [n \in DOMAIN env \cup {"w", "u.k", "u.w"} |->
          CASE n = "u.k" -> s[1] [] n \in {"w", "u.w"} -> s[2] [] OTHER -> env[n]]

StarCols(st) == IF st.join = "none" THEN <<"k", "v">> ELSE IF tdef = "selfj" THEN <<"k", "v", "t.k", "t.v">> ELSE <<"k", "v", "u.k", "w">>

ColNames(st) ==
  IF st.kind = "select"
  THEN IF st.star THEN StarCols(st)
       ELSE [i \in 1..Len(st.proj) |-> IF st.proj[i].as # "" THEN st.proj[i].as
                                      ELSE IF st.proj[i].e.op = "col" THEN st.proj[i].e.name
                                      ELSE "p" \o ToString(i - 1)]
  ELSE [i \in 1..Len(st.items) |-> st.items[i].as]

vars == <<cvars, pc, running, ji, jidx, fi, li, hooks, consumed, seen, nout, groups, printed, steps, status, closed>>

\* u(k, w): same line format, column v is called w.  Table variant "numjoin": w is REAL and the join is ON t.v = u.w
\* (an INT key looked up among REAL keys: equal numbers must meet whatever their type)
ToReal(v) == IF IsNull(v) THEN Null
             ELSE IF v.b = 0 THEN RealV(v.i, 1)
             ELSE IF v.b = 3 THEN (IF v.i = 2 THEN P53b ELSE IF v.i \in {0, 1} THEN P53 ELSE [t |-> "unk"])    \* 2^53 + 1 is not a REAL: it reads as 2^53
             ELSE [t |-> "unk"]
\* Table variant "ukdef": the joined table's KEY column has a DEFAULT ('a'): every line of the joined file is a row of it -- also an empty line or one that matches
\* nothing -- and takes part in the join under that key
JoinedRow(l) == IF tdef = "ukdef" THEN (LET r == RowOf("plain", l) IN <<TRUE, IF IsNull(r[2]) THEN TextV(<<97>>) ELSE r[2], r[3]>>)
                ELSE LET r == RowOf(IF tdef = "udef" THEN "vdef" ELSE "plain", l) IN IF tdef = "numjoin" THEN <<r[1], r[2], ToReal(r[3])>> ELSE r
JKeyMain(env) == IF tdef = "numjoin" THEN env["v"] ELSE env["k"]
JKeyJoined(s) == IF tdef = "numjoin" THEN s[2] ELSE s[1]

BadJoinKind(j) == j \in {"badfile", "badcol", "dirfile", "badqcol", "badqcolouter"}
HasLimit == q.limit # NoLimit
LimitReached == HasLimit /\ nout >= q.limit
IsAgg == q.kind = "agg"

\* ------------------------------------------------------------------ running aggregate state
St(n, acc, vals, bad) == [n |-> n, acc |-> acc, vals |-> vals, bad |-> bad]
St0 == St(0, Null, <<>>, "ok")

\* all aggregates whose state is kept per group: the select list's, then HAVING's
RECURSIVE HavingItems(_)
HavingItems(h) == CASE h.h = "agg" -> <<h.it>> [] h.h \in {"and", "or"} -> HavingItems(h.l) \o HavingItems(h.r) [] OTHER -> <<>>
AllItems == q.items \o HavingItems(q.having)

UpdateSt(it, st, env) ==
  IF st.bad # "ok" THEN st
  ELSE CASE it.a = "key" -> st
    [] it.a = "count_star" -> St(st.n + 1, st.acc, st.vals, "ok")
    [] it.a \in {"count", "count_distinct"} ->
         IF it.col \notin DOMAIN env THEN St(st.n, st.acc, st.vals, "err")
         ELSE LET v == env[it.col]
              IN IF IsNull(v) THEN st
                 ELSE IF it.a = "count" THEN St(st.n + 1, st.acc, st.vals, "ok")
                 ELSE IF \E i \in 1..Len(st.vals) : EqB(st.vals[i], v) THEN st
                 ELSE St(st.n + 1, st.acc, Append(st.vals, v), "ok")
    [] OTHER ->
         LET o == Eval(it.e, env)
         IN IF o.k # "val" THEN St(st.n, st.acc, st.vals, o.k)
            ELSE LET v == o.v
                 IN CASE it.a \in {"sum", "avg"} ->
                           IF IsNull(v) THEN st
                           ELSE IF IsNull(st.acc) THEN St(st.n + 1, v, st.vals, IF v.t \in {"int", "real", "iv"} THEN "ok" ELSE "unk")
                           ELSE LET r == ArithV("+", st.acc, v)
                                IN IF r.k = "val" THEN St(st.n + 1, r.v, st.vals, "ok")
                                   ELSE St(st.n, st.acc, st.vals, IF st.acc.t # v.t THEN "unk" ELSE r.k)
                      [] it.a \in {"min", "max"} ->
                           IF IsNull(v) THEN st
                           ELSE IF IsNull(st.acc) THEN St(st.n + 1, v, st.vals, "ok")
                           ELSE IF ~Comparable(st.acc, v) THEN St(st.n, st.acc, st.vals, "unk")
                           ELSE LET c == CmpB(v, st.acc)
                                IN St(st.n + 1, IF (it.a = "max" /\ c > 0) \/ (it.a = "min" /\ c < 0) THEN v ELSE st.acc, st.vals, "ok")
                      [] it.a \in {"bool_and", "bool_or"} ->
                           IF IsNull(v) THEN st
                           ELSE IF v.t # "bool" THEN St(st.n, st.acc, st.vals, "err")
                           ELSE IF IsNull(st.acc) THEN St(st.n + 1, v, st.vals, "ok")
                           ELSE St(st.n + 1, BoolV(IF it.a = "bool_and" THEN st.acc.v /\ v.v ELSE st.acc.v \/ v.v), st.vals, "ok")
                      [] it.a = "string_agg" ->
                           IF IsNull(v) THEN st
                           ELSE IF v.t # "text" THEN St(st.n, st.acc, st.vals, "err")
                           ELSE IF v.s = <<>> THEN St(st.n, st.acc, st.vals, "unk")
                           ELSE IF IsNull(st.acc) THEN St(st.n + 1, v, st.vals, "ok")
                           ELSE St(st.n + 1, TextV(st.acc.s \o it.delim \o v.s), st.vals, "ok")
                      [] it.a = "array_agg" ->
                           IF st.vals = <<>> /\ IsNull(v) THEN St(st.n, st.acc, st.vals, "unk")
                           ELSE IF st.vals # <<>> /\ ~IsNull(v) /\ \E i \in 1..Len(st.vals) : ~IsNull(st.vals[i]) /\ ElemTypeOf(st.vals[i]) # ElemTypeOf(v)
                                THEN St(st.n, st.acc, st.vals, "unk")
                           ELSE St(st.n + 1, st.acc, Append(st.vals, v), "ok")
                      [] it.a \in {"percentile", "variance", "stddev"} ->
                           IF IsNull(v) THEN st ELSE St(st.n + 1, st.acc, Append(st.vals, v), "ok")

\* the value an aggregate shows, from its running state
ResultSt(it, st) ==
  IF st.bad # "ok" THEN [k |-> st.bad]
  ELSE CASE it.a \in {"count_star", "count", "count_distinct"} -> Val(IntV(st.n))
    [] it.a \in {"sum", "min", "max", "bool_and", "bool_or", "string_agg"} -> Val(st.acc)
    [] it.a = "avg" ->
         IF IsNull(st.acc) THEN Val(Null)
         ELSE IF st.acc.t = "int" THEN (IF st.acc.b # 0 THEN Unk ELSE Val(IntV(TruncDiv(st.acc.i, st.n))))
         ELSE IF st.acc.t = "iv" THEN (IF st.acc.ms % st.n = 0 THEN Val(IvV(st.acc.ms \div st.n)) ELSE Unk)
         ELSE IF st.acc.c = "fin" /\ IsPow2(st.n) THEN (LET r == RealRes(st.acc.n, st.acc.d * st.n) IN IF r.t = "unk" THEN Unk ELSE Val(r))
         ELSE Unk
    [] it.a = "array_agg" ->
         LET nn == NonNull(st.vals) IN Val(ArrV(ElemTypeOf(nn[1]), st.vals))
    [] it.a \in {"percentile", "variance", "stddev"} ->
         \* evaluated from the collected values when the table is built (GroupAggregator::update_value)
         AggValue([it EXCEPT !.e = Col("$x")], [i \in 1..Len(st.vals) |-> [n \in {"$x"} |-> st.vals[i]]])

\* As built, an aggregate keeps a per-group entry only once it has something to show; a group none of
\* whose aggregates (select list and HAVING) has an entry does not exist for the result builder.
HasEntry(it, st) ==
  CASE it.a = "key" -> FALSE
    [] it.a \in {"count", "count_distinct", "bool_and", "bool_or", "string_agg"} -> st.n > 0
    [] it.a = "percentile" -> st.vals # <<>>
    [] OTHER -> TRUE
GroupVisible(g) == "AggEmptyGroupDropped" \notin Dev \/ \E i \in 1..Len(AllItems) : HasEntry(AllItems[i], g.st[i])

CellSt(it, st, key, keyEnv) ==
  IF it.a = "key" THEN Eval(it.e, keyEnv)
  ELSE LET o == ResultSt(it, st)
       IN IF o.k # "val" \/ it.wrap = NoE THEN o ELSE Eval(it.wrap, [n \in {"$value"} |-> o.v])

\* HAVING on the running state: aggregates inside HAVING are the states after the select list's, in order
RECURSIVE HavingSt(_, _, _, _)
HavingSt(h, sts, base, keyEnv) ==     \* <<verdict, number of having aggregates consumed>>
  CASE h.h = "none" -> <<"yes", 0>>
    [] h.h = "agg" -> LET o == ResultSt(h.it, sts[base + 1])
                      IN IF o.k # "val" THEN <<o.k, 1>>
                         ELSE LET c == Compare(h.f, o.v, h.c) IN <<IF c.k # "val" THEN c.k ELSE IF c.v.v THEN "yes" ELSE "no", 1>>
    [] h.h = "key" -> LET o == Eval(h.e, keyEnv)
                      IN IF o.k # "val" THEN <<o.k, 0>>
                         ELSE LET c == Compare(h.f, o.v, h.c) IN <<IF c.k # "val" THEN c.k ELSE IF c.v.v THEN "yes" ELSE "no", 0>>
    [] h.h = "keynull" -> LET o == Eval(h.e, keyEnv) IN <<IF o.k # "val" THEN o.k ELSE IF IsNull(o.v) # h.neg THEN "yes" ELSE "no", 0>>
    [] h.h \in {"and", "or"} ->
         LET l == HavingSt(h.l, sts, base, keyEnv)
             r == HavingSt(h.r, sts, base + l[2], keyEnv)
         IN IF l[1] \notin {"yes", "no"} THEN <<l[1], l[2] + r[2]>>
            ELSE IF h.h = "and" /\ l[1] = "no" THEN <<"no", l[2] + r[2]>>
            ELSE IF h.h = "or" /\ l[1] = "yes" THEN <<"yes", l[2] + r[2]>>
            ELSE <<r[1], l[2] + r[2]>>

\* the table the engine would show now: groups in key order, HAVING, DISTINCT (fresh memory per table)
EngTableOf(groups_) ==
  LET vis == SelectSeq(groups_, GroupVisible)
      keys == SortKeys([i \in 1..Len(vis) |-> vis[i].key], <<>>)
      RECURSIVE rows(_, _)
      rows(ks, acc) ==
        IF ks = <<>> THEN Out(acc, "ok")
        ELSE LET g == groups_[CHOOSE i \in 1..Len(groups_) : KeyEq(groups_[i].key, Head(ks))]
                 RECURSIVE cells(_, _)
                 cells(i, cacc) == IF i > Len(q.items) THEN <<"row", cacc>>
                                   ELSE LET o == CellSt(q.items[i], g.st[i], g.key, g.kenv)
                                        IN IF o.k # "val" THEN <<o.k, cacc>> ELSE cells(i + 1, Append(cacc, o.v))
                 row == cells(1, <<>>)
                 h == HavingSt(q.having, g.st, Len(q.items), g.kenv)[1]
             IN IF row[1] # "row" THEN Out(acc, row[1])
                ELSE IF h = "no" THEN rows(Tail(ks), acc)
                ELSE IF h # "yes" THEN Out(acc, h)
                ELSE IF q.distinct /\ Seen(acc, row[2]) THEN rows(Tail(ks), acc)
                ELSE rows(Tail(ks), Append(acc, row[2]))
  IN rows(keys, <<>>)

\* ------------------------------------------------------------------ join index
Bucket(key) == LET hit == SelectSeq(jidx, LAMBDA b : EqB(b.key, key)) IN IF hit = <<>> THEN <<>> ELSE hit[1].rows

JoinedEnvs(env) ==      \* the environments one admitted row fans out to
  IF q.join = "none" THEN <<env>>
  ELSE LET key == JKeyMain(env)
           partners == IF IsNull(key) /\ "JoinNullKeys" \notin Dev THEN <<>> ELSE Bucket(key)
       IN IF partners # <<>> THEN [i \in 1..Len(partners) |-> MergeEnv(env, partners[i])]
          ELSE IF q.join = "outer" /\ ~IsAgg THEN <<MergeEnv(env, <<Null, Null>>)>>
          ELSE <<>>

\* ------------------------------------------------------------------ Init: the environment chooses
CONSTANTS Statements, TableDefs, LineSet, MaxLines, MaxFiles, JoinLineSets, Modes, InterruptPoints,
          Lazy,      \* TRUE: the input is not fixed in Init; lines arrive one by one (Arrive) until Close -- for random long inputs under `tlc -simulate`
          MinLines   \* Lazy only: the input is not closed before it has this many lines (long runs)

\* inputs given whole (a configuration overrides this with `FixedInputs <- ...`): long inputs beyond what Init can enumerate -- thousands of lines, more
\* groups / distinct rows than any in-memory shortcut of the code is sized for
FixedInputs == {}

RECURSIVE SeqsOf(_, _)
SeqsOf(S, n) == IF n = 0 THEN {<<>>} ELSE LET P == SeqsOf(S, n - 1) IN P \cup {Append(s, x) : s \in {p \in P : Len(p) = n - 1}, x \in S}

\* all ways of cutting a sequence of lines into 1..MaxFiles consecutive files
Splits(ls) ==
  IF MaxFiles = 1 THEN {<<ls>>}
  ELSE {<<ls>>} \cup {<<SubSeq(ls, 1, c), SubSeq(ls, c + 1, Len(ls))>> : c \in 0..Len(ls)}
       \cup (IF MaxFiles >= 3 THEN {<<SubSeq(ls, 1, cd[1]), SubSeq(ls, cd[1] + 1, cd[2]), SubSeq(ls, cd[2] + 1, Len(ls))>> :
                                       cd \in {x \in (0..Len(ls)) \X (0..Len(ls)) : x[1] <= x[2]}} ELSE {})

Init ==
  /\ q \in Statements
  /\ tdef \in TableDefs
  /\ IF FixedInputs # {} THEN files \in FixedInputs
     ELSE IF Lazy THEN files = <<<<>>>> ELSE \E ls \in SeqsOf(LineSet, MaxLines) : files \in Splits(ls)
  /\ closed = ~Lazy
  /\ jlines \in (IF q.join = "none" THEN {<<>>} ELSE JoinLineSets)
  /\ mode \in Modes
  /\ mode = "incr" => q.limit = NoLimit                     \* with a join: ExecutionEngine::with_executed_joined_table, then line by line
  /\ mode = "follow" => (q.join = "none" /\ Len(files) = 1)      \* FollowFileExecutor: one file, no join
  /\ intr \in InterruptPoints
  /\ (intr.at = "join") => q.join # "none"
  /\ (intr.at # "none") => mode = "batch"
  /\ BadJoinKind(q.join) => (mode = "batch" /\ intr.at = "none")
  /\ pc = "loadjoin"
  /\ running = TRUE
  /\ ji = 0 /\ jidx = <<>>
  /\ fi = 1 /\ li = 0 /\ hooks = 0 /\ consumed = 0
  /\ seen = <<>> /\ nout = 0 /\ groups = <<>>
  /\ printed = <<>> /\ steps = <<>> /\ status = "ok"

\* ------------------------------------------------------------------ actions
Interrupted(at, n) == intr.at = at /\ intr.n = n

\* q.join = "badfile" (the joined file does not exist) / "badcol" (ON names a column the joined table lacks): an error, whatever the input and the LIMIT
\* "dirfile": the joined path is a directory (it opens, every read fails): the run must end; its outcome is not predicted
\* "badqcol" / "badqcolouter": ON names a column the QUERIED table lacks (INNER / OUTER JOIN): an error as well -- also when the joined file is empty and when no
\* input line is ever admitted (the column is only needed once a line is looked up; the error may not wait for that)
BadJoin == q.join \in {"badfile", "badcol", "dirfile", "badqcol", "badqcolouter"}
JoinFails ==
  /\ pc = "loadjoin" /\ BadJoin
  /\ status' = (IF q.join = "dirfile" THEN "unk" ELSE "err") /\ pc' = "done"
  /\ UNCHANGED <<cvars, running, ji, jidx, fi, li, hooks, consumed, seen, nout, groups, printed, steps>>

LoadJoinLine ==
  /\ pc = "loadjoin" /\ ~BadJoin
  /\ IF q.join = "none" \/ ji >= Len(jlines)
     THEN /\ pc' = "read" /\ UNCHANGED <<ji, jidx, running>>
     ELSE LET run1 == running /\ ~Interrupted("join", ji)          \* hook join_line(ji): the interrupt may land here
          IN /\ running' = run1
             /\ IF ji > 0 /\ ji % 10 = 0 /\ ~run1
                THEN /\ pc' = "read" /\ UNCHANGED <<ji, jidx>>       \* sampled every 10th line: stop loading
                ELSE LET r == JoinedRow(jlines[ji + 1])
                     IN /\ ji' = ji + 1
                        /\ pc' = "loadjoin"
                        /\ LET jk == JKeyJoined(<<r[2], r[3]>>)
                           IN jidx' = IF ~r[1] THEN jidx
                                      ELSE IF \E i \in 1..Len(jidx) : EqB(jidx[i].key, jk)
                                           THEN [i \in 1..Len(jidx) |-> IF EqB(jidx[i].key, jk)
                                                                         THEN [key |-> jidx[i].key, rows |-> Append(jidx[i].rows, <<r[2], r[3]>>)] ELSE jidx[i]]
                                           ELSE Append(jidx, [key |-> jk, rows |-> <<<<r[2], r[3]>>>>])
  /\ UNCHANGED <<cvars, fi, li, hooks, consumed, seen, nout, groups, printed, steps, status>>

\* SELECT on the environments of one line: <<status, rows, seen'>>
RECURSIVE SelectLine(_, _, _)
SelectLine(envs, acc, sn) ==
  IF envs = <<>> THEN <<"ok", acc, sn>>
  ELSE LET r == SelectEnv(q, Head(envs), StarCols(q))
       IN IF r[1] = "skip" THEN SelectLine(Tail(envs), acc, sn)
          ELSE IF r[1] # "row" THEN <<r[1], acc, sn>>
          ELSE IF q.distinct /\ Seen(sn, r[2]) THEN SelectLine(Tail(envs), acc, sn)
          ELSE SelectLine(Tail(envs), Append(acc, r[2]), IF q.distinct THEN Append(sn, r[2]) ELSE sn)

\* aggregate update with the environments of one line: <<status, groups', any row passed>>
RECURSIVE UpdateLine(_, _, _)
UpdateLine(envs, gs, any) ==
  IF envs = <<>> THEN <<"ok", gs, any>>
  ELSE LET env == Head(envs)
           p == Pass(q.where, env)
       IN IF p = "no" THEN UpdateLine(Tail(envs), gs, any)
          ELSE IF p # "yes" THEN <<p, gs, any>>
          ELSE IF ~KeyItemsOk(q) THEN <<"err", gs, any>>        \* validate_group_key, at the first qualifying row
          ELSE LET k == KeyOf(q, env)
               IN IF k[1] # "row" THEN <<k[1], gs, any>>
                  ELSE LET pos == IF \E i \in 1..Len(gs) : KeyEq(gs[i].key, k[2])
                                  THEN CHOOSE i \in 1..Len(gs) : KeyEq(gs[i].key, k[2]) ELSE 0
                           old == IF pos = 0 THEN [i \in 1..Len(AllItems) |-> St0] ELSE gs[pos].st
                           new == [i \in 1..Len(AllItems) |-> UpdateSt(AllItems[i], old[i], env)]
                           g == [key |-> k[2], kenv |-> env, st |-> new]
                           \* an aggregate whose update has no value (overflow, wrong type) fails the statement at this line
                           firstBad == SelectSeq(new, LAMBDA x : x.bad # "ok")
                       IN IF firstBad # <<>> THEN <<(IF \E i \in 1..Len(firstBad) : firstBad[i].bad = "unk" THEN "unk" ELSE firstBad[1].bad), gs, any>>
                          ELSE UpdateLine(Tail(envs), IF pos = 0 THEN Append(gs, g) ELSE [gs EXCEPT ![pos] = [@ EXCEPT !.st = new]], TRUE)

CurLine == files[fi][li + 1]

\* one iteration of the driver's loop over the lines of a file
ReadLine ==
  /\ pc = "read"
  /\ fi <= Len(files)
  /\ li < Len(files[fi])
  /\ IF mode \in {"batch", "follow"} /\ ~IsAgg /\ LimitReached /\ "LimitAfterEmit" \notin Dev
     THEN \* the limit is checked before a line is consumed (LIMIT 0 reads nothing)
          /\ pc' = "final"
          /\ UNCHANGED <<running, fi, li, hooks, consumed, seen, nout, groups, printed, steps, status>>
     ELSE
     LET run1 == running /\ ~Interrupted("line", hooks)       \* hook batch_line: the interrupt may land here
     IN /\ hooks' = hooks + 1
        /\ IF mode = "batch" /\ ~run1
           THEN /\ pc' = "final"                                \* no further line is executed
                /\ running' = run1
                /\ UNCHANGED <<fi, li, consumed, seen, nout, groups, printed, steps, status>>
           ELSE LET l == CurLine
                    r == RowOf(tdef, l)
                    envs == IF r[1] THEN JoinedEnvs(MainEnv(tdef, l)) ELSE <<>>
                IN /\ li' = li + 1 /\ fi' = fi
                   /\ consumed' = consumed + 1
                   /\ IF ~IsAgg
                      THEN LET s == SelectLine(envs, <<>>, seen)
                               room == IF HasLimit /\ "LimitNoTruncate" \notin Dev THEN q.limit - nout ELSE Len(s[2])
                               out == IF room < Len(s[2]) THEN SubSeq(s[2], 1, IF room < 0 THEN 0 ELSE room) ELSE s[2]
                               counted == IF "LimitSkipsNullRows" \in Dev
                                          THEN Len(SelectSeq(out, LAMBDA t : \E i \in 1..Len(t) : ~IsNull(t[i])))
                                          ELSE Len(out)
                               run2 == run1 /\ ~(\E n \in (Len(printed) + 1)..(Len(printed) + Len(out)) : Interrupted("print", n))
                           IN /\ seen' = s[3]
                              /\ running' = run2                \* an interrupt raised by the printer after its n-th record
                              /\ printed' = printed \o out
                              /\ steps' = IF mode \in {"incr", "follow"} THEN Append(steps, Out(out, s[1])) ELSE steps
                              /\ nout' = nout + counted
                              /\ status' = s[1]
                              /\ pc' = IF s[1] # "ok" THEN "done"
                                       ELSE IF HasLimit /\ nout + counted >= q.limit /\ mode \in {"batch", "follow"} /\ "LimitPerFile" \notin Dev THEN "final"
                                       ELSE "read"
                              /\ UNCHANGED groups
                      ELSE LET u == UpdateLine(envs, groups, FALSE)
                               \* follow mode, aggregate with LIMIT (as built, no property speaks about it except C06): every table shown is the whole
                               \* table; its rows (those with a value) are added to the row count, and the run ends once that count reaches the limit.
                               \* Only lines on which a row passed show a table -- a line that yields no row must not move the count.
                               shown == EngTableOf(u[2])
                               counts == mode = "follow" /\ HasLimit /\ u[1] = "ok" /\ u[3] /\ shown.st = "ok"
                               cnt == IF counts THEN Len(SelectSeq(shown.recs, LAMBDA t : \E i \in 1..Len(t) : ~IsNull(t[i]))) ELSE 0
                           IN /\ groups' = u[2]
                              /\ running' = run1
                              /\ status' = IF u[1] # "ok" THEN u[1] ELSE status
                              /\ nout' = nout + cnt
                              /\ pc' = IF u[1] # "ok" THEN "done" ELSE IF counts /\ nout + cnt >= q.limit THEN "final" ELSE "read"
                              /\ UNCHANGED <<seen, printed>>
                              /\ steps' = IF mode \notin {"incr", "follow"} THEN steps
                                           ELSE IF u[1] # "ok" THEN Append(steps, Out(<<>>, u[1]))
                                           \* no row passed: nothing new is shown (the step carries the current table: a driver that re-shows it shows the same)
                                           ELSE IF ~u[3] THEN Append(steps, Out(EngTableOf(u[2]).recs, "none"))
                                           ELSE Append(steps, EngTableOf(u[2]))
  /\ UNCHANGED <<cvars, ji, jidx>>

NextFile ==
  /\ pc = "read"
  /\ fi <= Len(files) /\ li >= Len(files[fi])
  /\ fi' = fi + 1 /\ li' = 0
  /\ pc' = IF fi + 1 > Len(files) THEN "final" ELSE "read"
  /\ UNCHANGED <<cvars, running, ji, jidx, hooks, consumed, seen, nout, groups, printed, steps, status>>

NoFiles ==
  /\ pc = "read" /\ fi > Len(files)
  /\ pc' = "final"
  /\ UNCHANGED <<cvars, running, ji, jidx, fi, li, hooks, consumed, seen, nout, groups, printed, steps, status>>

Final ==
  /\ pc = "final"
  /\ pc' = "done"
  /\ IF IsAgg /\ mode = "batch"
     THEN LET t == EngTableOf(groups)
          IN /\ printed' = IF t.st = "ok" THEN printed \o Take(q.limit, t.recs) ELSE printed    \* a table that fails to build is not printed at all
             /\ status' = t.st
     ELSE UNCHANGED <<printed, status>>
  /\ UNCHANGED <<cvars, running, ji, jidx, fi, li, hooks, consumed, seen, nout, groups, steps>>

\* Lazy input: a further line is written to the (single) input file, or the input ends
Arrive(l) ==
  /\ Lazy /\ ~closed /\ pc = "read" /\ fi = 1 /\ li = Len(files[1]) /\ Len(files[1]) < MaxLines
  /\ files' = <<Append(files[1], l)>>
  /\ UNCHANGED <<tdef, q, jlines, mode, intr, pc, running, ji, jidx, fi, li, hooks, consumed, seen, nout, groups, printed, steps, status, closed>>
Close ==
  /\ Lazy /\ ~closed /\ pc = "read" /\ li = Len(files[1]) /\ Len(files[1]) >= MinLines
  /\ closed' = TRUE
  /\ UNCHANGED <<cvars, pc, running, ji, jidx, fi, li, hooks, consumed, seen, nout, groups, printed, steps, status>>

Next == \/ (LoadJoinLine \/ JoinFails \/ ReadLine \/ NoFiles \/ Final) /\ UNCHANGED closed
        \/ (closed /\ NextFile /\ UNCHANGED closed)
        \/ (\E l \in LineSet : Arrive(l)) \/ Close
Spec == Init /\ [][Next]_vars

\* ------------------------------------------------------------------ refinement: Engine vs Sem
\* the lines consumed so far, across files
ConsumedLines ==
  LET RECURSIVE upto(_)
      upto(f) == IF f = 0 THEN <<>> ELSE upto(f - 1) \o (IF f < fi THEN files[f] ELSE IF f = fi /\ f <= Len(files) THEN SubSeq(files[f], 1, li) ELSE <<>>)
  IN upto(IF fi > Len(files) THEN Len(files) ELSE fi)

AllLines == LET RECURSIVE cat(_) cat(f) == IF f = 0 THEN <<>> ELSE cat(f - 1) \o files[f] IN cat(Len(files))

\* declarative environments of a list of lines (admission, join) -- independent of the engine's index
SemJoinRows(jl) == LET adm == SelectSeq(jl, LAMBDA l : JoinedRow(l)[1]) IN [i \in 1..Len(adm) |-> <<JoinedRow(adm[i])[2], JoinedRow(adm[i])[3]>>]
SemEnvs(ls, jl) ==
  LET adm == SelectSeq(ls, LAMBDA l : RowOf(tdef, l)[1])
      main == [i \in 1..Len(adm) |-> MainEnv(tdef, adm[i])]
      jr == SemJoinRows(jl)
      RECURSIVE go(_, _)
      go(rs, acc) ==
        IF rs = <<>> THEN acc
        ELSE LET r == Head(rs)
                 ps == SelectSeq(jr, LAMBDA s : ~IsNull(JKeyMain(r)) /\ ~IsNull(JKeyJoined(s)) /\ EqB(JKeyMain(r), JKeyJoined(s)))
             IN IF ps # <<>> THEN go(Tail(rs), acc \o [i \in 1..Len(ps) |-> MergeEnv(r, ps[i])])
                ELSE IF q.join = "outer" /\ ~IsAgg THEN go(Tail(rs), Append(acc, MergeEnv(r, <<Null, Null>>)))
                ELSE go(Tail(rs), acc)
  IN IF q.join = "none" THEN main ELSE go(main, <<>>)

SemResult(ls, jl) ==     \* the whole statement, LIMIT included
  IF BadJoin THEN Out(<<>>, IF q.join = "dirfile" THEN "unk" ELSE "err")          \* C05: a missing joined file or join column is an error, never an empty result
  ELSE IF IsAgg THEN LET t == AggTable(q, SemEnvs(ls, jl)) IN Out(Take(q.limit, t.recs), t.st)
  ELSE LET t == SelectAll(q, SemEnvs(ls, jl), StarCols(q), <<>>) IN
       \* an error beyond the LIMIT-th row is never reached
       IF HasLimit /\ Len(t.recs) >= q.limit THEN Out(Take(q.limit, t.recs), "ok") ELSE t

Uninterrupted == intr.at = "none"
IsPrefix(a, b) == Len(a) <= Len(b) /\ SubSeq(b, 1, Len(a)) = a
KnownSt(s) == s \in {"ok", "err"}

\* C03/C04/C05/C08/C07: an uninterrupted batch run prints exactly what the statement means
BatchRefinesSem ==
  (pc = "done" /\ mode = "batch" /\ Uninterrupted) =>
     LET s == SemResult(AllLines, jlines)
     IN (KnownSt(s.st) /\ KnownSt(status)) => (printed = s.recs /\ status = s.st)

\* C11: after every line the incremental table equals the batch meaning of the consumed prefix
IncrRefinesSem ==
  (mode \in {"incr", "follow"} /\ IsAgg /\ pc = "read" /\ status = "ok" /\ ji >= Len(jlines)) =>
     LET s == AggTable(q, SemEnvs(ConsumedLines, jlines))
         e == EngTableOf(groups)
     IN (KnownSt(s.st) /\ KnownSt(e.st)) => (e.recs = s.recs /\ e.st = s.st)
IncrSelectRefinesSem ==
  (mode \in {"incr", "follow"} /\ ~IsAgg /\ status = "ok" /\ pc = "read" /\ ~HasLimit) =>
     LET s == SelectAll(q, SemEnvs(ConsumedLines, jlines), StarCols(q), <<>>)
     IN KnownSt(s.st) => printed = s.recs

FollowLimit ==
  (mode = "follow" /\ ~IsAgg /\ HasLimit /\ status = "ok" /\ pc = "done") =>
     LET s == SelectAll([q EXCEPT !.limit = NoLimit], SemEnvs(AllLines, jlines), StarCols(q), <<>>)
     IN (s.st = "ok") => printed = Take(q.limit, s.recs)

\* C07: a LIMIT-n SELECT consumes nothing beyond the line that produced its n-th row
ConsumedBound ==
  (mode = "batch" /\ ~IsAgg /\ HasLimit /\ status = "ok") =>
     /\ nout <= q.limit
     /\ (nout >= q.limit /\ consumed > 0 =>
           \* the last consumed line is the one that completed the limit
           LET before == SelectAll([q EXCEPT !.limit = NoLimit], SemEnvs(SubSeq(ConsumedLines, 1, Len(ConsumedLines) - 1), jlines), StarCols(q), <<>>)
           IN Len(before.recs) < q.limit)
     /\ (q.limit = 0 => consumed = 0)

\* C19: after the interrupt no further line is executed, nothing but a prefix has been printed, no error
InterruptFreeze ==
  (mode = "batch" /\ ~running /\ intr.at = "line") => consumed <= intr.n
PrintedIsPrefix ==
  (mode = "batch" /\ ~IsAgg /\ KnownSt(status)) =>
     LET s == SemResult(AllLines, jlines) IN KnownSt(s.st) => IsPrefix(printed, s.recs)
InterruptedAggregate ==
  (pc = "done" /\ mode = "batch" /\ IsAgg /\ intr.at = "line") =>
     LET s == SemResult(ConsumedLines, jlines)
     IN (KnownSt(s.st) /\ KnownSt(status)) => (printed = s.recs /\ status = s.st)
NoErrorFromInterrupt ==
  (pc = "done" /\ intr.at # "none") => LET s == SemResult(AllLines, jlines) IN (s.st = "ok" => status = "ok")

\* C06: a line that yields no row leaves the whole engine state unchanged (action property)
NoiseIsStutter ==
  [][(pc = "read" /\ pc' = "read" /\ li' = li + 1 /\ ~RowOf(tdef, files[fi][li + 1])[1])
        => UNCHANGED <<seen, nout, groups, printed, jidx, status>>]_vars

\* C15: order-insensitive aggregates do not depend on the order of the lines, nor on how the input is cut
OrderFree == IsAgg /\ \A i \in 1..Len(AllItems) : AllItems[i].a \notin {"array_agg", "string_agg"}
AtStart == pc = "loadjoin" /\ ji = 0
PermLaw ==
  (AtStart /\ OrderFree) =>
     LET ls == AllLines
         ref == AggTable(q, SemEnvs(ls, jlines))
     IN \A p \in Permutations(1..Len(ls)) :
          LET t == AggTable(q, SemEnvs([i \in 1..Len(ls) |-> ls[p[i]]], jlines))
          IN (KnownSt(ref.st) /\ KnownSt(t.st) /\ ref.st = "ok" /\ t.st = "ok") =>
               \* the same table up to value equality (-0.0 and 0.0, or 1 and 1.0, are the same value whichever arrived first)
               (Len(t.recs) = Len(ref.recs) /\ \A i \in 1..Len(ref.recs) : TupleEq(t.recs[i], ref.recs[i]))
\* the table over x \o y is the key-wise combination of the tables over x and over y, for the statement
\*   SELECT k, COUNT(*), COUNT(v), SUM(v), MIN(v), MAX(v) ... GROUP BY k   (rows <<k, n, c, s, lo, hi>>)
NullAdd(a, b) == IF IsNull(a) THEN b ELSE IF IsNull(b) THEN a ELSE ArithV("+", a, b).v
NullMin(a, b) == IF IsNull(a) THEN b ELSE IF IsNull(b) THEN a ELSE IF CmpB(a, b) <= 0 THEN a ELSE b
NullMax(a, b) == IF IsNull(a) THEN b ELSE IF IsNull(b) THEN a ELSE IF CmpB(a, b) >= 0 THEN a ELSE b
RowOfKey(t, k) == LET hit == SelectSeq(t, LAMBDA r : EqB(r[1], k)) IN IF hit = <<>> THEN <<k, IntV(0), IntV(0), Null, Null, Null>> ELSE hit[1]
CombinedOK(x, y, xy) ==
  /\ \A i \in 1..Len(xy) :
        LET k == xy[i][1] a == RowOfKey(x, k) b == RowOfKey(y, k)
        IN /\ (\E j \in 1..Len(x) : EqB(x[j][1], k)) \/ (\E j \in 1..Len(y) : EqB(y[j][1], k))
           /\ xy[i][2] = IntV(a[2].i + b[2].i) /\ xy[i][3] = IntV(a[3].i + b[3].i)
           /\ xy[i][4] = NullAdd(a[4], b[4]) /\ xy[i][5] = NullMin(a[5], b[5]) /\ xy[i][6] = NullMax(a[6], b[6])
  /\ \A j \in 1..Len(x) : \E i \in 1..Len(xy) : EqB(xy[i][1], x[j][1])
  /\ \A j \in 1..Len(y) : \E i \in 1..Len(xy) : EqB(xy[i][1], y[j][1])
IsCombineStatement ==
  IsAgg /\ Len(q.items) = 6 /\ [i \in 1..6 |-> q.items[i].a] = <<"key", "count_star", "count", "sum", "min", "max">> /\ q.having = NoH /\ ~q.distinct
CombineLaw ==
  (AtStart /\ IsCombineStatement) =>
     LET ls == AllLines
     IN \A c \in 0..Len(ls) :
          LET x == AggTable(q, SemEnvs(SubSeq(ls, 1, c), jlines))
              y == AggTable(q, SemEnvs(SubSeq(ls, c + 1, Len(ls)), jlines))
              xy == AggTable(q, SemEnvs(ls, jlines))
          IN (x.st = "ok" /\ y.st = "ok" /\ xy.st = "ok") => CombinedOK(x.recs, y.recs, xy.recs)

TypeOK == /\ pc \in {"loadjoin", "read", "final", "done"}
          /\ status \in {"ok", "err", "unk", "panic"}
=============================================================================
