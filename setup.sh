#!/bin/sh
# Run once after a fresh restore, offline: build the harness and syntax-check every specification.
set -e
cd "$(dirname "$0")"
export CARGO_NET_OFFLINE=true
mkdir -p build/tmp evidence replays
(cd harness && cargo build --offline --quiet 2>/dev/null || cargo build --offline)
(cd spec && for f in *.tla; do
  tla-sany "$f" > ../build/tmp/sany.log 2>&1 || { cat ../build/tmp/sany.log; echo "SANY failed on $f"; exit 1; }
done)
# the sqlgrep CLI (for child-process runs), in its own target dir
(cd /repo && cargo build --offline --quiet --bin sqlgrep --target-dir /verif/build/cli 2>/dev/null || true)
echo "setup ok"
