"""Shared machinery of ./check: build, TLC driver, harness driver, evidence, verdicts.
python3 stdlib only."""
import json, os, re, shutil, subprocess, sys, time, hashlib

ROOT = os.path.dirname(os.path.dirname(os.path.abspath(__file__)))
SPEC = os.path.join(ROOT, "spec")
BUILD = os.path.join(ROOT, "build")
VH = os.path.join(BUILD, "target", "debug", "vh")
REPLAYS = os.path.join(ROOT, "replays")
EVIDENCE = os.path.join(ROOT, "evidence")
KNOWN = os.path.join(ROOT, "KNOWN_FINDINGS.txt")
JAVA_CP = "/opt/veriftools/tla/tla2tools.jar:/opt/veriftools/tla/CommunityModules-deps.jar"
NCPU = os.cpu_count() or 8


class ToolError(Exception):
    pass


def log(*a):
    print(*a, file=sys.stderr, flush=True)


def seed():
    try:
        return int(os.environ.get("VERIF_SEED", "1"))
    except ValueError:
        return 1


# ---------------------------------------------------------------- known findings
def known_findings():
    """-> (open, fixed): open = {dev: (property, text)}"""
    opened, fixed = {}, []
    if os.path.exists(KNOWN):
        for l in open(KNOWN):
            l = l.strip()
            m = re.match(r"finding:\s+property=(\S+)\s+dev=(\S+)\s+(.*)", l)
            if m:
                opened[m.group(2)] = (m.group(1), m.group(3))
            elif l.startswith("fixed:"):
                fixed.append(l)
    return opened, fixed


def open_devs(names):
    """the subset of `names` (deviation names a spec module knows) that is listed as an open finding"""
    opened, _ = known_findings()
    return sorted(d for d in names if d in opened)


# ---------------------------------------------------------------- build
_built = False


def build():
    """(Re)build the harness against /repo's current working tree, hooks on. Tool error if it fails."""
    global _built
    if _built:
        return
    t = time.time()
    env = dict(os.environ, CARGO_NET_OFFLINE="true")
    env.pop("RUST_BACKTRACE", None)
    p = subprocess.run(["cargo", "build", "--offline", "--quiet"], cwd=os.path.join(ROOT, "harness"),
                       env=env, stdout=subprocess.PIPE, stderr=subprocess.STDOUT, text=True)
    if p.returncode != 0 or not os.path.exists(VH):
        log(p.stdout[-4000:])
        raise ToolError("cargo build of the harness (with /repo, feature verif_hooks) failed")
    log("[build] harness built in %.1fs" % (time.time() - t))
    _built = True


_cli = None


def build_cli():
    """Build the sqlgrep CLI from /repo's working tree into /verif/build/cli (separate target dir: /repo/target is left alone)."""
    global _cli
    if _cli:
        return _cli
    env = dict(os.environ, CARGO_NET_OFFLINE="true")
    tdir = os.path.join(BUILD, "cli")
    p = subprocess.run(["cargo", "build", "--offline", "--quiet", "--bin", "sqlgrep", "--target-dir", tdir],
                       cwd="/repo", env=env, stdout=subprocess.PIPE, stderr=subprocess.STDOUT, text=True)
    exe = os.path.join(tdir, "debug", "sqlgrep")
    if p.returncode != 0 or not os.path.exists(exe):
        log(p.stdout[-4000:])
        raise ToolError("cargo build of the sqlgrep CLI failed")
    _cli = exe
    return exe


# ---------------------------------------------------------------- TLC
class TlcResult:
    def __init__(self):
        self.generated = 0
        self.distinct = 0
        self.depth = 0
        self.violated = None      # name of violated invariant / property
        self.error = None         # any other TLC error text
        self.replay_path = None
        self.replays = 0
        self.coverage = {}
        self.log = ""
        self.wall = 0.0
        self.finished = False


def cfg_text(spec="Spec", constants=None, invariants=(), properties=(), view=None, constraint=None,
             postcondition=None, deadlock=False, init=None, next_=None):
    out = []
    if init:
        out.append("INIT %s\nNEXT %s" % (init, next_))
    else:
        out.append("SPECIFICATION %s" % spec)
    if constants:
        out.append("CONSTANTS")
        for k, v in constants.items():
            if isinstance(v, str) and v.startswith("<-"):
                out.append("  %s <- %s" % (k, v[2:]))
            else:
                out.append("  %s = %s" % (k, tla_val(v)))
    if view:
        out.append("VIEW %s" % view)
    if constraint:
        out.append("CONSTRAINT %s" % constraint)
    if invariants:
        out.append("INVARIANTS " + " ".join(invariants))
    if properties:
        out.append("PROPERTIES " + " ".join(properties))
    if postcondition:
        out.append("POSTCONDITION %s" % postcondition)
    out.append("CHECK_DEADLOCK %s" % ("TRUE" if deadlock else "FALSE"))
    return "\n".join(out) + "\n"


def tla_val(v):
    if isinstance(v, bool):
        return "TRUE" if v else "FALSE"
    if isinstance(v, int):
        return str(v)
    if isinstance(v, str):
        return v            # raw TLA+ text (model values, numbers, expressions are not allowed in cfg: use quoted strings explicitly)
    if isinstance(v, (set, frozenset)):
        return "{" + ", ".join(tla_val(x) for x in sorted(v, key=str)) + "}"
    if isinstance(v, (list, tuple)):
        return "<<" + ", ".join(tla_val(x) for x in v) + ">>"
    raise ValueError(v)


def q(s):
    """a TLA+ string literal for cfg constants"""
    return '"%s"' % s


def tlc(module, cfg, name, workers=None, timeout=900, simulate=None, depth_first=False, env_extra=None,
        heap="6g", coverage=False, replay_limit=None, sim_depth=100, sim_seed=None):
    """Run TLC on spec/<module>.tla with the given cfg text. REPLAY lines printed by the spec are
    collected into an ndjson file. Raises ToolError on timeout or TLC crash (never a verdict)."""
    wd = os.path.join(BUILD, "tlc", name)
    shutil.rmtree(wd, ignore_errors=True)
    os.makedirs(wd)
    cfgp = os.path.join(wd, name + ".cfg")
    open(cfgp, "w").write(cfg)
    res = TlcResult()
    res.replay_path = os.path.join(wd, "replay.ndjson")
    jopts = ["-XX:+UseParallelGC", "-Xmx" + heap, "-Xss1g"]
    if depth_first:
        jopts.append("-Dtlc2.tool.queue.IStateQueue=StateDeque")
    cmd = ["java"] + jopts + ["-cp", JAVA_CP, "tlc2.TLC", "-workers", str(workers or min(NCPU, 12)),
                               "-metadir", os.path.join(wd, "meta"), "-cleanup", "-noGenerateSpecTE",
                               "-config", cfgp]
    if coverage:
        cmd += ["-coverage", "1"]
    if simulate:
        cmd += ["-simulate", simulate, "-depth", str(sim_depth), "-seed", str(sim_seed if sim_seed is not None else seed())]
    cmd.append(os.path.join(SPEC, module + ".tla"))
    env = dict(os.environ)
    env.pop("JAVA_TOOL_OPTIONS", None)
    if env_extra:
        env.update(env_extra)
    t0 = time.time()
    logp = os.path.join(wd, "tlc.log")
    proc = subprocess.Popen(["timeout", str(timeout)] + cmd, cwd=SPEC, env=env, stdout=subprocess.PIPE,
                            stderr=subprocess.STDOUT, text=True, errors="replace")
    keep = []
    with open(res.replay_path, "w") as rp, open(logp, "w") as lf:
        for line in proc.stdout:
            if line.startswith('<<"REPLAY", "'):
                if replay_limit is None or res.replays < replay_limit:
                    try:
                        rp.write(json.loads(line.rstrip("\n")[len('<<"REPLAY", '):-2]) + "\n")
                        res.replays += 1
                    except Exception:
                        keep.append("UNPARSABLE " + line[:300])
                continue
            lf.write(line)
            if len(keep) < 4000:
                keep.append(line)
    rc = proc.wait()
    res.wall = time.time() - t0
    res.log = "".join(keep)
    m = re.search(r"(\d+) states generated, (\d+) distinct states found, (\d+) states left", res.log)
    if m:
        res.generated, res.distinct = int(m.group(1)), int(m.group(2))
    m = re.search(r"depth of the complete state graph search is (\d+)", res.log)
    if m:
        res.depth = int(m.group(1))
    m = re.search(r"Error: Invariant (\S+) is violated", res.log)
    if m:
        res.violated = m.group(1)
    m2 = re.search(r"Error: (Temporal propert\S+ .*violated|Action property \S+ is violated|Deadlock reached)", res.log)
    if m2 and not res.violated:
        res.violated = m2.group(1)
    if "Model checking completed. No error has been found" in res.log or (simulate and rc == 0):
        res.finished = True
    if rc == 124:
        raise ToolError("TLC timed out after %ss on %s (%s)" % (timeout, module, name))
    if not res.finished and not res.violated:
        errs = [l for l in res.log.splitlines() if "rror" in l][:8]
        res.error = "\n".join(errs) or res.log[-1500:]
    if coverage:
        for mm in re.finditer(r"^<(\w+) line \d+, col \d+ to line \d+, col \d+ of module (\w+)>: (\d+):(\d+)", res.log, re.M):
            res.coverage[mm.group(1)] = res.coverage.get(mm.group(1), 0) + int(mm.group(4))
    shutil.rmtree(os.path.join(wd, "meta"), ignore_errors=True)
    return res


def expect_holds(r, what):
    if r.error:
        raise ToolError("TLC failed on %s:\n%s" % (what, r.error))
    if r.violated:
        raise ToolError("specification error: %s violated on %s — the Ideal model itself breaks the property" % (r.violated, what))
    if not r.finished:
        raise ToolError("TLC did not finish on %s" % what)


def expect_witness(r, what):
    """a run with one deviation switched on must violate a property invariant (the finding is real in the model)"""
    if r.error:
        raise ToolError("TLC failed on %s:\n%s" % (what, r.error))
    return r.violated is not None


# ---------------------------------------------------------------- harness
def vh(args, timeout=1800, env_extra=None):
    env = dict(os.environ)
    env.pop("RUST_BACKTRACE", None)
    if env_extra:
        env.update(env_extra)
    os.makedirs(os.path.join(BUILD, "tmp"), exist_ok=True)
    try:
        p = subprocess.run([VH] + args, env=env, stdout=subprocess.PIPE, stderr=subprocess.PIPE, text=True,
                           errors="replace", timeout=timeout)
    except subprocess.TimeoutExpired:
        raise ToolError("harness timed out: vh %s" % " ".join(args[:3]))
    return p


def vh_replay(module, cases_path, name, timeout=1800, env_extra=None):
    out = os.path.join(BUILD, "tmp", "replay-%s.json" % name)
    if os.path.exists(out):
        os.remove(out)
    p = vh(["replay", module, cases_path, out], timeout, env_extra)
    if p.returncode == 3:
        # the code under test hung: that is an outcome, reported by the caller as a violation
        return {"hang": p.stdout[-2000:], "cases": 0, "n_mismatch": 1, "mismatches": [
            {"case": p.stdout[-2000:], "expected": "termination", "observed": "hang", "what": "no progress for the watchdog period"}],
            "distinct_nontrivial": 0, "samples": [], "dev_witnesses": {}, "counters": {}}
    if p.returncode != 0 or not os.path.exists(out):
        raise ToolError("harness failed (vh replay %s): rc=%s\n%s" % (module, p.returncode, (p.stderr or p.stdout)[-2000:]))
    return json.load(open(out))


def vh_trace(module, n, name, seed_=None, timeout=1800, env_extra=None):
    out = os.path.join(BUILD, "tmp", "trace-%s.ndjson" % name)
    p = vh(["trace", module, str(seed_ if seed_ is not None else seed()), str(n), out], timeout, env_extra)
    if p.returncode == 3:
        return None
    if p.returncode != 0:
        raise ToolError("harness failed (vh trace %s): rc=%s\n%s" % (module, p.returncode, (p.stderr or p.stdout)[-2000:]))
    return out


def validate_trace(trace_module, trace_path, name, constants=None, timeout=900, spec="TraceSpec",
                   invariants=(), post="TraceAccepted", extra=None):
    """impl -> spec: TLC replays the recorded events through the spec's actions (depth-first, 1 worker).
    Returns (accepted, TlcResult)."""
    extra = extra or {}
    cfg = cfg_text(spec=spec, constants=constants or {}, invariants=invariants, postcondition=post,
                   view=extra.get("view"), constraint=extra.get("constraint"))
    r = tlc(trace_module, cfg, name, workers=1, timeout=timeout, depth_first=True,
            env_extra={"TRACE": trace_path}, heap="4g")
    # acceptance = some path consumed the whole trace = the invariant TraceUnfinished is "violated"
    if r.violated == "TraceUnfinished":
        return True, r
    if r.violated:
        return False, r           # a safety property of the spec failed on the way
    if r.error:
        raise ToolError("TLC failed validating trace %s:\n%s" % (name, r.error))
    return False, r               # search exhausted without consuming the trace: rejected


# ---------------------------------------------------------------- verdict / evidence
class Check:
    def __init__(self, pid, tier, level):
        self.pid, self.tier, self.level = pid, tier, level
        self.t0 = time.time()
        self.states = 0
        self.transitions = 0
        self.traces = 0          # behaviours replayed on the code + traces accepted by TLC
        self.evaluations = 0
        self.nontrivial = 0
        self.samples = []
        self.violations = []     # (what, replay dict)
        self.known = {}          # dev -> witness
        self.stale = []
        self.notes = []
        self.assumptions = []
        self.rule = ""
        self.extra = {}
        self.exhaustive = False
        # stale replay files of earlier runs of this property are removed
        import glob
        for f in glob.glob(os.path.join(REPLAYS, pid + "-*")):
            try:
                os.remove(f)
            except OSError:
                pass

    def add_tlc(self, r):
        self.states += r.distinct
        self.transitions += r.generated

    def add_report(self, rep, what):
        self.traces += rep.get("cases", 0)
        self.evaluations += rep.get("cases", 0)
        self.nontrivial += rep.get("distinct_nontrivial", 0)
        for s in rep.get("samples", [])[:3]:
            if len(self.samples) < 8:
                self.samples.append({"kind": what, "case": s})
        for m in rep.get("mismatches", []):
            self.violations.append((what, m))
        if rep.get("n_mismatch", 0) > len(rep.get("mismatches", [])):
            self.notes.append("%s: %d mismatches in total (first %d kept)" % (what, rep["n_mismatch"], len(rep["mismatches"])))
        for d, w in rep.get("dev_witnesses", {}).items():
            self.known.setdefault(d, w)
        for k, v in rep.get("counters", {}).items():
            self.extra[what + "." + k] = self.extra.get(what + "." + k, 0) + v

    def violation(self, what, replay):
        self.violations.append((what, replay))

    def finish(self):
        wall = time.time() - self.t0
        opened, _ = known_findings()
        rc = 0
        for d, w in sorted(self.known.items()):
            prop, text = opened.get(d, (self.pid, ""))
            print("KNOWN-FINDING: property=%s %s: %s witness=%s" % (prop, d, text, json.dumps(w)[:400]))
        os.makedirs(REPLAYS, exist_ok=True)
        seen = set()
        for what, rp in self.violations:
            body = json.dumps({"property": self.pid, "what": what, "replay": rp}, indent=1, sort_keys=True)
            h = hashlib.sha1(body.encode()).hexdigest()[:12]
            if h in seen:
                continue
            seen.add(h)
            path = os.path.join(REPLAYS, "%s-%s.json" % (self.pid, h))
            open(path, "w").write(body)
            if len(seen) <= 10:
                print("VIOLATION property=%s replay=%s" % (self.pid, path))
                log("  " + what + ": " + json.dumps(rp)[:600])
            rc = 1
        cov = {
            "states": self.states, "transitions": self.transitions,
            "traces_validated_against_impl": self.traces,
            "evaluations": self.evaluations, "distinct_nontrivial": self.nontrivial,
            "rule": self.rule, "samples": self.samples[:8] or [{"note": "no sample recorded"}],
            "exhaustive": self.exhaustive,
            "known_findings_reproduced": sorted(self.known.keys()),
            "notes": self.notes,
        }
        cov.update(self.extra)
        ev = {"property_id": self.pid, "tier": self.tier, "seed": seed(), "level": self.level,
              "coverage": cov, "assumptions": self.assumptions, "wall_s": round(wall, 2),
              "violations": len(seen)}
        os.makedirs(EVIDENCE, exist_ok=True)
        open(os.path.join(EVIDENCE, self.pid + ".json"), "w").write(json.dumps(ev, indent=1))
        log("[%s] %s tier: %d states, %d behaviours/traces bound to the code, %d violations, %.1fs" %
            (self.pid, self.tier, self.states, self.traces, len(seen), wall))
        return rc
