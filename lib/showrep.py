#!/usr/bin/env python3
import json,glob,sys
seen=set()
for f in sorted(glob.glob('/verif/replays/%s-*.json' % sys.argv[1])):
    r=json.load(open(f))['replay']
    if 'observed' not in r: print(json.dumps(r)[:600]); continue
    q=r['observed'].get('query') if isinstance(r['observed'],dict) else None
    k=(q, r['case'].get('mode') if isinstance(r.get('case'),dict) else None)
    if k in seen: continue
    seen.add(k)
    print(k)
    if isinstance(r.get('case'),dict) and 'files' in r['case']: print('  files',json.dumps(r['case']['files'])[:300], 'j', json.dumps(r['case'].get('jlines'))[:200], r['case'].get('tdef'), r['case'].get('intr'))
    else: print('  case', json.dumps(r.get('case'))[:500])
    print('  exp',json.dumps(r['expected'])[:400]); print('  obs',json.dumps({k:v for k,v in r['observed'].items() if k!='query'} if isinstance(r['observed'],dict) else r['observed'])[:400])
