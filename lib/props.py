"""One function per property: which TLC runs, which replays, which traces."""
import json, os, random
import vlib
from vlib import cfg_text, q, tlc, expect_holds, expect_witness, vh_replay, vh_trace, validate_trace, Check, ToolError, log

W = min(vlib.NCPU, 12)


def sample_ndjson(path, k, name, pred=None):
    """reservoir-sample k lines (seeded) of an ndjson file into a new file"""
    rnd = random.Random(vlib.seed())
    keep = []
    n = 0
    with open(path) as f:
        for line in f:
            if pred and not pred(line):
                continue
            n += 1
            if len(keep) < k:
                keep.append(line)
            else:
                j = rnd.randrange(n)
                if j < k:
                    keep[j] = line
    out = os.path.join(vlib.BUILD, "tmp", "sample-%s.ndjson" % name)
    os.makedirs(os.path.dirname(out), exist_ok=True)
    open(out, "w").writelines(keep)
    return out, len(keep)


def replay(pid, path):
    """re-run a stored violation"""
    rp = json.load(open(path))
    body = rp.get("replay", {})
    case = body.get("case")
    module = REPLAY_MODULE.get(rp.get("what", ""), None) or body.get("module")
    if case is None or module is None:
        print("replay file has no re-runnable case; see its content"); return 2
    tmp = os.path.join(vlib.BUILD, "tmp", "replay-one.ndjson")
    os.makedirs(os.path.dirname(tmp), exist_ok=True)
    open(tmp, "w").write(json.dumps(case) + "\n")
    rep = vh_replay(module, tmp, "one")
    if rep.get("n_mismatch", 0):
        print("VIOLATION property=%s replay=%s" % (pid, path))
        print(json.dumps(rep["mismatches"][0], indent=1)[:3000])
        return 1
    print("replay passes on the current tree")
    return 0


REPLAY_MODULE = {}


def reg(what, module):
    REPLAY_MODULE[what] = module
    return what


# =====================================================================================  C10
FOLLOW_DEVS = ["FollowUtf8Split"]


def follow_consts(maxlen, caps, idle, free, dev):
    return {"MaxLen": maxlen, "Caps": set(caps), "MaxIdle": idle, "FreeAppend": free, "Dev": {q(d) for d in dev}}


def check_C10(tier):
    c = Check("C10", tier, "model_checking")
    thorough = tier == "thorough"
    dev = vlib.open_devs(FOLLOW_DEVS)
    inv = ["TypeOK", "DeliveredPrefix", "Conservation", "QuiescentComplete", "NeverFails"]
    caps = [1, 2, 3, 8]
    # 1. design: the Ideal reader satisfies C10 under every interleaving of appends and polls
    r = tlc("MC_Follow", cfg_text(constants=follow_consts(5 if thorough else 4, caps, 0, True, []), view="view", invariants=inv),
            "follow-ideal", workers=W, timeout=1500)
    expect_holds(r, "Follow (Ideal, appends at any time)")
    c.add_tlc(r)
    # 2. liveness under fairness, no state constraint
    r = tlc("MC_Follow", cfg_text(spec="FairSpec", constants=follow_consts(3 if thorough else 2, [1, 2, 8], 0, True, []),
                                  properties=["EventuallyAll"]), "follow-live", workers=W, timeout=1500)
    expect_holds(r, "Follow liveness (every complete line is eventually delivered)")
    c.add_tlc(r)
    # 3. every open deviation must be a real counterexample in the model
    for d in dev:
        r = tlc("MC_Follow", cfg_text(constants=follow_consts(3, caps, 0, True, [d]), view="view", invariants=inv), "follow-dev-" + d, workers=W)
        if not expect_witness(r, "Follow with " + d):
            raise ToolError("deviation %s does not break C10 in the model: stale finding?" % d)
    # 4. spec -> impl: all hook-realisable behaviours of the as-built model, replayed on the real iterator
    r = tlc("MC_Follow", cfg_text(constants=follow_consts(4 if thorough else 3, caps, 1, False, dev), invariants=["TypeOK", "Emit"]),
            "follow-replay", workers=W, timeout=1500)
    expect_holds(r, "Follow replay generation")
    c.add_tlc(r)
    if r.replays == 0:
        raise ToolError("TLC produced no behaviours to replay")
    rep = vh_replay("follow", r.replay_path, "follow")
    c.add_report(rep, reg("FollowFileIterator vs Follow.tla (replay)", "follow"))
    # 5. the executor itself (real seek for --head, 8 KiB BufReader, printing) on a sample
    sp, n = sample_ndjson(r.replay_path, 1500 if thorough else 150, "follow-exec", pred=lambda l: '"cap":8' in l)
    rep = vh_replay("follow-exec", sp, "follow-exec")
    c.add_report(rep, reg("FollowFileExecutor vs Follow.tla (replay, child process)", "follow-exec"))
    # 6. impl -> spec: a real writer thread races the real iterator; TLC explains the trace
    for i in range(4 if thorough else 1):
        tp = vh_trace("follow", 400 if thorough else 150, "follow%d" % i, seed_=vlib.seed() * 100 + i)
        if tp is None:
            c.violation("follow race: hang", {"seed": vlib.seed() * 100 + i}); continue
        ok, tr = validate_trace("Trace_Follow", tp, "trace-follow%d" % i, constants=follow_consts(0, [], 0, True, []),
                                invariants=["TraceSafety", "TraceUnfinished"], post="TraceRejectedAt", extra={"view": "tview", "constraint": "TrackProgress"})
        c.add_tlc(tr)
        nruns = sum(1 for l in open(tp) if '"ev":"start"' in l)
        if ok:
            c.traces += nruns
            c.evaluations += nruns
            c.extra["race_traces_accepted"] = c.extra.get("race_traces_accepted", 0) + nruns
        else:
            rej = [l for l in tr.log.splitlines() if "TRACE-REJECTED" in l or "first unmatched" in l]
            keep = os.path.join(vlib.REPLAYS, "C10-trace-%d-%d.ndjson" % (vlib.seed(), i))
            os.makedirs(vlib.REPLAYS, exist_ok=True)
            os.replace(tp, keep)
            c.violation("follow race trace rejected by Trace_Follow.tla", {"trace": keep, "tlc": tr.log[-1500:] if not rej else tr.log[tr.log.find("TRACE-REJECTED") - 5:][:800]})
    c.rule = ("TLC enumerates every UTF-8 content up to MaxLen bytes over {a,b,LF,CR,U+00E9} x start offset x head/tail x BufReader capacity x "
              "every chunking of the writer's appends (placed at every reader retry point, plus one empty poll); each behaviour is replayed on the real "
              "FollowFileIterator through the follow_retry hook. Non-trivial = at least one line is delivered; distinct by (content, start, head, capacity, schedule).")
    c.assumptions = ["regular-file append/read semantics of the kernel", "appends between two fills of one read_line call are unobservable for an append-only file (checked on the model: the free-append configuration satisfies the same invariants)",
                     "contents and start offsets are valid UTF-8 / on character boundaries"]
    c.exhaustive = True
    return c.finish()
