"""One function per property: which TLC runs, which replays, which traces."""
import json, os, random, time
import vlib
from vlib import cfg_text, q, tlc, expect_holds, expect_witness, vh_replay, vh_trace, validate_trace, Check, ToolError, log

W = int(os.environ.get("VERIF_WORKERS", "0")) or min(vlib.NCPU, 12)


def sample_ndjson(path, k, name, pred=None):
    """reservoir-sample k lines (seeded) of an ndjson file into a new file"""
    rnd = random.Random(vlib.seed())
    keep = []
    n = 0
    with open(path) as f:
        for line in f:
            if pred and not pred(line):
                continue
            n += 1
            if len(keep) < k:
                keep.append(line)
            else:
                j = rnd.randrange(n)
                if j < k:
                    keep[j] = line
    out = os.path.join(vlib.BUILD, "tmp", "sample-%s.ndjson" % name)
    os.makedirs(os.path.dirname(out), exist_ok=True)
    open(out, "w").writelines(keep)
    return out, len(keep)


def replay(pid, path):
    """re-run a stored violation"""
    rp = json.load(open(path))
    body = rp.get("replay", {})
    case = body.get("case")
    module = REPLAY_MODULE.get(rp.get("what", ""), None) or body.get("module")
    if case is None or module is None:
        print("replay file has no re-runnable case; see its content"); return 2
    tmp = os.path.join(vlib.BUILD, "tmp", "replay-one.ndjson")
    os.makedirs(os.path.dirname(tmp), exist_ok=True)
    open(tmp, "w").write(json.dumps(case) + "\n")
    rep = vh_replay(module, tmp, "one")
    if rep.get("n_mismatch", 0):
        print("VIOLATION property=%s replay=%s" % (pid, path))
        print(json.dumps(rep["mismatches"][0], indent=1)[:3000])
        return 1
    print("replay passes on the current tree")
    return 0


REPLAY_MODULE = {}


def reg(what, module):
    REPLAY_MODULE[what] = module
    return what


# =====================================================================================  C10
FOLLOW_DEVS = ["FollowUtf8Split"]


def follow_consts(maxlen, caps, idle, free, dev, interrupt=False):
    return {"MaxLen": maxlen, "Caps": set(caps), "MaxIdle": idle, "FreeAppend": free, "Dev": {q(d) for d in dev}, "WithInterrupt": interrupt}


def check_C10(tier):
    c = Check("C10", tier, "model_checking")
    thorough = tier == "thorough"
    dev = vlib.open_devs(FOLLOW_DEVS)
    inv = ["TypeOK", "DeliveredPrefix", "Conservation", "QuiescentComplete", "NeverFails"]
    caps = [1, 2, 3, 8]
    # 1. design: the Ideal reader satisfies C10 under every interleaving of appends and polls
    r = tlc("MC_Follow", cfg_text(constants=follow_consts(5 if thorough else 4, caps, 0, True, []), view="view", invariants=inv),
            "follow-ideal", workers=W, timeout=1500)
    expect_holds(r, "Follow (Ideal, appends at any time)")
    c.add_tlc(r)
    # 2. liveness under fairness, no state constraint
    r = tlc("MC_Follow", cfg_text(spec="FairSpec", constants=follow_consts(3 if thorough else 2, [1, 2, 8], 0, True, []),
                                  properties=["EventuallyAll"]), "follow-live", workers=W, timeout=1500)
    expect_holds(r, "Follow liveness (every complete line is eventually delivered)")
    c.add_tlc(r)
    # 3. every open deviation must be a real counterexample in the model
    for d in dev:
        r = tlc("MC_Follow", cfg_text(constants=follow_consts(3, caps, 0, True, [d]), view="view", invariants=inv), "follow-dev-" + d, workers=W)
        if not expect_witness(r, "Follow with " + d):
            raise ToolError("deviation %s does not break C10 in the model: stale finding?" % d)
    # 4. spec -> impl: all hook-realisable behaviours of the as-built model, replayed on the real iterator
    r = tlc("MC_Follow", cfg_text(constants=follow_consts(4 if thorough else 3, caps, 1, False, dev), invariants=["TypeOK", "Emit"]),
            "follow-replay", workers=W, timeout=1500)
    expect_holds(r, "Follow replay generation")
    c.add_tlc(r)
    if r.replays == 0:
        raise ToolError("TLC produced no behaviours to replay")
    rep = vh_replay("follow", r.replay_path, "follow")
    c.add_report(rep, reg("FollowFileIterator vs Follow.tla (replay)", "follow"))
    # 5. the executor itself (real seek for --head, 8 KiB BufReader, printing) on a sample
    sp, n = sample_ndjson(r.replay_path, 1500 if thorough else 150, "follow-exec", pred=lambda l: '"cap":8' in l)
    rep = vh_replay("follow-exec", sp, "follow-exec")
    c.add_report(rep, reg("FollowFileExecutor vs Follow.tla (replay, child process)", "follow-exec"))
    # 6. impl -> spec: a real writer thread races the real iterator; TLC explains the trace
    for i in range(4 if thorough else 1):
        tp = vh_trace("follow", 600 if thorough else 400, "follow%d" % i, seed_=vlib.seed() * 100 + i)
        if tp is None:
            c.violation("follow race: hang", {"seed": vlib.seed() * 100 + i}); continue
        ok, tr = validate_trace("Trace_Follow", tp, "trace-follow%d" % i, constants=follow_consts(0, [], 0, True, []),
                                invariants=["TraceSafety", "TraceUnfinished"], post="TraceRejectedAt", extra={"view": "tview", "constraint": "TrackProgress"})
        c.add_tlc(tr)
        nruns = sum(1 for l in open(tp) if '"ev":"start"' in l)
        if ok:
            c.traces += nruns
            c.evaluations += nruns
            c.extra["race_traces_accepted"] = c.extra.get("race_traces_accepted", 0) + nruns
        else:
            rej = [l for l in tr.log.splitlines() if "TRACE-REJECTED" in l or "first unmatched" in l]
            keep = os.path.join(vlib.REPLAYS, "C10-trace-%d-%d.ndjson" % (vlib.seed(), i))
            os.makedirs(vlib.REPLAYS, exist_ok=True)
            os.replace(tp, keep)
            c.violation("follow race trace rejected by Trace_Follow.tla", {"trace": keep, "tlc": tr.log[-1500:] if not rej else tr.log[tr.log.find("TRACE-REJECTED") - 5:][:800]})
    c.rule = ("TLC enumerates every UTF-8 content up to MaxLen bytes over {a, blank, LF, CR, U+00E9, a byte that is not UTF-8} x start offset x head/tail x BufReader capacity x "
              "every chunking of the writer's appends (placed at every reader retry point, plus one empty poll); each behaviour is replayed on the real "
              "FollowFileIterator through the follow_retry hook. Non-trivial = at least one line is delivered; distinct by (content, start, head, capacity, schedule).")
    c.assumptions = ["regular-file append/read semantics of the kernel", "appends between two fills of one read_line call are unobservable for an append-only file (checked on the model: the free-append configuration satisfies the same invariants)",
                     "contents and start offsets are valid UTF-8 / on character boundaries"]
    c.exhaustive = True
    return c.finish()


# =====================================================================================  Engine-based properties
ENGINE_DEVS = ["LimitPerFile", "LimitAfterEmit", "LimitSkipsNullRows", "LimitNoTruncate", "JoinNullKeys", "AggEmptyGroupDropped",
               "NumVariantOrder", "FloatNanOrd", "FloatHashBits", "InNullEq", "UncheckedArith", "SubscriptUnderflow"]
ENGINE_INVS = ["TypeOK", "BatchRefinesSem", "IncrRefinesSem", "IncrSelectRefinesSem", "ConsumedBound", "PrintedIsPrefix",
               "InterruptFreeze", "InterruptedAggregate", "NoErrorFromInterrupt"]
ENGINE_WHAT = reg("sqlgrep engine vs Engine.tla (replay)", "engine")


def engine_consts(dev, menu, lines, maxlines, maxfiles, joinsets, modes, intrs, tdefs):
    # `<-` substitutions are written through the raw-string path of cfg_text
    return {"Dev": {q(d) for d in dev}, "Statements": "<-" + menu, "TableDefs": {q(t) for t in tdefs},
            "LineSet": "<-" + lines, "MaxLines": maxlines, "MaxFiles": maxfiles, "JoinLineSets": "<-" + joinsets,
            "Modes": {q(m) for m in modes}, "InterruptPoints": "<-" + intrs, "Lazy": False, "MinLines": 0}


def engine_run(c, name, menu, lines="Lines3", maxlines=3, maxfiles=2, joinsets="JoinSets", modes=("batch",), intrs="NoIntr",
               tdefs=("plain", "knn", "vdef"), invs=ENGINE_INVS, props=("NoiseIsStutter",), timeout=1500, module="MC_Engine"):
    """One bounded configuration of Engine.tla: (1) TLC checks the property invariants on the Ideal model,
    (2) every behaviour of the as-built model (Ideal + open findings) is replayed on the real code."""
    dev = vlib.open_devs(ENGINE_DEVS)
    consts = lambda d: engine_consts(d, menu, lines, maxlines, maxfiles, joinsets, modes, intrs, tdefs)
    if not dev:
        r = tlc(module, cfg_text(constants=consts([]), invariants=list(invs) + ["Emit"], properties=props), "engine-" + name, workers=W, timeout=timeout)
        expect_holds(r, "Engine %s (Ideal)" % name)
        c.add_tlc(r)
    else:
        r0 = tlc(module, cfg_text(constants=consts([]), invariants=list(invs), properties=props), "engine-ideal-" + name, workers=W, timeout=timeout)
        expect_holds(r0, "Engine %s (Ideal)" % name)
        c.add_tlc(r0)
        r = tlc(module, cfg_text(constants=consts(dev), invariants=["TypeOK", "Emit"]), "engine-" + name, workers=W, timeout=timeout)
        expect_holds(r, "Engine %s (as built: %s)" % (name, ",".join(dev)))
        c.add_tlc(r)
    if r.replays == 0:
        raise ToolError("TLC produced no behaviours to replay for " + name)
    t_r = time.time()
    rep = vh_replay("engine", r.replay_path, "engine-" + name, env_extra={"TZ": "UTC"})
    c.add_report(rep, ENGINE_WHAT)
    c.extra.setdefault("configs", []).append({"name": name, "menu": menu, "lines": lines, "max_lines": maxlines, "max_files": maxfiles,
                                              "modes": list(modes), "interrupts": intrs, "behaviours_replayed": rep.get("cases", 0),
                                              "states": r.distinct, "tlc_s": round(r.wall, 1), "replay_s": round(time.time() - t_r, 1)})
    return rep


def engine_sim(c, name, menu, lines="Lines4", maxlines=10, num=2000, modes=("batch", "incr"), tdefs=("plain",), joinsets="JoinSets", invs=ENGINE_INVS, minlines=0):
    """Random LONG inputs: TLC -simulate on the lazy-input configuration of Engine.tla (lines arrive one by one, up to maxlines),
    invariants checked along every behaviour, every finished behaviour replayed on the real code."""
    dev = vlib.open_devs(ENGINE_DEVS)
    k = engine_consts(dev, menu, lines, maxlines, 1, joinsets, modes, "NoIntr", tdefs)
    k["Lazy"] = True
    k["MinLines"] = minlines
    r = tlc("MC_Engine", cfg_text(constants=k, invariants=(list(invs) if not dev else ["TypeOK"]) + ["Emit"]), "engine-sim-" + name, workers=1, timeout=1500,
            simulate="num=%d" % num, sim_depth=4 * maxlines + 20,
            sim_seed=vlib.seed() * 1000 + int(c.pid[1:]) if c.pid[1:].isdigit() else None)        # each property's check draws its own random behaviours
    if r.violated or r.error:
        expect_holds(r, "Engine simulation " + name)
    c.states += r.replays; c.transitions += r.generated
    if r.replays == 0:
        raise ToolError("TLC simulation produced no finished behaviour for " + name)
    t_r = time.time()
    rep = vh_replay("engine", r.replay_path, "engine-sim-" + name, env_extra={"TZ": "UTC"})
    c.add_report(rep, ENGINE_WHAT)
    c.extra.setdefault("configs", []).append({"name": "sim-" + name, "menu": menu, "lines": lines, "max_lines": maxlines, "simulated_behaviours": r.replays,
                                              "behaviours_replayed": rep.get("cases", 0), "tlc_s": round(r.wall, 1), "replay_s": round(time.time() - t_r, 1)})


def sem_trace(c, tier):
    """impl -> spec, semantic, over tables nobody wrote by hand: a random definition (any pattern, columns of any type), 2-8 (now and then 20-45) random lines, a statement put
    together clause by clause to fit the column types; the rows the engine extracted are in the event, Trace_Sem.tla computes the statement's meaning over them with Sem.tla"""
    t = tier == "thorough"
    trace_check(c, "sem", "Trace_Sem", 12000 if t else 2500, "sem", "random statements over random tables vs Sem.tla (trace)", constants={"Dev": set()},
                rounds=3 if t else 1, env={"TZ": "UTC"}, per_pid=True)


def engine_scale(c):
    """thorough tier: one input of 300 lines over 271 keys (FixedInputs <- MidInputs) under ScaleMenu -- LIMIT with and without DISTINCT / HAVING over more groups than
    fit any small shortcut, COUNT(DISTINCT) over hundreds of values, PERCENTILE ranks, DISTINCT over hundreds of rows; TLC evaluates Engine.tla line by line
    (BatchRefinesSem against Sem.tla at the end) and the behaviours are replayed on FileExecutor"""
    dev = vlib.open_devs(ENGINE_DEVS)
    k = engine_consts(dev, "ScaleMenu", "Lines3", 0, 1, "JoinSets", ("batch",), "NoIntr", ("plain",))
    k["FixedInputs"] = "<-MidInputs"
    r = tlc("MC_Engine", cfg_text(constants=k, invariants=(["BatchRefinesSem"] if not dev else []) + ["Emit"]), "engine-scale-300", workers=W, timeout=2400)
    expect_holds(r, "Engine scale-300"); c.add_tlc(r)
    rep = vh_replay("engine", r.replay_path, "engine-scale-300", env_extra={"TZ": "UTC"})
    c.add_report(rep, ENGINE_WHAT)
    c.extra.setdefault("configs", []).append({"name": "scale-300", "menu": "ScaleMenu", "lines": 300, "behaviours_replayed": rep.get("cases", 0), "states": r.distinct, "tlc_s": round(r.wall, 1)})


def engine_union(c, t, joins=True):
    """random inputs over the union of all statement menus (every engine-based check runs it: shapes kept for one property are exercised under the others too)"""
    # what reaches the engine is the file's line: empty lines, CRLF, a last line without line break, a line that is not UTF-8, one- and two-byte files (Reader.tla)
    if not any(x.get("name") == "reader" for x in c.extra.get("configs", [])):
        rr = tlc("MC_Reader", cfg_text(constants={"MaxLen": 4, "MaxFiles": 1, "Dev": set()}, invariants=["ExactlyOnceInOrder", "Emit"]), "reader-" + c.pid, workers=W)
        expect_holds(rr, "Reader (%s)" % c.pid); c.add_tlc(rr)
        c.add_report(vh_replay("reader", rr.replay_path, "reader-" + c.pid), "FileExecutor / join loader line reading vs Reader.tla (replay)")
        c.extra.setdefault("configs", []).append({"name": "reader", "behaviours_replayed": rr.replays})
    engine_sim(c, "union", "UnionMenu", lines="LinesUnion", maxlines=8, num=1500 if t else 160, modes=("batch", "incr"), minlines=2)
    if joins:
        engine_sim(c, "union-join", "JoinUnionMenu", lines="LinesJ", maxlines=6, num=600 if t else 60, modes=("batch", "incr"), minlines=1)
    # generated statements: every clause drawn independently from a pool (projections x WHERE x DISTINCT x LIMIT x GROUP BY keys x 1-3 aggregates, plain or
    # wrapped x HAVING x INNER / OUTER JOIN), 400 / 300 statements per run, random inputs: feature combinations that no hand-written menu lists
    engine_sim(c, "gen", "GenMenu", lines="LinesUnion", maxlines=8, num=4000 if t else 400, modes=("batch", "incr"), minlines=2, tdefs=("plain", "knn", "vdef", "bothnn", "nndef"))
    engine_sim(c, "gen-real", "GenMenu", lines="LinesReal", maxlines=6, num=1500 if t else 150, modes=("batch", "incr"), minlines=2, tdefs=("vreal",))
    # ... and on 40-64 lines over 40 values x 3 keys: more distinct rows / groups / values per group than small fixed-size shortcuts (8, 16, 32 entries) hold
    engine_sim(c, "gen-wide", "GenMenu", lines="LinesWide", maxlines=64, num=300 if t else 24, modes=("batch", "incr"), minlines=40)
    if joins:
        engine_sim(c, "gen-join", "GenJoinMenu", lines="LinesJ", maxlines=6, num=2500 if t else 250, modes=("batch", "incr"), minlines=1, tdefs=("plain", "udef", "knn"))


def engine_follow_run(c, name, menu, lines="Lines3", maxlines=3, tdefs=("plain",), sample=1500, invs=("TypeOK", "FollowLimit", "IncrRefinesSem", "IncrSelectRefinesSem")):
    """Engine.tla in mode "follow" (FollowFileExecutor: limit and running checked before each delivered line, table re-printed per line);
    behaviours are replayed through the real FollowFileExecutor in a child process (one process per behaviour: a seeded sample)."""
    dev = vlib.open_devs(ENGINE_DEVS)
    k = engine_consts(dev, menu, lines, maxlines, 1, "JoinSets", ("follow",), "NoIntr", tdefs)
    r = tlc("MC_Engine", cfg_text(constants=k, invariants=(list(invs) if not dev else ["TypeOK"]) + ["Emit"]), "engine-follow-" + name, workers=W, timeout=1500)
    expect_holds(r, "Engine follow mode " + name); c.add_tlc(r)
    sp, n = sample_ndjson(r.replay_path, sample, "engine-follow-" + name)
    rep = vh_replay("engine-follow", sp, "engine-follow-" + name, env_extra={"TZ": "UTC"})
    c.add_report(rep, reg("FollowFileExecutor vs Engine.tla (mode follow, child process)", "engine-follow"))
    c.extra.setdefault("configs", []).append({"name": "follow-" + name, "menu": menu, "behaviours_generated": r.replays, "behaviours_replayed": rep.get("cases", 0)})


def engine_witness(c, dev_name, menu, lines="Lines3", maxlines=3, joinsets="JoinSets", invs=("BatchRefinesSem",)):
    """an open finding must be a real counterexample of the property in the model"""
    if dev_name not in vlib.open_devs(ENGINE_DEVS):
        return
    r = tlc("MC_Engine", cfg_text(constants=engine_consts([dev_name], menu, lines, maxlines, 1, joinsets, ("batch",), "NoIntr", ("plain",)),
                                  invariants=list(invs)), "engine-witness-" + dev_name, workers=W)
    if not expect_witness(r, dev_name):
        raise ToolError("deviation %s does not break the property in the model (menu %s): stale finding?" % (dev_name, menu))
    c.notes.append("TLC witness for %s: %s violated" % (dev_name, r.violated))


ENGINE_ASSUME = ["statements are rendered fully parenthesised and parsed by the real parser; the value of C13/C20 is checked separately",
                 "table t(k TEXT, v INT) over lines 'k=<word> v=<int>' and its NOT NULL / DEFAULT variants stand for all tables (extraction itself: C01/C02)",
                 "semantic comparison under TZ=UTC", "JSON records are decoded with serde_json (trusted)"]
ENGINE_RULE = ("TLC enumerates statement (menu) x table variant x every input of <= MaxLines lines over the line alphabet x every split into files "
               "x joined file x mode x interrupt point; each behaviour is executed on the real FileExecutor / ExecutionEngine and compared record by record, "
               "status and lines consumed. Non-trivial = at least one record is produced and the model predicts the outcome; distinct by the whole case.")


def check_C04(tier):
    c = Check("C04", tier, "model_checking")
    t = tier == "thorough"
    engine_witness(c, "AggEmptyGroupDropped", "CoreMenu", lines="LinesAgg")
    engine_run(c, "agg", "AggMenu", lines="LinesAgg", maxlines=4 if t else 3, maxfiles=1, tdefs=("plain",) if not t else ("plain", "knn", "vdef"), modes=("batch",))
    # a REAL column (table variant vreal): every aggregate over REAL inputs whose sums are exactly representable
    engine_run(c, "real-column", "RealMenu", lines="LinesReal", maxlines=3, maxfiles=1, tdefs=("vreal",), modes=("batch", "incr") if t else ("batch",))
    # aggregates over TIMESTAMP and INTERVAL values (MIN / MAX by instant, SUM / AVG of intervals, GROUP BY a timestamp, DISTINCT on them)
    engine_run(c, "calendar-agg", "CalAggMenu", lines="LinesCal", maxlines=3, maxfiles=1, tdefs=("plain",), modes=("batch",))
    # PERCENTILE with fractions of three decimals and eighths: rank floor(p * n), on three lines and on 25-40 lines
    engine_run(c, "percentile-fine", "PercentileFineMenu", lines="LinesAgg", maxlines=3, maxfiles=1, tdefs=("plain",), modes=("batch",))
    engine_sim(c, "percentile-fine-long", "PercentileFineMenu", lines="LinesRich", maxlines=40, num=400 if t else 40, modes=("batch",), minlines=25)
    # HAVING and DISTINCT together judge every group on its own key and aggregates
    engine_run(c, "agg-distinct-having", "DistinctMenu", lines="Lines4", maxlines=3, maxfiles=1, tdefs=("plain",), modes=("batch",))
    # an aggregate whose argument has no value on one row of its group: the statement fails, whatever the rows before it were
    engine_run(c, "agg-errors", "ErrAggMenu", lines="LinesErrAgg", maxlines=3, maxfiles=1, tdefs=("plain",), modes=("batch", "incr"))
    engine_sim(c, "agg", "AggMenu", lines="LinesRich", maxlines=10, num=2500 if t else 200, modes=("batch",))
    # COUNT(DISTINCT) over more than 16 distinct values with recurrences (a group's memory of values seen, beyond any small fixed size)
    engine_sim(c, "count-distinct-wide", "DistinctCountMenu", lines="LinesDistinctWide", maxlines=48, num=1000 if t else 60, modes=("batch",), invs=["TypeOK", "BatchRefinesSem"], minlines=40)
    if t:
        engine_scale(c)
    sem_trace(c, tier)
    engine_union(c, t)
    c.rule, c.assumptions, c.exhaustive = ENGINE_RULE, ENGINE_ASSUME, True
    return c.finish()


def check_C03(tier):
    c = Check("C03", tier, "model_checking")
    t = tier == "thorough"
    engine_run(c, "select", "SelectMenu", lines="Lines4", maxlines=4 if t else 3, maxfiles=2 if t else 1, modes=("batch", "incr"))
    engine_run(c, "select-extremes", "SelectMenu", lines="LinesBig", maxlines=2 if t else 1, maxfiles=1, modes=("batch", "incr"), tdefs=("plain", "vdef"))
    # numbers compare by value: an INT column against REAL literals where the two types part company (2^53, 2^53 + 2, 2^63, -2^63), either side, every operator, IN, WHERE
    engine_run(c, "int-real-edges", "NumCmpMenu", lines="LinesBig", maxlines=1, maxfiles=1, modes=("incr", "batch"), tdefs=("plain",))
    engine_run(c, "functions", "FunctionMenu", lines="LinesAgg", maxlines=3 if t else 2, maxfiles=1, modes=("incr", "batch"), tdefs=("plain",))
    # the same meaning when the statement is written with the fewest parentheses the standard precedence allows (what a user types)
    engine_run(c, "precedence", "PrecMenu", lines="Lines4", maxlines=2, maxfiles=1, modes=("incr", "batch"), tdefs=("plain",))
    # timestamps and intervals (calendar arithmetic under TZ=UTC), pow / sqrt / regex_matches / date_trunc / EXTRACT(EPOCH), casts between them
    engine_run(c, "calendar", "CalMenu", lines="LinesCal", maxlines=3 if t else 2, maxfiles=1, modes=("incr", "batch"), tdefs=("plain",))
    # impl -> spec, semantic: random typed expression trees (depth <= 4) evaluated by the real engine; TLC evaluates Expr.Eval on each
    trace_check(c, "expr", "Trace_Expr", 12000 if t else 4000, "expr", "random expression trees vs Expr.Eval", constants={"Dev": set()}, rounds=3 if t else 1, env={"TZ": "UTC"})
    laws_trace(c, 2 if t else 1, 300 if t else 100)
    engine_sim(c, "select", "SelectMenu", lines="LinesRich", maxlines=10, num=1500 if t else 120)
    sem_trace(c, tier)
    engine_union(c, t)
    c.rule, c.assumptions, c.exhaustive = ENGINE_RULE, ENGINE_ASSUME, True
    return c.finish()


def check_C05(tier):
    c = Check("C05", tier, "model_checking")
    t = tier == "thorough"
    # the joined file is read by its own loop: every line of it (CRLF, last line without newline, a byte that is not UTF-8, > 10 lines) must reach the index
    rr = tlc("MC_Reader", cfg_text(constants={"MaxLen": 5 if t else 4, "MaxFiles": 1, "Dev": set()}, invariants=["ExactlyOnceInOrder", "Emit"]), "reader-c05", workers=W)
    expect_holds(rr, "Reader (joined file)"); c.add_tlc(rr)
    c.add_report(vh_replay("reader", rr.replay_path, "reader-c05"), "FileExecutor / join loader line reading vs Reader.tla (replay)")
    engine_run(c, "long-joined-file", "JoinMenu", lines="LinesJ", maxlines=2, maxfiles=1, joinsets="JoinSetsLong", tdefs=("plain",))
    engine_run(c, "mixed-joined-file", "JoinMenu", lines="LinesJ", maxlines=2, maxfiles=1, joinsets="JoinSetsMixed", tdefs=("plain",))
    # join on a numeric column whose type differs on the two sides (INT = REAL), values around 2^53 included
    engine_run(c, "numeric-join", "NumJoinMenu", lines="LinesNum", maxlines=3, maxfiles=1, joinsets="JoinSetsNum", tdefs=("numjoin",))
    engine_run(c, "join", "JoinMenu", lines="LinesJ", maxlines=4 if t else 3, maxfiles=1, tdefs=("plain", "knn") if t else ("plain",))
    # a missing joined file / join column is an error (any LIMIT, any input); a DEFAULT of the joined table is for its rows, not for the NULL row of an OUTER JOIN
    engine_run(c, "join-errors", "BadJoinMenu", lines="LinesJ", maxlines=1, maxfiles=1, tdefs=("plain",), invs=["TypeOK", "BatchRefinesSem"], props=())
    engine_run(c, "join-default", "JoinMenu", lines="LinesJ", maxlines=2, maxfiles=1, tdefs=("udef",))
    # several joins in one process with the joined table defined again in between (Session.tla): every statement loads the joined file under the definition in force
    session_run(c, "redefine", ["join", "join2", "redefj", "count"], 4 if t else 3, formats=("text",))
    # a DEFAULT on the joined table's key column: every line of the joined file (an empty one, one that matches nothing) is a row and joins under that key
    engine_run(c, "join-key-default", "JoinMenu", lines="LinesJ", maxlines=2, maxfiles=1, joinsets="JoinSetsEmpty", modes=("batch", "incr"), tdefs=("ukdef",))
    # a table joined with itself: plain names are the queried row, table-qualified names the joined row (WHERE / projections / aggregates / group keys on t.v alone)
    engine_run(c, "self-join", "SelfJoinMenu", lines="LinesJ", maxlines=3 if t else 2, maxfiles=1, modes=("batch", "incr"), tdefs=("selfj",))
    # the pairs a LIMIT keeps are the first of the ordered pair list, also when WHERE / DISTINCT reject earlier partners of a line
    engine_run(c, "join-limit", "LimitJoinMenu", lines="LinesJ", maxlines=3 if t else 2, maxfiles=1, tdefs=("plain",))
    engine_sim(c, "join", "JoinMenu", lines="LinesJ", maxlines=8, num=1500 if t else 120, modes=("batch",))
    engine_union(c, t)
    c.rule, c.assumptions, c.exhaustive = ENGINE_RULE, ENGINE_ASSUME, True
    return c.finish()


def check_C07(tier):
    c = Check("C07", tier, "model_checking")
    t = tier == "thorough"
    engine_run(c, "limit", "LimitMenu", lines="Lines3", maxlines=4 if t else 3, maxfiles=3 if t else 2, tdefs=("plain", "vdef") if t else ("plain",))
    engine_run(c, "limit-join", "LimitJoinMenu", lines="LinesJ", maxlines=3, maxfiles=2, tdefs=("plain",))
    engine_run(c, "limit-distinct-agg", "LimitDistinctMenu", lines="Lines3", maxlines=4, maxfiles=1, tdefs=("plain",))
    engine_follow_run(c, "limit", "FollowMenu", lines="Lines3", maxlines=4 if t else 3, sample=4000 if t else 1200)
    laws_trace(c, 2 if t else 1, 300 if t else 100)
    engine_sim(c, "limit", "LimitMenu", lines="Lines4", maxlines=10, num=2000 if t else 150, modes=("batch",))
    engine_sim(c, "limit-join", "LimitJoinMenu", lines="LinesJ", maxlines=8, num=1000 if t else 80, modes=("batch",))
    if t:
        engine_scale(c)
    engine_union(c, t)
    c.rule, c.assumptions, c.exhaustive = ENGINE_RULE, ENGINE_ASSUME, True
    return c.finish()


def check_C08(tier):
    c = Check("C08", tier, "model_checking")
    t = tier == "thorough"
    engine_run(c, "distinct", "DistinctMenu", lines="Lines4", maxlines=5 if t else 4, maxfiles=1, modes=("batch", "incr"), tdefs=("plain",))
    # DISTINCT with a join: duplicate lines of the joined file still count for aggregates, equal pairs are removed for SELECT
    engine_run(c, "distinct-join", "JoinMenu", lines="LinesJ", maxlines=3 if t else 2, maxfiles=1, tdefs=("plain",))
    # DISTINCT with a LIMIT beyond every size: the memory of seen rows is not sized by the number
    engine_run(c, "limit-huge", "HugeLimitMenu", lines="Lines3", maxlines=3, maxfiles=1, modes=("batch", "incr"), tdefs=("plain",))
    engine_sim(c, "distinct", "DistinctMenu", lines="LinesRich", maxlines=12, num=2000 if t else 150)
    # more than 16 / 32 distinct rows, each recurring later
    engine_sim(c, "distinct-wide", "DistinctMenu", lines="LinesWide", maxlines=64, num=400 if t else 40, minlines=40)
    if t:
        engine_scale(c)
    sem_trace(c, tier)
    engine_union(c, t)
    c.rule, c.assumptions, c.exhaustive = ENGINE_RULE, ENGINE_ASSUME, True
    return c.finish()


def check_C11(tier):
    c = Check("C11", tier, "model_checking")
    t = tier == "thorough"
    engine_run(c, "incr", "CoreMenu", lines="LinesAgg", maxlines=5 if t else 4, maxfiles=1, modes=("incr",), tdefs=("plain", "knn"))
    engine_run(c, "incr-agg", "AggMenu", lines="LinesAgg", maxlines=3, maxfiles=1, modes=("incr",), tdefs=("plain",))
    engine_follow_run(c, "tables", "CoreMenu", lines="LinesAgg", maxlines=4 if t else 3, tdefs=("plain", "knn"), sample=4000 if t else 1200)
    # the batch side of the comparison reads the same lines as the follow side: a byte order mark at the start of a file stays part of its first line
    engine_run(c, "bom-first-line", "BomMenu", lines="LinesBom", maxlines=2, maxfiles=2, modes=("batch", "incr"), tdefs=("anch", "plain"))
    engine_follow_run(c, "bom", "BomMenu", lines="LinesBom", maxlines=2, tdefs=("anch", "plain"), sample=300)
    # ... and white space at the end of a line (blank, tab, NO-BREAK SPACE, CR + blank) stays part of it for every reader: `input`, its length, DISTINCT / GROUP BY on it, an anchored pattern
    engine_run(c, "trailing-blanks", "PostMenu", lines="LinesPost", maxlines=2, maxfiles=2, modes=("batch", "incr"), tdefs=("anch", "plain"))
    engine_follow_run(c, "trailing-blanks", "PostMenu", lines="LinesPost", maxlines=2, tdefs=("anch", "plain"), sample=400)
    # a table for which an empty line is a row (DEFAULT): batch and line-by-line runs see the same rows
    engine_run(c, "incr-default", "CoreMenu", lines="LinesNoise", maxlines=3, maxfiles=1, modes=("incr", "batch"), tdefs=("vdef",))
    # line-by-line feeding of a statement with a join (library API: with_executed_joined_table + execute per line)
    engine_run(c, "incr-join", "JoinMenu", lines="LinesJ", maxlines=3 if t else 2, maxfiles=1, joinsets="JoinSets", modes=("incr",), tdefs=("plain",))
    # values that are equal but distinguishable (0.0 / -0.0, NaN / -NaN) arriving on either side of a shown table: PERCENTILE / MIN / MAX / GROUP BY keep the batch result
    engine_run(c, "incr-real-order", "RealOrderMenu", lines="LinesPick", maxlines=3, maxfiles=1, modes=("incr",), tdefs=("plain",), invs=["TypeOK", "IncrRefinesSem"], props=())
    engine_run(c, "incr-calendar", "CalAggMenu", lines="LinesCal", maxlines=3 if t else 2, maxfiles=1, modes=("incr",), tdefs=("plain",))
    laws_trace(c, 2 if t else 1, 300 if t else 100)
    engine_sim(c, "incr", "AggMenu", lines="LinesRich", maxlines=10, num=2000 if t else 150, modes=("incr",))
    engine_sim(c, "incr-core", "CoreMenu", lines="Lines4", maxlines=12, num=1000 if t else 80, modes=("incr",))
    engine_sim(c, "incr-percentile-long", "PercentileZeroMenu", lines="LinesAroundZero", maxlines=60, num=300 if t else 24, modes=("incr",), invs=["TypeOK", "IncrRefinesSem"], minlines=40)
    engine_union(c, t)
    c.rule, c.assumptions, c.exhaustive = ENGINE_RULE, ENGINE_ASSUME, True
    return c.finish()


def check_C19(tier):
    c = Check("C19", tier, "model_checking")
    t = tier == "thorough"
    engine_run(c, "interrupt", "CoreLimitMenu", lines="Lines3", maxlines=4 if t else 3, maxfiles=2, intrs="AllIntr", tdefs=("plain",))
    engine_run(c, "interrupt-join", "JoinMenu", lines="LinesJ", maxlines=2, maxfiles=1, joinsets="JoinSetsLong", intrs="JoinIntr", tdefs=("plain",))
    laws_trace(c, 2 if t else 1, 300 if t else 100)
    # follow mode: ctrl-c while the reader waits (possibly holding an unterminated piece of a line); the next complete line is not consumed and the run ends
    fr = tlc("MC_Follow", cfg_text(constants=follow_consts(4 if t else 3, [8], 0, False, [], interrupt=True), invariants=["TypeOK", "DeliveredPrefix", "Conservation", "Emit"],
                                   properties=["InterruptFreezesDelivery"]), "follow-interrupt", workers=W, timeout=1500)
    expect_holds(fr, "Follow with interrupts"); c.add_tlc(fr)
    sp, n = sample_ndjson(fr.replay_path, 1500 if t else 250, "follow-interrupt", pred=lambda l: '"e":"I"' in l)
    rep = vh_replay("follow-exec", sp, "follow-interrupt")
    c.add_report(rep, reg("FollowFileExecutor vs Follow.tla (replay, child process)", "follow-exec"))
    # the process itself under a real SIGINT (main.rs: the ctrl-c handler): rows are a prefix, an aggregate shows the table of exactly the lines consumed
    trace_check(c, "sigint", "Trace_Sigint", 40 if t else 10, "sigint", "the sqlgrep process interrupted by SIGINT", constants={"Slack": 20000}, rounds=2 if t else 1,
                env={"VH_CLI": vlib.build_cli()})
    c.rule, c.assumptions, c.exhaustive = ENGINE_RULE, ENGINE_ASSUME, True
    return c.finish()


def check_C06(tier):
    c = Check("C06", tier, "model_checking")
    t = tier == "thorough"
    engine_run(c, "noise", "NoiseMenu", lines="LinesNoise", maxlines=4 if t else 3, maxfiles=1, modes=("batch", "incr"), tdefs=("plain", "knn", "vdef", "bothnn") if t else ("plain", "vdef", "bothnn"))
    engine_run(c, "noise-join", "JoinMenu", lines="LinesNoise", maxlines=2, maxfiles=1, tdefs=("plain", "knn"))
    engine_run(c, "noise-default", "NoiseMenu", lines="LinesNoiseDefault", maxlines=3, maxfiles=1, modes=("batch", "incr"), tdefs=("vdef", "plain", "nndef"))
    # a pattern anchored at both ends (^...$) and noise lines longer than the reader's buffers (8 KiB, 64 KiB) whose tail reads like a row
    engine_run(c, "noise-long", "CoreLimitMenu", lines="LinesNoiseLong", maxlines=3, maxfiles=2 if t else 1, modes=("batch", "incr"), tdefs=("anch",))
    # follow mode (FollowFileExecutor in a child process): selects and aggregates with and without LIMIT over inputs with noise lines -- a line that
    # yields no row shows nothing and uses up nothing of the limit
    engine_follow_run(c, "noise", "FollowMenu", lines="LinesNoise", maxlines=3, tdefs=("plain",), sample=1500 if t else 600)
    # the admission rule itself, per (definition, line): rows of three columns with NOT NULL / DEFAULT in every position, and tables that mix JSON
    # and regex columns with the NOT NULL column before, at and after the first JSON column
    r = tlc("MC_Extract", cfg_text(constants={"Dev": set(), "CaseSets": {q("rows"), q("admit")}}, invariants=["Independent", "Admission", "Emit"]), "extract-C06", workers=W, timeout=1500)
    expect_holds(r, "Extract rules (rows, admit)"); c.add_tlc(r)
    c.add_report(vh_replay("extract", r.replay_path, "extract-C06", env_extra={"TZ": "UTC"}), reg("TableDefinition::extract (admission) vs Extract.tla", "extract"))
    extract_trace(c, tier)
    laws_trace(c, 2 if t else 1, 300 if t else 100)
    engine_sim(c, "noise", "NoiseMenu", lines="LinesNoise", maxlines=12, num=1500 if t else 120, tdefs=("plain", "bothnn"))
    engine_union(c, t)
    c.rule, c.assumptions, c.exhaustive = ENGINE_RULE, ENGINE_ASSUME, True
    return c.finish()


# =====================================================================================  the command-line driver (Cli.tla)
CLI_WHAT = reg("sqlgrep process vs Cli.tla (replay)", "cli")
CLI_INVS = ["TypeOK", "FilesInOrder", "MessageOrRecords", "HeaderOnce"]


def cli_run(c, name, queries, defkinds, formats, maxargs, fileids=("fa", "fb", "fe", "missing"), sample=None):
    """Cli.tla: TLC checks the process-level invariants on the model and emits every behaviour (argument vector, files, statement, flags);
    each is one invocation of the real binary whose stdout lines and exit status must be the model's."""
    exe = vlib.build_cli()
    k = {"Dev": set(), "FileIds": {q(x) for x in fileids}, "MaxArgs": maxargs, "Queries": {q(x) for x in queries},
         "DefKinds": {q(x) for x in defkinds}, "Formats": {q(x) for x in formats}}
    r = tlc("MC_Cli", cfg_text(constants=k, invariants=CLI_INVS + ["Emit"]), "cli-" + name, workers=W, timeout=900)
    expect_holds(r, "Cli " + name); c.add_tlc(r)
    path, n = (r.replay_path, r.replays) if not sample or r.replays <= sample else sample_ndjson(r.replay_path, sample, "cli-" + name)
    t0 = time.time()
    rep = vh_replay("cli", path, "cli-" + name, env_extra={"VH_CLI": exe, "TZ": "UTC"})
    c.add_report(rep, CLI_WHAT)
    c.extra.setdefault("configs", []).append({"name": "cli-" + name, "queries": sorted(queries), "definitions": sorted(defkinds), "formats": sorted(formats), "max_args": maxargs,
                                              "behaviours_generated": r.replays, "behaviours_replayed": rep.get("cases", 0), "states": r.distinct,
                                              "tlc_s": round(r.wall, 1), "replay_s": round(time.time() - t0, 1)})
    return rep


SESSION_CMDS = ["all", "join", "join2", "count", "group", "limit1", "selw", "dist", "rea", "reb", "createw", "redefj", "bad", "exit", "dt", "dw"]


def session_run(c, name, commands, maxcmds, formats=("text", "json", "csv"), sample=None):
    """Session.tla: several statements / commands piped into one process (the interactive loop); TLC checks HistoryFree / ExitEnds and emits
    every session, each is one run of the real binary compared line by line."""
    exe = vlib.build_cli()
    k = {"Dev": set(), "Commands": {q(x) for x in commands}, "MaxCmds": maxcmds, "Formats": {q(x) for x in formats}}
    r = tlc("MC_Session", cfg_text(constants=k, invariants=["TypeOK", "HistoryFree", "ExitEnds", "Emit"]), "session-" + name, workers=W, timeout=900)
    expect_holds(r, "Session " + name); c.add_tlc(r)
    path, n = (r.replay_path, r.replays) if not sample or r.replays <= sample else sample_ndjson(r.replay_path, sample, "session-" + name)
    t0 = time.time()
    rep = vh_replay("session", path, "session-" + name, env_extra={"VH_CLI": exe, "TZ": "UTC"})
    c.add_report(rep, reg("sqlgrep interactive loop vs Session.tla (replay)", "session"))
    c.extra.setdefault("configs", []).append({"name": "session-" + name, "commands": sorted(commands), "max_commands": maxcmds, "sessions_generated": r.replays,
                                              "sessions_replayed": rep.get("cases", 0), "states": r.distinct, "tlc_s": round(r.wall, 1), "replay_s": round(time.time() - t0, 1)})
    return rep


# =====================================================================================  C12
READER_DEVS = ["InvalidUtf8EndsFile"]


def check_C12(tier):
    c = Check("C12", tier, "model_checking")
    t = tier == "thorough"
    dev = vlib.open_devs(READER_DEVS)
    invs = ["ExactlyOnceInOrder", "PrefixAlways", "ConcatLaw", "NothingLostSilently"]
    consts = lambda d: {"MaxLen": 6 if t else 5, "MaxFiles": 3 if t else 2, "Dev": {q(x) for x in d}}
    if dev:
        r0 = tlc("MC_Reader", cfg_text(constants=consts([]), invariants=invs), "reader-ideal", workers=W)
        expect_holds(r0, "Reader (Ideal)"); c.add_tlc(r0)
        for d in dev:
            rw = tlc("MC_Reader", cfg_text(constants={"MaxLen": 3, "MaxFiles": 1, "Dev": {q(d)}}, invariants=invs), "reader-dev-" + d, workers=W)
            if not expect_witness(rw, d):
                raise ToolError("deviation %s does not break C12 in the model" % d)
    r = tlc("MC_Reader", cfg_text(constants=consts(dev), invariants=(invs if not dev else []) + ["Emit"]), "reader", workers=W, timeout=1500)
    expect_holds(r, "Reader"); c.add_tlc(r)
    rep = vh_replay("reader", r.replay_path, "reader")
    c.add_report(rep, reg("FileExecutor / join loader line reading vs Reader.tla (replay)", "reader"))
    # the same files through the whole engine: statements over inputs split into files (Engine.tla)
    engine_run(c, "files", "CoreLimitMenu", lines="Lines3", maxlines=4 if t else 3, maxfiles=3, tdefs=("plain",))
    # a joined file of 34 lines (with non-rows among them): every line of it must reach the join
    engine_run(c, "long-joined-file", "JoinMenu", lines="LinesJ", maxlines=2, maxfiles=1, joinsets="JoinSetsLong", tdefs=("plain",))
    # a byte order mark at the start of the first / a later file is part of that file's first line, like any other character (files are read the same way wherever they stand)
    engine_run(c, "bom-first-line", "BomMenu", lines="LinesBom", maxlines=2, maxfiles=2, modes=("batch",), tdefs=("anch", "plain"))
    # the process itself: input files in command-line order, FROM t::'file' and --stdin replacing them, a file that cannot be opened, statistics
    cli_run(c, "files", ["all", "count", "limit1", "limit2", "from", "frommissing"], ["ok"], ["json"], 3 if t else 2, fileids=("fa", "fb", "fc", "fe", "missing") if t else ("fa", "fb", "fe", "missing"))
    laws_trace(c, 2 if t else 1, 300 if t else 100)
    c.rule = ("TLC enumerates every byte content up to MaxLen over {x, LF, CR, 0xFF, 0xC3, 0xA9} (U+00E9 whole, cut off by a line end / file end / other byte, its second byte alone) and every cut into 1..MaxFiles files; each case is written to real files "
              "(x also expanded to runs of 8191/8192/8193 bytes around the BufReader capacity for every 50th case) and read by FileExecutor (SELECT x, COUNT(*), total_lines) and by the join loader. "
              "Non-trivial = at least one line; distinct by (files, run length).")
    c.assumptions = ["the regex (.*) admits every line", "invalid UTF-8 is modelled by 0xFF, a lead byte without its continuation and a continuation byte without its lead"]
    c.exhaustive = True
    return c.finish()


# =====================================================================================  C17
def check_C17(tier):
    c = Check("C17", tier, "model_checking")
    t = tier == "thorough"
    invs = ["EveryRowOnceInOrder", "HeaderOnce", "FieldsPerRecord", "Emit"]
    fm = {q("text"), q("json"), q("csv")}
    # every value of the boundary universe in every format, single results
    r = tlc("MC_Printer", cfg_text(constants={"Dev": set(), "Formats": fm, "ResultMenu": "<-MenuAll", "MaxCalls": 1}, invariants=invs), "printer-values", workers=W)
    expect_holds(r, "Printer (values)"); c.add_tlc(r)
    rep = vh_replay("printer", r.replay_path, "printer-values", env_extra={"TZ": "UTC"})
    c.add_report(rep, reg("OutputPrinter vs Printer.tla (replay)", "printer"))
    # sequences of results: header once, separators, first_line carried across calls
    r = tlc("MC_Printer", cfg_text(constants={"Dev": set(), "Formats": fm, "ResultMenu": "<-MenuSeq", "MaxCalls": 5 if t else 4}, invariants=invs), "printer-seq", workers=W)
    expect_holds(r, "Printer (sequences)"); c.add_tlc(r)
    rep = vh_replay("printer", r.replay_path, "printer-seq", env_extra={"TZ": "UTC"})
    c.add_report(rep, "OutputPrinter vs Printer.tla (replay)")
    if t:
        r = tlc("MC_Printer", cfg_text(constants={"Dev": set(), "Formats": fm, "ResultMenu": "<-TwoCol", "MaxCalls": 2}, invariants=invs), "printer-two", workers=W)
        expect_holds(r, "Printer (two columns)"); c.add_tlc(r)
        rep = vh_replay("printer", r.replay_path, "printer-two", env_extra={"TZ": "UTC"})
        c.add_report(rep, "OutputPrinter vs Printer.tla (replay)")
    # impl -> spec over random results: any 64-bit integer, any finite or non-finite REAL, TEXT with control characters / quotes / delimiters (JSON), arrays, timestamps
    # within the same second as the one printed before, 1-3 print() calls per printer; replayed through Printer.tla's own PrintResult action
    trace_check(c, "printer", "Trace_Printer", 12000 if t else 3000, "printer", "random results vs Printer.tla (trace)",
                constants={"Dev": set(), "Formats": {q("text")}, "ResultMenu": set(), "MaxCalls": 0}, rounds=3 if t else 1, env={"TZ": "UTC"},
                invariants=("TraceUnfinished", "EveryRowOnceInOrder", "HeaderOnce"))
    # the records as the process prints them on stdout in every --format (header once, one record per line, statistics line last)
    cli_run(c, "formats", ["all", "count", "second", "limit1", "limit2"], ["ok", "two"], ["text", "json", "csv"], 2, sample=None if t else 1500)
    # the interactive loop: results are not "single" there -- the rows one line fans out to are followed by an empty line, an aggregate's final table is not
    session_run(c, "separators", ["all", "join", "count", "group", "limit1", "bad"], 2)
    # end to end: rows produced by the engine and printed by FileExecutor as JSON (Engine.tla replays decode every record)
    engine_run(c, "print-e2e", "SelectMenu", lines="Lines3", maxlines=2, maxfiles=1, tdefs=("plain",))
    c.rule = ("TLC enumerates sequences of print() calls (0-3 rows x 1-2 columns, single / multi) x the three formats over a boundary value universe "
              "(NULL, 64-bit extremes, reals incl. NaN/inf/-0.0, texts with quotes, delimiter, line break, control, non-ASCII and astral characters, arrays); the real OutputPrinter prints them into a capturing Printer. "
              "JSON records are decoded with serde_json and compared key by key and value by value; text / CSV records are compared as exact lines for delimiter-free values. Non-trivial = at least one record.")
    c.assumptions = ["serde_json's parser is trusted to decode the printed JSON", "text / CSV line content is only specified for values free of delimiter, quote and line-break characters (as the property says)"]
    c.exhaustive = True
    return c.finish()


# =====================================================================================  C16
VALUE_DEVS = ["NumVariantOrder", "FloatNanOrd", "FloatHashBits"]
IDEAL_LAWS = ["Trichotomy", "Transitivity", "EqConsistent", "EqualHashEqual", "NumbersByValue"]
ASBUILT_LAWS = ["TrichotomyB", "TransitivityB", "EqConsistentB", "EqualHashEqualB", "NumbersByValueB"]


def check_C16(tier):
    c = Check("C16", tier, "model_checking")
    t = tier == "thorough"
    dev = vlib.open_devs(VALUE_DEVS)
    # 1. the Ideal order satisfies every law on all triples of the boundary universe; with no open finding the as-built order too
    r = tlc("MC_Values", cfg_text(constants={"Dev": set()}, invariants=IDEAL_LAWS + ASBUILT_LAWS), "values-laws", workers=W)
    expect_holds(r, "Values laws (Ideal)"); c.add_tlc(r)
    n_triples = r.distinct; n_values = round(n_triples ** (1.0 / 3))
    # 2. each open deviation breaks a law in the model
    for d in dev:
        rw = tlc("MC_Values", cfg_text(constants={"Dev": {q(d)}}, invariants=ASBUILT_LAWS), "values-dev-" + d, workers=W)
        if not expect_witness(rw, d):
            raise ToolError("deviation %s breaks no law of C16 in the model: stale finding?" % d)
        c.notes.append("TLC witness for %s: %s" % (d, rw.violated))
    # 3. spec -> impl: ==, cmp, partial_cmp, <, >, hash on every ordered pair
    r = tlc("MC_Values", cfg_text(constants={"Dev": {q(d) for d in dev}}, invariants=["Emit"]), "values-pairs", workers=W)
    expect_holds(r, "Values pairs"); c.add_tlc(r)
    rep = vh_replay("values", r.replay_path, "values", env_extra={"TZ": "UTC"})
    c.add_report(rep, reg("Value ==/cmp/hash vs Values.tla (replay)", "values"))
    # 4. every consumer named in the property, on every same-kind pair: WHERE, DISTINCT, GROUP BY (grouping + order), MIN/MAX, array_unique
    engine_run(c, "pairs", "PairMenu", lines="LinesPair", maxlines=2, maxfiles=1, modes=("incr",), tdefs=("plain",),
               invs=["TypeOK", "IncrRefinesSem", "IncrSelectRefinesSem"], props=(), module="MC_EnginePairs")
    # 4b. the same order where an operand is written as text (a TIMESTAMP against a text literal on either side of every operator) and across TIMESTAMP / INTERVAL functions
    engine_run(c, "calendar-compare", "CalMenu", lines="LinesCal", maxlines=1, maxfiles=1, modes=("incr",), tdefs=("plain",), invs=["TypeOK", "IncrSelectRefinesSem"], props=())
    # 4c. whole rows: DISTINCT / GROUP BY over tuples of three and four columns whose values are exchanged between rows and columns
    engine_run(c, "tuples", "TupleMenu", lines="Lines4", maxlines=4 if t else 3, maxfiles=1, modes=("batch", "incr"), tdefs=("plain",))
    # 4d. join lookup: an INT key finds the REAL key of equal value and the other way round (values around 2^53 included), a NULL key finds nothing
    engine_run(c, "numeric-join", "NumJoinMenu", lines="LinesNum", maxlines=3 if t else 2, maxfiles=1, joinsets="JoinSetsNum", tdefs=("numjoin",))
    # 5. impl -> spec: random values
    for i in range(3 if t else 1):
        tp = vh_trace("values", 6000 if t else 2500, "values%d" % i, seed_=vlib.seed() * 100 + i, env_extra={"TZ": "UTC"})
        ok, tr = validate_trace("Trace_Values", tp, "trace-values%d" % i, constants={"Dev": {q(d) for d in dev}},
                                invariants=["TraceUnfinished"], post="TraceRejectedAt", extra={"constraint": "TrackProgress"})
        c.add_tlc(tr)
        if ok:
            n = sum(1 for _ in open(tp)); c.traces += n; c.evaluations += n; c.extra["random_pairs_validated"] = c.extra.get("random_pairs_validated", 0) + n
        else:
            keep = os.path.join(vlib.REPLAYS, "C16-trace-%d-%d.ndjson" % (vlib.seed(), i)); os.makedirs(vlib.REPLAYS, exist_ok=True); os.replace(tp, keep)
            c.violation("random value comparisons rejected by Trace_Values.tla", {"trace": keep, "tlc": tr.log[max(0, tr.log.find("TRACE-REJECTED") - 5):][:900]})
    c.rule = ("TLC checks trichotomy, transitivity, equality = order, equal => same hash and numbers-by-value on all %d triples of a %d-value boundary universe; " % (n_triples, n_values) +
              "every ordered pair is executed on the real Value (==, cmp, partial_cmp, <, >, Hash with two hashers) and through WHERE / DISTINCT / GROUP BY / MIN / MAX / array_unique; "
              "random wider pairs are validated as a trace. Non-trivial = both values non-NULL; distinct by the pair.")
    c.assumptions = ["semantic comparison under TZ=UTC", "hash inequality is never required, only equal => equal hash"]
    c.exhaustive = True
    return c.finish()


# =====================================================================================  C13 / C20 / C14
def trace_check(c, module, trace_module, n, name, what, constants=None, rounds=1, env=None, invariants=("TraceUnfinished",), extra=None, per_pid=False):
    """impl -> spec helper: record a trace with `vh trace <module>` and validate it with TLC
    (per_pid: each property's check draws its own random trace)"""
    for i in range(rounds):
        sd = vlib.seed() * 100 + i + (1000003 * int(c.pid[1:]) if per_pid else 0)
        tp = vh_trace(module, n, "%s%d" % (name, i), seed_=sd, env_extra=env)
        if tp is None:
            c.violation(what + ": hang", {"seed": sd}); continue
        ex = {"constraint": "TrackProgress"}
        ex.update(extra or {})
        ok, tr = validate_trace(trace_module, tp, "trace-%s%d" % (name, i), constants=constants or {}, invariants=list(invariants),
                                post="TraceRejectedAt", extra=ex)
        c.add_tlc(tr)
        nev = sum(1 for _ in open(tp))
        if ok:
            c.traces += nev; c.evaluations += nev
            c.extra[name + "_trace_events_accepted"] = c.extra.get(name + "_trace_events_accepted", 0) + nev
            for ln in tr.log.splitlines():
                if "TRACE-STATS" in ln:      # events whose outcome the model predicted (the rest are only checked for totality)
                    nums = [int(x) for x in ln.replace(">>", " ").replace(",", " ").split() if x.isdigit()]
                    c.extra[name + "_trace_events_predicted"] = c.extra.get(name + "_trace_events_predicted", 0) + (min(nums[0], nev) if nums else 0)
                    if nums and nums[0] * 2 < nev:
                        raise ToolError("%s: the model predicted fewer than half of the recorded events (%d of %d): the trace check is nearly vacuous" % (name, nums[0], nev))
            if len(c.samples) < 8:
                c.samples.append({"kind": what, "event": json.loads(open(tp).readline())})
        else:
            keep = os.path.join(vlib.REPLAYS, "%s-trace-%s-%d-%d.ndjson" % (c.pid, name, vlib.seed(), i))
            os.makedirs(vlib.REPLAYS, exist_ok=True); os.replace(tp, keep)
            c.violation(what + " rejected by %s.tla" % trace_module, {"trace": keep, "tlc": tr.log[max(0, tr.log.find("TRACE-REJECTED") - 5):][:900]})


def check_C13(tier):
    c = Check("C13", tier, "model_checking")
    t = tier == "thorough"
    r = tlc("MC_Grammar", cfg_text(constants={"Depth": 4 if t else 3}, invariants=["RoundTripHolds", "Emit"]), "grammar", workers=W, timeout=1500)
    expect_holds(r, "Grammar round trip (Parse(Min(t)) = t = Parse(Full(t)))"); c.add_tlc(r)
    rep = vh_replay("grammar", r.replay_path, "grammar")
    c.add_report(rep, reg("parser vs Grammar.tla (minimal vs full parentheses)", "grammar"))
    # the same grouping judged by VALUES: statements written with the fewest parentheses, executed row by row (a regrouping made after parsing, in the lowering, shows only there)
    engine_run(c, "precedence-values", "PrecMenu", lines="Lines4", maxlines=2, maxfiles=1, modes=("incr", "batch"), tdefs=("plain",))
    c.rule = ("TLC enumerates expression trees (all operators, <= 2 operator nodes, 3 nodes over one operator per precedence level and the 'low, tighter, low' shapes; thorough: 4 nodes over the representatives), checks on the reference grammar that the "
              "minimally parenthesised text parses back to the tree, and emits Min(t) and Full(t); the real parser must produce the same statement for Min(t) written with spaces, "
              "written without any optional whitespace, and for Full(t). Non-trivial = more than one token; distinct by Min(t).")
    c.assumptions = ["Full(t) is unambiguous for the real parser because every operand is parenthesised"]
    c.exhaustive = True
    return c.finish()


LEX_ALL = set(range(1, 16))


def check_C20(tier):
    c = Check("C20", tier, "model_checking")
    t = tier == "thorough"
    consts = lambda edits, seps, perm, stmts=LEX_ALL: {"MaxEdits": edits, "StmtIndexes": set(stmts), "SepChoice": set(seps), "PermuteClauses": perm}
    runs = [("single", consts(1, range(1, 23), True)),
            ("perms", consts(4, [], True, {1, 3, 4, 5})),
            ("pairs", consts(2, [1, 4, 7, 8, 11, 13, 18, 20] if not t else range(1, 23), False, {1, 6, 8, 9, 13} if not t else LEX_ALL))]
    for name, k in runs:
        r = tlc("MC_Lexical", cfg_text(constants=k, invariants=["LexesAsIntended", "Emit"], view="view"), "lexical-" + name, workers=W, timeout=2400)
        expect_holds(r, "Lexical %s (ideal lexer reads every layout variant as the base token stream)" % name); c.add_tlc(r)
        rep = vh_replay("lexical", r.replay_path, "lexical-" + name)
        c.add_report(rep, reg("parser vs Lexical.tla (layout variants)", "lexical"))
    # the process: what -c / --command-file hand to the parser is the text as given -- a `;` inside a comment ends nothing, a final `;` and line break are layout
    cli_run(c, "layout", ["commentsemi", "trailnl", "limit1", "limit2", "parsetrunc"], ["ok"], ["text"], 1, fileids=("fa", "fb"))
    laws_trace(c, 2 if t else 1, 300 if t else 100)
    c.rule = ("TLC applies every single edit (case flip of each keyword / function / aggregate / type name, each of 22 separators incl. comments and whitespace beyond ASCII (VT, FF, NBSP, NEL, U+2028, U+3000, U+2003) in every gap, leading / trailing separator, "
              "semicolon), every clause permutation and every pair of edits to 12 base statements covering the grammar, checks with an ideal lexer that the text still reads as the same tokens, "
              "and the real parser must return the same statement (Debug form) as for the base layout. Non-trivial = at least one edit; distinct by text.")
    c.assumptions = ["the Debug form of Statement identifies the statement", "string literal contents are not edited"]
    c.exhaustive = True
    return c.finish()


def check_C14(tier):
    c = Check("C14", tier, "exploration")
    t = tier == "thorough"
    for name, k in [("mut", {"MaxEdits": 2 if t else 1, "StmtIndexes": LEX_ALL, "GenModes": {q("mut"), q("extra")}}),
                    ("soup", {"MaxEdits": 3 if t else 2, "StmtIndexes": set(), "GenModes": {q("soup")}})]:
        r = tlc("ParseTotal", cfg_text(constants=k, invariants=["Emit"]), "parsetotal-" + name, workers=W, timeout=2400)
        expect_holds(r, "ParseTotal " + name); c.add_tlc(r)
        rep = vh_replay("parsetotal", r.replay_path, "parsetotal-" + name)
        c.add_report(rep, reg("parser totality vs ParseTotal.tla", "parsetotal"))
    # the process: a statement / definition file that does not parse gives one located message (exit status 1 only for the definition file), no crash
    cli_run(c, "messages", ["parsebad", "parsetrunc", "parsetrunc2", "commentsemi", "trailnl", "create", "all", "notable"], ["ok", "bad", "twobad", "nosemi", "none"], ["text"], 1)
    trace_check(c, "parse", "Trace_Parse", 20000 if t else 5000, "parse", "random Unicode / mutated statements", rounds=2 if t else 1)
    c.rule = ("TLC generates: every valid base statement with one (thorough: two) lexeme deleted / duplicated / swapped and every character prefix; all token soups of <= 2 (thorough 3) tokens over a "
              "51-token vocabulary; 24 malformed-but-plausible statements that must be errors; nesting of ( [ CASE up to depth 64. The harness parses each (parse and parse_into_tree) under "
              "catch_unwind with overflow checks on, checks the error position lies inside the text and calls extract_near. Random Unicode strings come from a seeded driver and are validated as a trace. "
              "Non-trivial = the text is rejected with a located error (or is not a mutation); distinct by text.")
    c.assumptions = ["the model is a generator / classifier here: it fixes the outcome class, not the statement produced", "nesting deeper than 64 is outside the documented bound"]
    return c.finish()


# =====================================================================================  C01 / C02
def extract_check(pid, tier, sets, what):
    c = Check(pid, tier, "model_checking")
    r = tlc("MC_Extract", cfg_text(constants={"Dev": set(), "CaseSets": {q(s) for s in sets}}, invariants=["Independent", "Admission", "Emit"]), "extract-" + pid, workers=W, timeout=1500)
    expect_holds(r, "Extract rules (%s)" % ",".join(sets)); c.add_tlc(r)
    rep = vh_replay("extract", r.replay_path, "extract-" + pid, env_extra={"TZ": "UTC"})
    c.add_report(rep, reg(what, "extract"))
    # the admission rule and the extracted values as every statement kind sees them (Engine.tla over table variants)
    engine_run(c, "admission", "CoreMenu", lines="LinesNoise", maxlines=2, maxfiles=1, tdefs=("plain", "knn", "vdef", "bothnn"))
    extract_trace(c, tier)
    # the lines themselves: what reaches the extraction is the file's line (a line that is not UTF-8, CRLF, a last line without line break never disturb their neighbours)
    rr = tlc("MC_Reader", cfg_text(constants={"MaxLen": 4, "MaxFiles": 1, "Dev": set()}, invariants=["ExactlyOnceInOrder", "Emit"]), "reader-" + pid, workers=W)
    expect_holds(rr, "Reader (%s)" % pid); c.add_tlc(rr)
    c.add_report(vh_replay("reader", rr.replay_path, "reader-" + pid), "FileExecutor / join loader line reading vs Reader.tla (replay)")
    c.assumptions = ["the regex crate is trusted for matching itself; the capture groups of every generated line are cross-checked against it directly (a disagreement is a tool error)",
                     "REAL literals outside plain decimals, a TIMESTAMP whose month group did not take part, duplicate JSON keys and numbers beyond i64 read as REAL are left open (outcome not compared, only totality)",
                     "semantic comparison under TZ=UTC"]
    c.exhaustive = True
    return c


def extract_trace(c, tier):
    """impl -> spec, semantic: random definitions (a pool of realistic patterns in capture / split mode, inline patterns, JSON paths, every type and modifier) x random lines
    (log-like tokens with CR / TAB / Unicode blanks / numeric extremes; JSON written with escapes, blanks and other number spellings). What the patterns match and what the line
    is as JSON come from the regex / serde_json crates; Trace_Extract.tla computes the row from that with Extract.tla and demands the observed row."""
    t = tier == "thorough"
    trace_check(c, "extract", "Trace_Extract", 30000 if t else 6000, "extract", "random definitions x lines vs Extract.tla (trace)", constants={"Dev": set()},
                rounds=4 if t else 1, env={"TZ": "UTC"}, per_pid=True)


def check_C01(tier):
    c = extract_check("C01", tier, ["types", "rows", "ts", "arrays", "split"], "TableDefinition::extract (regex / split) vs Extract.tla")
    c.rule = ("TLC enumerates (definition, line) cases: every column type x modifier x group state (pattern no-match, group absent, empty, in-type, padded, other-type literal, i64::MAX, MAX+1, MIN, 25 digits, 2^32+1), "
              "rows of three columns sharing groups with NOT NULL / DEFAULT in every position, group 0 and out-of-range groups, TIMESTAMP assembly from 2-7 groups with each part absent / valid / zero / past range / "
              "2^32+1 / negative / non-numeric / month name (all pairs for month x day, leap years, MICROSECONDS), arrays of 2-3 positions x element types, split fields, inline pattern, a second match later in the line. "
              "Each definition is rendered to CREATE TABLE text (or built through the API when the grammar cannot express it), parsed by the real parser and executed with SELECT *. Non-trivial = the line yields a row.")
    return c.finish()


def check_C02(tier):
    c = extract_check("C02", tier, ["jsonleaf", "jsonpath", "admit"], "TableDefinition::extract (JSON paths) vs Extract.tla")
    c.rule = ("TLC enumerates JSON-path columns: 18 leaf kinds (ints incl. i64::MAX, 2^63, 2^64, 1.0, 1.5, numeric / other / timestamp strings, bool, null, homogeneous / mixed / nested arrays, object) x 8 declared types "
              "x plain / CONVERT / DEFAULT / NOT NULL, paths of length 1-3 through objects and arrays over documents with missing and wrong-kind intermediate nodes and duplicate keys, lines that are not JSON "
              "(empty, text, truncated, trailing garbage, two documents), each with a regex column on the raw line riding along. Non-trivial = the line yields a row.")
    return c.finish()


# =====================================================================================  C15 / laws on corpora
def laws_trace(c, rounds, per):
    trace_check(c, "laws", "Trace_Laws", per, "laws", "relational laws on the repository's corpora", rounds=rounds, env={"TZ": "UTC"})


def check_C15(tier):
    c = Check("C15", tier, "model_checking")
    t = tier == "thorough"
    engine_run(c, "order", "OrderMenu", lines="LinesAgg", maxlines=4 if t else 3, maxfiles=1, tdefs=("plain",),
               invs=["TypeOK", "BatchRefinesSem", "PermLaw", "CombineLaw"], props=())
    # the lines themselves do not depend on where they fall relative to the reader's buffer (a line mangled at an 8 KiB boundary would move between groups with the order of the input)
    rr = tlc("MC_Reader", cfg_text(constants={"MaxLen": 4, "MaxFiles": 2, "Dev": set()}, invariants=["ExactlyOnceInOrder", "ConcatLaw", "Emit"]), "reader-c15", workers=W)
    expect_holds(rr, "Reader (C15)"); c.add_tlc(rr)
    c.add_report(vh_replay("reader", rr.replay_path, "reader-c15"), "FileExecutor / join loader line reading vs Reader.tla (replay)")
    # aggregates over REALs closer than f64::EPSILON / the two zeros / NaN, in both arrival orders (typed comparison in incremental mode)
    engine_run(c, "real-order", "RealOrderMenu", lines="LinesPick", maxlines=3, maxfiles=1, modes=("incr",), tdefs=("plain",), invs=["TypeOK", "IncrRefinesSem", "PermLaw"], props=())
    engine_run(c, "order-real-column", "RealMenu", lines="LinesReal", maxlines=3, maxfiles=1, tdefs=("vreal",), invs=["TypeOK", "BatchRefinesSem", "PermLaw"], props=())
    # order-insensitive aggregates over TIMESTAMP / INTERVAL values with NULLs in every position of a group (every ordering of every input)
    engine_run(c, "order-calendar", "CalAggMenu", lines="LinesCal", maxlines=3, maxfiles=1, tdefs=("plain",), invs=["TypeOK", "BatchRefinesSem", "PermLaw"], props=())
    # an expression under SUM / AVG / MIN / MAX that overflows on one row of a group: the same error for every order of the rows
    engine_run(c, "order-overflow", "OverflowAggMenu", lines="LinesOvf", maxlines=3, maxfiles=1, tdefs=("plain",), modes=("batch", "incr"), invs=["TypeOK", "BatchRefinesSem", "PermLaw"], props=())
    # an argument without a value on one row of a group: the same error wherever the row stands (no aggregate may stop looking at its argument once it is "decided")
    engine_run(c, "order-errors", "ErrAggMenu", lines="LinesErrAgg", maxlines=3, maxfiles=1, tdefs=("plain",), modes=("batch", "incr"), invs=["TypeOK", "BatchRefinesSem", "PermLaw"], props=())
    # LIMIT next to HAVING / DISTINCT: which groups fill the limit does not depend on the order in which groups first appear
    engine_run(c, "order-limit", "OrderLimitMenu", lines="Lines3", maxlines=4 if t else 3, maxfiles=1, tdefs=("plain",), invs=["TypeOK", "BatchRefinesSem", "PermLaw"], props=())
    # the result over a concatenation of files does not depend on which file a line stands in -- also a line that starts with a byte order mark
    engine_run(c, "bom-files", "BomMenu", lines="LinesBom", maxlines=2, maxfiles=2, modes=("batch",), tdefs=("anch", "plain"), invs=["TypeOK", "BatchRefinesSem"], props=())
    # follow mode shows the table of the lines consumed after every line, whatever the order of the lines and however many arrive at once (a line that
    # yields no row last, a burst of lines already waiting in the file)
    engine_follow_run(c, "order", "CoreMenu", lines="LinesNoise", maxlines=3, tdefs=("plain",), sample=1500 if t else 400)
    # COUNT(DISTINCT) with up to 10 distinct values and recurrences: long random inputs
    engine_sim(c, "count-distinct", "DistinctCountMenu", lines="LinesDistinct", maxlines=16, num=4000 if t else 500, modes=("batch",), invs=["TypeOK", "BatchRefinesSem"])
    engine_sim(c, "count-distinct-wide", "DistinctCountMenu", lines="LinesDistinctWide", maxlines=48, num=1000 if t else 70, modes=("batch",), invs=["TypeOK", "BatchRefinesSem"], minlines=40)
    laws_trace(c, 3 if t else 1, 400 if t else 150)
    engine_sim(c, "order", "OrderMenu", lines="LinesRich", maxlines=8, num=1500 if t else 120, modes=("batch",), invs=["TypeOK", "BatchRefinesSem"])
    if t:
        engine_scale(c)
    engine_union(c, t, joins=False)
    c.rule = ENGINE_RULE + (" PermLaw quantifies over all permutations of each enumerated input, CombineLaw over all cut points; the real code is run on every ordering (TLC enumerates all sequences) and, on the "
                            "repository's corpora, on seeded shuffles and cuts whose outputs are related by Trace_Laws.tla.")
    c.assumptions, c.exhaustive = ENGINE_ASSUME + ["REAL sums are only compared when exactly representable (dyadic)"], True
    return c.finish()


# =====================================================================================  C09 / C18
def check_C09(tier):
    c = Check("C09", tier, "exploration")
    t = tier == "thorough"
    vlib.build_cli()
    # operators / functions / subscripts / casts / CASE / IN on boundary values: value, error or (never) a crash
    engine_run(c, "boundary", "BoundaryMenu", lines="LinesOne", maxlines=1, maxfiles=1, modes=("incr",), tdefs=("plain",),
               invs=["TypeOK", "IncrSelectRefinesSem"], props=())
    # interval texts / sums / differences beyond the representable range, timestamps at the ends of the calendar, date parts beyond their fields,
    # pow / sqrt / date_trunc / EXTRACT(EPOCH) / regex_matches on extremes and wrong types
    engine_run(c, "cal-boundary", "CalBoundaryMenu", lines="LinesOne", maxlines=1, maxfiles=1, modes=("incr",), tdefs=("plain",),
               invs=["TypeOK", "IncrSelectRefinesSem"], props=())
    # the same functions over two rows (state kept between rows or between statements of one process: a pattern that is no regular expression, evaluated again)
    engine_run(c, "cal-rows", "CalMenu", lines="LinesCal", maxlines=2, maxfiles=1, modes=("incr",), tdefs=("plain",), invs=["TypeOK", "IncrSelectRefinesSem"], props=())
    engine_run(c, "cal-boundary-agg", "CalBoundaryAggMenu", lines="LinesPair", maxlines=2, maxfiles=1, modes=("batch", "incr"), tdefs=("plain",), invs=["TypeOK"], props=())
    # a joined file that is missing, lacks the join column or cannot be read (a directory): an error or an orderly end, never a hang
    engine_run(c, "join-errors", "BadJoinMenu", lines="LinesJ", maxlines=1, maxfiles=1, tdefs=("plain",), invs=["TypeOK"], props=())
    # aggregates over groups whose argument is NULL everywhere, extremes in running sums, HAVING on empty aggregates
    engine_run(c, "agg-null", "AggMenu", lines="LinesAgg", maxlines=2, maxfiles=1, tdefs=("plain",), invs=["TypeOK", "BatchRefinesSem"], props=())
    engine_run(c, "order-extremes", "OrderMenu", lines="LinesAgg", maxlines=2, maxfiles=1, tdefs=("plain",), invs=["TypeOK"], props=())
    # a LIMIT beyond every size (i64::MAX, 2^62): the number sizes nothing; an aggregate argument that has no value on one row: an error, in every order
    engine_run(c, "limit-huge", "HugeLimitMenu", lines="Lines3", maxlines=2, maxfiles=1, modes=("batch", "incr"), tdefs=("plain",), invs=["TypeOK", "BatchRefinesSem"], props=())
    engine_run(c, "agg-errors", "ErrAggMenu", lines="LinesErrAgg", maxlines=2, maxfiles=1, modes=("batch", "incr"), tdefs=("plain",), invs=["TypeOK", "BatchRefinesSem"], props=())
    # printing non-finite REALs and 64-bit extremes in all formats
    r = tlc("MC_Printer", cfg_text(constants={"Dev": set(), "Formats": {q("text"), q("json"), q("csv")}, "ResultMenu": "<-OneCol", "MaxCalls": 1},
                                   invariants=["EveryRowOnceInOrder", "Emit"]), "printer-c09", workers=W)
    expect_holds(r, "Printer (C09)"); c.add_tlc(r)
    c.add_report(vh_replay("printer", r.replay_path, "printer-c09", env_extra={"TZ": "UTC"}), "OutputPrinter vs Printer.tla (replay)")
    # out-of-range date parts, numeric extremes and malformed JSON in extraction
    r = tlc("MC_Extract", cfg_text(constants={"Dev": set(), "CaseSets": {q("ts"), q("jsonleaf")}}, invariants=["Emit"]), "extract-c09", workers=W)
    expect_holds(r, "Extract (C09)"); c.add_tlc(r)
    c.add_report(vh_replay("extract", r.replay_path, "extract-c09", env_extra={"TZ": "UTC"}), "TableDefinition::extract (regex / split) vs Extract.tla")
    # every kind of invocation of the process ends with the modelled exit status and output: no panic, no signal
    cli_run(c, "total", ["all", "count", "limit1", "limit2", "from", "frommissing", "parsebad", "notable", "create", "second"], ["ok", "bad", "two", "none"], ["text", "json", "csv"], 1,
            fileids=("fa", "fb", "fe", "missing", "dir"), sample=None if t else 800)
    # an input that opens but cannot be read (a directory) between two files: the run ends, the readable files are processed
    cli_run(c, "unreadable", ["all", "count", "limit2"], ["ok"], ["json"], 3, fileids=("fa", "dir", "fb"))
    # arbitrary bytes through the executor in three formats; the CLI in child processes under TZs with DST gaps / overlaps
    trace_check(c, "total", "Trace_Total", 2500 if t else 600, "total", "byte soups and TZ runs (outcome classes)", rounds=3 if t else 1,
                env={"VH_CLI": vlib.build_cli()})
    c.rule = ("Cases come from the bounded models (Engine.tla BoundaryMenu: every arithmetic operator on all pairs of 10 boundary integers and 7 boundary reals, negation, abs, subscripts -2^63..2^63-1, casts of 19/20-digit texts, "
              "CASE / AND / OR around a failing operand, IN with NULLs; aggregate menus over NULL-only groups and extremes; Printer and Extract menus) where the model predicts value / error / unknown, and from seeded drivers "
              "(random and mutated byte lines through 16 statements x 3 formats in process; the CLI as a child process under TZ in {UTC, Europe/Stockholm, America/Santiago, Pacific/Apia, Australia/Lord_Howe, America/New_York} with "
              "timestamps in DST gaps / overlaps and on days without local midnight) whose outcome class must be ok or err. The harness is built with overflow checks on, so a silent wrap is a panic; where the model predicts a value a wrapped "
              "value is a mismatch. Non-trivial = the execution produced a record or an error; distinct by case.")
    c.assumptions = ["release-mode wrap-around is detected through the overflow-checked build plus value comparison on the modelled cases", "a hang is detected by the harness watchdog (60 s without progress)"]
    return c.finish()


def check_C18(tier):
    c = Check("C18", tier, "model_checking")
    t = tier == "thorough"
    vlib.build_cli()
    # the as-built machine is a deterministic function of (definition, statement, input): every state has at most one successor
    rep = engine_run(c, "determinism", "CoreLimitMenu", lines="Lines4", maxlines=4 if t else 3, maxfiles=2, modes=("batch", "incr"), tdefs=("plain", "vdef") if t else ("plain",))
    logp = os.path.join(vlib.BUILD, "tlc", "engine-determinism", "tlc.log")
    try:
        m = __import__("re").search(r"average outdegree of the complete state graph is \d+ \(minimum is \d+, the maximum (\d+)", open(logp).read())
    except OSError:
        m = None
    if m is None:
        raise ToolError("could not read the out-degree statistics of the Engine run")
    if int(m.group(1)) > 1:
        raise ToolError("specification error: Engine.tla is not deterministic (max out-degree %s)" % m.group(1))
    c.extra["engine_max_outdegree"] = int(m.group(1))
    engine_run(c, "determinism-join", "JoinMenu", lines="LinesJ", maxlines=3, maxfiles=1, tdefs=("plain",))
    # joined partners in joined-file order: 120 joined lines, keys interleaved irregularly
    engine_run(c, "determinism-long-join", "JoinMenu", lines="LinesJ", maxlines=2, maxfiles=1, joinsets="JoinSetsMixed", tdefs=("plain",))
    engine_run(c, "determinism-agg", "AggMenu", lines="LinesAgg", maxlines=2, maxfiles=1, tdefs=("plain",))
    engine_run(c, "determinism-distinct", "DistinctMenu", lines="Lines4", maxlines=4 if t else 3, maxfiles=1, tdefs=("plain",), modes=("batch", "incr"))
    # repeated executions in one process (laws: repeat) and in fresh processes with fresh hash seeds and other tables defined around
    laws_trace(c, 2 if t else 1, 300 if t else 100)
    trace_check(c, "process", "Trace_Laws", 60 if t else 15, "process", "fresh-process executions of the CLI (byte-identical output)", rounds=2 if t else 1,
                env={"VH_CLI": vlib.build_cli()})
    # several statements in one process: what a statement prints does not depend on what ran before it (fresh engine, printer, DISTINCT memory, compiled patterns)
    session_run(c, "history", SESSION_CMDS, 3 if t else 2, formats=("text", "json", "csv") if t else ("text", "csv"))
    # rows in input order at the level of the process: the files in the order (and as often as) the command line names them, whatever their names are
    cli_run(c, "files-order", ["all", "limit1", "limit2", "count"], ["ok"], ["text"], 3 if t else 2, fileids=("fb", "fa", "fc"))
    # a table defined again between two statements that join it: the second statement sees the new definition (nothing loaded for the first is used again)
    session_run(c, "redefine", ["join", "join2", "redefj", "count"], 4 if t else 3, formats=("text",))
    engine_sim(c, "determinism", "DistinctMenu", lines="Lines4", maxlines=10, num=1000 if t else 80)
    engine_union(c, t)
    c.rule = ENGINE_RULE + (" Determinism of the model is checked through TLC's out-degree statistics (every state has at most one successor); every replayed behaviour must equal the model's unique output; "
                            "the CLI is run 4 times per case in fresh processes (fresh RandomState seeds), with unrelated tables defined before / after the queried one, and the outputs must be identical line by line.")
    c.assumptions, c.exhaustive = ENGINE_ASSUME + ["now() is excluded"], True
    return c.finish()


# =====================================================================================  binding self-test
def selftest():
    """Demonstrates the binding: an accepted trace is rejected when one recorded field is corrupted or one event is removed,
    and a replay reports a mismatch when the model's prediction is altered."""
    vlib.build()
    ok = True
    # 1. trace validation: Follow
    tp = vh_trace("follow", 60, "selftest", seed_=7)
    cons = follow_consts(0, [], 0, True, [])
    kw = dict(constants=cons, invariants=["TraceSafety", "TraceUnfinished"], post="TraceRejectedAt", extra={"view": "tview", "constraint": "TrackProgress"})
    acc, _ = validate_trace("Trace_Follow", tp, "selftest-ok", **kw)
    print("follow trace accepted:", acc); ok &= acc
    ev = [json.loads(l) for l in open(tp)]
    idx = [i for i, e in enumerate(ev) if e["ev"] == "deliver" and e["line"]]
    i = idx[len(idx) // 2]
    cor = [dict(e) for e in ev]; cor[i]["line"] = cor[i]["line"][:-1] + [cor[i]["line"][-1] ^ 1]
    p1 = os.path.join(vlib.BUILD, "tmp", "selftest-corrupt.ndjson"); open(p1, "w").write("\n".join(json.dumps(e) for e in cor) + "\n")
    acc1, _ = validate_trace("Trace_Follow", p1, "selftest-corrupt", **kw)
    print("corrupted field rejected:", not acc1); ok &= not acc1
    rem = [e for j, e in enumerate(ev) if j != i]
    p2 = os.path.join(vlib.BUILD, "tmp", "selftest-removed.ndjson"); open(p2, "w").write("\n".join(json.dumps(e) for e in rem) + "\n")
    acc2, _ = validate_trace("Trace_Follow", p2, "selftest-removed", **kw)
    print("removed event rejected:", not acc2); ok &= not acc2
    # 2. replay: alter one predicted record of an Engine behaviour
    r = tlc("MC_Engine", cfg_text(constants=engine_consts(vlib.open_devs(ENGINE_DEVS), "CoreMenu", "Lines3", 2, 1, "JoinSets", ("batch",), "NoIntr", ("plain",)),
                                  invariants=["Emit"]), "selftest-engine", workers=W)
    cases = [json.loads(l) for l in open(r.replay_path)]
    good = [c for c in cases if c["printed"] and c["status"] == "ok"][:50]
    for c in good:
        c["printed"] = c["printed"][:-1]           # the model now "predicts" one record less
    p3 = os.path.join(vlib.BUILD, "tmp", "selftest-engine.ndjson"); open(p3, "w").write("\n".join(json.dumps(c) for c in good) + "\n")
    rep = vh_replay("engine", p3, "selftest-engine", env_extra={"TZ": "UTC"})
    print("altered predictions reported: %d of %d" % (rep["n_mismatch"], len(good))); ok &= rep["n_mismatch"] == len(good)
    # 3. the oracle-in-the-event traces: one observed cell altered / one extraction event's verdict of the regex crate altered
    tp = vh_trace("extract", 400, "selftest-extract", seed_=7, env_extra={"TZ": "UTC"})
    kx = dict(constants={"Dev": set()}, invariants=["TraceUnfinished"], post="TraceRejectedAt", extra={"constraint": "TrackProgress"})
    acc, _ = validate_trace("Trace_Extract", tp, "selftest-extract-ok", **kx)
    print("extract trace accepted:", acc); ok &= acc
    ev = [json.loads(l) for l in open(tp)]
    rows = [i for i, e in enumerate(ev) if e["ev"] == "extract" and not e["open"] and e["out"]["st"] == "row" and any(c["t"] == "text" and c["s"] for c in e["out"]["row"])]
    i = rows[len(rows) // 2]
    cor = json.loads(json.dumps(ev))
    cell = next(c for c in cor[i]["out"]["row"] if c["t"] == "text" and c["s"])
    cell["s"] = cell["s"][:-1]                      # the code "truncated" a captured text by one character
    p4 = os.path.join(vlib.BUILD, "tmp", "selftest-extract-corrupt.ndjson"); open(p4, "w").write("\n".join(json.dumps(e) for e in cor) + "\n")
    acc4, _ = validate_trace("Trace_Extract", p4, "selftest-extract-corrupt", **kx)
    print("truncated captured text rejected:", not acc4); ok &= not acc4
    tp = vh_trace("printer", 300, "selftest-printer", seed_=7, env_extra={"TZ": "UTC"})
    kp = dict(constants={"Dev": set(), "Formats": {q("text")}, "ResultMenu": set(), "MaxCalls": 0}, invariants=["TraceUnfinished"], post="TraceRejectedAt", extra={"constraint": "TrackProgress"})
    acc, _ = validate_trace("Trace_Printer", tp, "selftest-printer-ok", **kp)
    print("printer trace accepted:", acc); ok &= acc
    ev = [json.loads(l) for l in open(tp)]
    i = next(j for j, e in enumerate(ev) if len(e["lines"]) >= 2)
    cor = json.loads(json.dumps(ev)); cor[i]["lines"] = cor[i]["lines"][:-1]       # one printed line is lost
    p5 = os.path.join(vlib.BUILD, "tmp", "selftest-printer-corrupt.ndjson"); open(p5, "w").write("\n".join(json.dumps(e) for e in cor) + "\n")
    acc5, _ = validate_trace("Trace_Printer", p5, "selftest-printer-corrupt", **kp)
    print("lost printed line rejected:", not acc5); ok &= not acc5
    tp = vh_trace("sem", 300, "selftest-sem", seed_=7, env_extra={"TZ": "UTC"})
    ks = dict(constants={"Dev": set()}, invariants=["TraceUnfinished"], post="TraceRejectedAt", extra={"constraint": "TrackProgress"})
    acc, _ = validate_trace("Trace_Sem", tp, "selftest-sem-ok", **ks)
    print("statement trace accepted:", acc); ok &= acc
    ev = [json.loads(l) for l in open(tp)]
    i = next(j for j, e in enumerate(ev) if not e["open"] and e["out"]["st"] == "ok" and len(e["out"]["recs"]) >= 2 and e["q"]["kind"] == "select" and not e["q"]["distinct"])
    cor = json.loads(json.dumps(ev)); cor[i]["out"]["recs"] = cor[i]["out"]["recs"][1:]       # the code "lost" the first output row of a statement
    p6 = os.path.join(vlib.BUILD, "tmp", "selftest-sem-corrupt.ndjson"); open(p6, "w").write("\n".join(json.dumps(e) for e in cor) + "\n")
    acc6, _ = validate_trace("Trace_Sem", p6, "selftest-sem-corrupt", **ks)
    print("lost output row rejected:", not acc6); ok &= not acc6
    print("SELFTEST", "ok" if ok else "FAILED")
    return 0 if ok else 1
