#!/usr/bin/env python3
"""Prints the markdown rows of DESIGN.md section 12 for the given seed indexes from seeded/<id>/<k>/meta.json.
   usage: lib/seedtable.py 5 6"""
import json, os, sys, glob
ROOT = os.path.dirname(os.path.dirname(os.path.abspath(__file__)))
FIRST = {}
try:
    FIRST = json.load(open(os.path.join(ROOT, "seeded", "first_run.json")))
except OSError:
    pass
ks = sys.argv[1:]
for d in sorted(glob.glob(os.path.join(ROOT, "seeded", "C*"))):
    pid = os.path.basename(d)
    for k in ks:
        mp = os.path.join(d, k, "meta.json")
        if not os.path.exists(mp):
            continue
        m = json.load(open(mp))
        note = (m.get("needs_to_manifest") or "").strip().splitlines()
        first = note[0] if note else ""
        first = first.lstrip("# ").replace("|", "/")[:170]
        res = ", ".join("%s: exit %s" % (c, v["exit"]) for c, v in sorted(m.get("checks", {}).items()))
        print("| %s/%s | %s | %s | %s |" % (pid, k, first, res, FIRST.get("%s/%s" % (pid, k), "caught at first run")))
