#!/bin/sh
# Development aid: apply one seeded change to /repo, rebuild the harness, run a command, undo the change.
#   lib/seedprobe.sh C01/14 <command...>
seed=$1; shift
[ -z "$(git -C /repo status --porcelain)" ] || { echo "/repo is not clean"; exit 2; }
git -C /repo apply /verif/seeded/$seed/patch.diff || exit 2
(cd /verif/harness && cargo build --offline --quiet 2>&1 | grep -E '^error' -A6)
"$@"; rc=$?
git -C /repo checkout -- .
(cd /verif/harness && cargo build --offline --quiet 2>&1 | grep -E '^error' -A6)
exit $rc
