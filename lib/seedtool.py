#!/usr/bin/env python3
"""Seeded-change bookkeeping.
  seedtool.py confirm <Cxx> <k>      confirm an agent's change in its scratch worktree /tmp/seed_<Cxx>:
                                     patch applies, 229 tests pass with it, demo fails with it and passes without
  seedtool.py run <Cxx> <k> [ids..]  apply the stored patch to /repo, run ./check for the given property ids (default: Cxx),
                                     undo the patch, record exit codes in seeded/<Cxx>/<k>/meta.json
"""
import json, os, shutil, subprocess, sys, time
ROOT = os.path.dirname(os.path.dirname(os.path.abspath(__file__)))

def sh(cmd, cwd=None, timeout=3600, env=None):
    e = dict(os.environ); e.pop("RUST_BACKTRACE", None)
    if env: e.update(env)
    p = subprocess.run(cmd, shell=True, cwd=cwd, stdout=subprocess.PIPE, stderr=subprocess.STDOUT, text=True, timeout=timeout, env=e)
    return p.returncode, p.stdout

def confirm(pid, k, rnd=1):
    wt = "/tmp/seed%s_%s" % ("" if rnd == 1 else str(rnd), pid)
    tgt = "CARGO_TARGET_DIR=%s/target" % wt
    patch = os.path.join(wt, "seed_%s.patch" % k)
    demo = "demo_%s" % k
    assert os.path.exists(patch), patch
    sh("git checkout -- src", cwd=wt)
    feat = "--features verif_hooks" if "verif_hooks" in open(os.path.join(wt, "tests", demo + ".rs")).read() else ""
    res = {}
    rc, out = sh("%s cargo test --offline %s --test %s 2>&1 | tail -5" % (tgt, feat, demo), cwd=wt)
    res["demo_without_change"] = "ok" if "test result: ok" in out else "FAIL"
    rc, out = sh("git apply %s" % patch, cwd=wt)
    res["patch_applies"] = rc == 0
    rc, out = sh("%s cargo test --offline --lib 2>&1 | grep 'test result' | head -1" % tgt, cwd=wt)
    res["suite_with_change"] = out.strip()
    rc, out = sh("%s cargo test --offline %s --test %s 2>&1 | tail -5" % (tgt, feat, demo), cwd=wt)
    res["demo_with_change"] = "ok" if "test result: ok" in out else "FAIL"
    sh("git checkout -- src", cwd=wt)
    good = res["demo_without_change"] == "ok" and res["patch_applies"] and "229 passed; 0 failed" in res["suite_with_change"] and res["demo_with_change"] == "FAIL"
    res["confirmed"] = good
    print(json.dumps(res, indent=1))
    if good:
        d = os.path.join(ROOT, "seeded", pid, str(int(k) + 2 * (rnd - 1))); os.makedirs(d, exist_ok=True)
        shutil.copy(patch, os.path.join(d, "patch.diff"))
        shutil.copy(os.path.join(wt, "tests", demo + ".rs"), os.path.join(d, "demo.rs"))
        notes = open(os.path.join(wt, "seed_%s.md" % k)).read() if os.path.exists(os.path.join(wt, "seed_%s.md" % k)) else ""
        meta = {"property": pid, "needs_to_manifest": notes, "confirmed_by": "lib/seedtool.py confirm (scratch worktree %s): %s" % (wt, json.dumps(res)),
                "demo_cmd": "cargo test --offline %s --test %s" % (feat, demo), "checks": {}}
        json.dump(meta, open(os.path.join(d, "meta.json"), "w"), indent=1)
    return 0 if good else 1

def run(pid, k, ids):
    d = os.path.join(ROOT, "seeded", pid, str(k))
    meta = json.load(open(os.path.join(d, "meta.json")))
    rc, out = sh("git -C /repo status --porcelain")
    assert out.strip() == "", "/repo is not clean: " + out
    rc, out = sh("git -C /repo apply %s" % os.path.join(d, "patch.diff"))
    assert rc == 0, out
    try:
        for cid in ids:
            t = time.time()
            rc, out = sh("./check %s --tier quick" % cid, cwd=ROOT, timeout=3600)
            viol = [l for l in out.splitlines() if l.startswith("VIOLATION")]
            meta["checks"][cid] = {"exit": rc, "violations": len(viol), "seconds": round(time.time() - t, 1),
                                   "first": (viol[0] if viol else ""), "tail": out.strip().splitlines()[-1][:300] if out.strip() else ""}
            print(cid, "exit", rc, len(viol), "violations")
    finally:
        sh("git -C /repo checkout -- .")
    json.dump(meta, open(os.path.join(d, "meta.json"), "w"), indent=1)
    return 0

if __name__ == "__main__":
    if sys.argv[1] == "confirm":
        sys.exit(confirm(sys.argv[2], sys.argv[3], int(sys.argv[4]) if len(sys.argv) > 4 else 1))
    else:
        sys.exit(run(sys.argv[2], sys.argv[3], sys.argv[4:] or [sys.argv[2]]))
