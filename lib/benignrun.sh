#!/bin/sh
# Runs quick checks against a behaviour-preserving patch inside the seed sandbox (/tmp/sv): every check must exit 0.
#   lib/benignrun.sh <k> <check ids...>
SV=${SV:-/tmp/sv}
k=$1; shift
cd $SV/repo && git checkout -q -- . && git apply /verif/seeded/benign/$k/patch.diff || { echo "benign/$k: patch does not apply"; exit 2; }
cd $SV/verif
for c in "$@"; do
  out=$(./check $c --tier quick 2>&1); rc=$?
  echo "benign/$k $c exit $rc $(echo "$out" | grep -c '^VIOLATION') violations"
  echo "benign/$k $c exit $rc" >> /verif/seeded/benign/results.txt
  [ $rc -ne 0 ] && echo "$out" | grep -v KNOWN | tail -4 | cut -c1-700
done
cd $SV/repo && git checkout -q -- .
