#!/usr/bin/env python3
"""Generates spec/LexBase.tla: the base statements of C20 as sequences of classified lexemes
(code points), split into a head and permutable clauses.  Run after editing STATEMENTS."""
import os, re
ROOT = os.path.dirname(os.path.dirname(os.path.abspath(__file__)))

STATEMENTS = [
 "SELECT k, v FROM t WHERE v > 1 AND k = 'a' LIMIT 5",
 "SELECT DISTINCT k AS key, v + 1 FROM t WHERE k IS NOT NULL",
 "SELECT k, COUNT(*) AS n, SUM(v) FROM t WHERE v >= 0 GROUP BY k HAVING COUNT(*) > 1 LIMIT 3",
 "SELECT * FROM t INNER JOIN u::'j.log' ON t.k = u.k WHERE w != 2",
 "SELECT k, MAX(v) FROM t OUTER JOIN u::'j.log' ON t.k = u.k WHERE v < 9 GROUP BY k HAVING MAX(v) >= 1 LIMIT 2",
 "SELECT CASE WHEN v IN (1, 2) THEN upper(k) ELSE lower(k) END AS c, v::text, abs(-v) FROM t",
 "SELECT EXTRACT(YEAR FROM ts), array[1, 2][1], length(k) FROM t WHERE NOT v = 1 OR k NOT IN ('a', 'b')",
 "SELECT k FROM t::'in.log' WHERE regexp_matches(k, 'a\\'b;--c') AND v - -1 <= 2.5",
 "CREATE TABLE t(line = 'k=([a-z]+)? v=(-?[0-9]+)?', line[1] => k TEXT NOT NULL, line[2] => v INT DEFAULT 7);",
 "CREATE TABLE c({ .a.b } => x INT CONVERT, { .e[0] } => y TEXT[], 'x=(\\\\d+)' => z REAL, p = split ';', p[1] => q TEXT TRIM, p[2], p[3] => ar INT[], line = match 'l', line[1], line[2] => ts TIMESTAMP MICROSECONDS, line[3] => b BOOLEAN);",
 "SELECT percentile(v, 0.5), string_agg(k, ','), bool_and(v > 0) FROM t GROUP BY k",
 "SELECT COUNT(DISTINCT k) FROM t",
 "SELECT k, v FROM t WHERE k = 'é€ß' AND v > 1 LIMIT 2",
 "CREATE TABLE n(line = 'naïve=(\\d+) «x»', line[1] => x INT, 'ü(.)' => y TEXT);",
 # a minus sign in front of a literal is an operator of its own wherever the blank falls: before a cast, after another minus, in a comparison, before a LIMIT-like number
 "SELECT -1::text, -2.5::int, 3 - -4, abs(-v)::text FROM t WHERE v = -1 OR -v::text != '1' LIMIT 7",
]

VOCAB = ["SELECT", "FROM", "WHERE", "GROUP", "BY", "HAVING", "LIMIT", "CREATE", "TABLE", "NOT", "IS", "IN", "AND", "CASE", "WHEN", "END",
         "INNER", "JOIN", "ON", "EXTRACT", "DISTINCT", "AS", "k", "t", "count", "array", "1", "2.5", "99999999999999999999", "'s'", "'('", "NULL",
         "(", ")", "[", "]", "{", "}", ",", ";", ":", "::", "=>", "=", "-", "*", ".", "<", "!", "--", "'"]
BAD = ["CREATE TABLE a(l = 'x', l[1] => x TEXT);\nCREATE TABLE b(m = '(', m[1] => y TEXT);",      # several definitions of which one has a pattern that is no regular expression
       "CREATE TABLE b(m = '[a', m[1] => y TEXT);\nCREATE TABLE a(l = 'x', l[1] => x TEXT);\nCREATE TABLE c(n = 'y', n[1] => z INT);",
       "CREATE TABLE t(line = 'a', spare = '(', line[1] => x TEXT);",      # an invalid pattern that no column refers to
       "CREATE TABLE t(spare = '[a', { .a } => x INT);",
       "CREATE TABLE t('(' => x TEXT);",
       "CREATE TABLE t(line = '[a-', line[1] => x TEXT);",
       "CREATE TABLE t({ } => x INT);",
       "SELECT string_agg(k) FROM t",
       "SELECT percentile(v) FROM t",
       "SELECT sum(v, v) FROM t",
       "SELECT count(k, v) FROM t",
       "SELECT min() FROM t",
       "SELECT 99999999999999999999 FROM t",
       "SELECT k FROM t LIMIT 99999999999999999999",
       "SELECT 1.2.3 FROM t",
       "CREATE TABLE t(line = 'a', line[99999999999999999999] => x TEXT);",
       "SELECT k FROM t WHERE",
       "SELECT k, FROM t",
       "SELECT k FROM t GROUP k",
       "SELECT k FROM t WHERE v > 1 WHERE v < 2",
       "SELECT k FROM t HAVING k = 'a'",
       "SELECT k::nosuchtype FROM t",
       "SELECT nosuchfunction(k) FROM t",
       "CREATE TABLE t(line[1] => x NOSUCHTYPE);",
       "CREATE TABLE t(line[1] => x INT TRIM);",
       "CREATE TABLE t(line[1] => x INT DEFAULT 'a');",
       "SELECT k FROM t INNER JOIN u::'f' ON a.k = b.k",
       "SELECT (1, 2) FROM t"]

KEYWORDS = {"select", "from", "where", "group", "by", "as", "and", "or", "create", "table", "not", "is", "in", "having", "inner", "outer",
            "join", "on", "extract", "default", "distinct", "case", "when", "then", "else", "end", "limit", "null", "true", "false"}
NAMES = {"count", "min", "max", "sum", "avg", "stddev", "variance", "percentile", "bool_and", "bool_or", "array_agg", "string_agg",
         "least", "greatest", "abs", "sqrt", "pow", "length", "upper", "lower", "regexp_matches", "array_unique", "array_length",
         "array_cat", "array_append", "array_prepend", "now", "make_timestamp", "date_trunc", "array",
         "int", "real", "text", "boolean", "timestamp", "interval", "trim", "convert", "microseconds", "split", "match",
         "year", "month", "day", "hour", "minute", "second", "epoch"}

def lex(text):
    out, i = [], 0
    while i < len(text):
        c = text[i]
        if c.isspace():
            i += 1
        elif c == "'":
            j = i + 1
            while text[j] != "'":
                j += 2 if text[j] == "\\" else 1
            out.append(("str", text[i:j + 1])); i = j + 1
        elif c.isalpha():
            j = i
            while j < len(text) and (text[j].isalnum() or text[j] == "_"):
                j += 1
            w = text[i:j]
            cls = "kw" if w.lower() in KEYWORDS else "name" if w.lower() in NAMES else "id"
            # a type/function name is only case-insensitive where the grammar expects one; single letters are identifiers here
            out.append((cls, w)); i = j
        elif c.isdigit():
            j = i
            while j < len(text) and (text[j].isdigit() or text[j] == "."):
                j += 1
            out.append(("num", text[i:j])); i = j
        elif text[i:i + 2] in ("::", "=>", "<=", ">=", "!="):
            out.append(("op", text[i:i + 2])); i += 2
        else:
            out.append(("op", c)); i += 1
    return out

def cps(s):
    return "<<" + ", ".join(str(ord(ch)) for ch in s) + ">>"

def tla_lexemes(lexs):
    return "<<" + ", ".join('[c |-> "%s", s |-> %s]' % (c, cps(s)) for c, s in lexs) + ">>"

CLAUSE_STARTS = {"where", "group", "having", "limit", "inner", "outer"}

def split_clauses(lexs):
    """head = up to and including FROM t[::'file']; then the clauses; a trailing ';' is dropped (toggled by the spec)"""
    idx = [i for i, (c, s) in enumerate(lexs) if c == "kw" and s.lower() in CLAUSE_STARTS]
    # INNER/OUTER ... ON ... contains no other clause keyword; GROUP is followed by BY
    if not idx:
        return lexs, []
    head = lexs[:idx[0]]
    clauses = [lexs[a:b] for a, b in zip(idx, idx[1:] + [len(lexs)])]
    return head, clauses

def main():
    lines = ["------------------------------ MODULE LexBase ------------------------------",
             "(* GENERATED by lib/gen_lexbase.py from the statement list there -- do not edit by hand. *)",
             "(* Each base statement of C20: kind, head lexemes, permutable clauses, with lexeme      *)",
             "(* classes kw (keyword) / name (function, aggregate, type, modifier name) / id / str /   *)",
             "(* num / op and the text as code points.                                                *)",
             "EXTENDS Naturals, Sequences", ""]
    names = []
    for n, st in enumerate(STATEMENTS, 1):
        lexs = lex(st)
        create = lexs[0][1].lower() == "create"
        if create:
            head, clauses = lexs, []
        else:
            head, clauses = split_clauses(lexs)
        lines.append("\\* %s" % st.replace("\\", "\\\\"))
        lines.append('Base%d == [create |-> %s, head |-> %s,' % (n, "TRUE" if create else "FALSE", tla_lexemes(head)))
        lines.append('          clauses |-> <<%s>>]' % ", ".join(tla_lexemes(c) for c in clauses))
        lines.append("")
        names.append("Base%d" % n)
    lines.append("BaseStatements == <<%s>>" % ", ".join(names))
    lines.append("")
    lines.append("\\* C14: the token vocabulary for token soups")
    lines.append("Vocab == <<%s>>" % ", ".join(cps(v) for v in VOCAB))
    lines.append("")
    lines.append("\\* C14: malformed-but-plausible statements that must be rejected with an error (never accepted, never a crash)")
    lines.append("BadStatements == <<%s>>" % ", ".join(cps(b) for b in BAD))
    lines.append("=============================================================================")
    open(os.path.join(ROOT, "spec", "LexBase.tla"), "w").write("\n".join(lines) + "\n")

if __name__ == "__main__":
    main()
