#!/bin/sh
# Isolated runs of seeded changes: a snapshot of /verif's HEAD and a scratch worktree of /repo's HEAD under /tmp/sv,
# with every "/repo" reference rewritten, so that the development tree and /repo itself stay untouched while seeds run.
#   lib/seedbox.sh setup                          (re)create the sandbox from the committed state of /verif and /repo
#   lib/seedbox.sh run "C12 C02" "5 6" [ids...]   apply seeded/<p>/<k>/patch.diff there, run the quick checks (default: <p>), copy meta.json back
#   lib/seedbox.sh clean                          remove the sandbox and its worktrees
set -e
SV=${SV:-/tmp/sv}
cmd=$1
case "$cmd" in
setup)
  git -C /repo worktree remove --force $SV/repo 2>/dev/null || true
  git -C /verif worktree remove --force $SV/verif 2>/dev/null || true
  rm -rf $SV; mkdir -p $SV
  git -C /repo worktree add --detach $SV/repo HEAD -q
  git -C /verif worktree add --detach $SV/verif HEAD -q
  cd $SV/verif
  sed -i "s#/repo#$SV/repo#g" lib/*.py harness/Cargo.toml harness/src/*.rs setup.sh
  ./setup.sh
  ;;
run)
  props=$2; ks=$3; shift 3
  cd $SV/verif
  for p in $props; do for k in $ks; do
    d=seeded/$p/$k
    [ -f /verif/$d/patch.diff ] || continue
    mkdir -p $d; cp /verif/$d/* $d/
    echo "== $p/$k $(date +%T)"
    python3 lib/seedtool.py run $p $k "$@" 2>&1 | tail -3
    cp $d/meta.json /verif/$d/meta.json
  done; done
  echo SEEDBOX-DONE
  ;;
clean)
  git -C /repo worktree remove --force $SV/repo 2>/dev/null || true
  git -C /verif worktree remove --force $SV/verif 2>/dev/null || true
  rm -rf $SV
  ;;
esac
