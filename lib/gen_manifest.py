#!/usr/bin/env python3
"""Regenerates MANIFEST.json from the table below (keeps it valid and in step with lib/props.py)."""
import json, os
ROOT = os.path.dirname(os.path.dirname(os.path.abspath(__file__)))

CLAIMED = {
 "C10": dict(
    category="model_checking",
    text="Follow.tla models writer appends, BufReader fills, read_until scans, EOF retries and deliveries byte by byte. TLC proves on the bounded model (all UTF-8 contents up to MaxLen bytes, all chunkings, all interleavings of appends with reader steps, capacities 1/2/3/8, head and tail start) that delivered lines are always a prefix of the complete lines, bytes are conserved, the tail is never delivered, nothing is pending at quiescence, and (under weak fairness) every complete line is eventually delivered. Every hook-realisable behaviour of the model is then replayed on the real FollowFileIterator (and a sample on FollowFileExecutor in a child process) and must agree step by step; traces of a real writer thread racing the real iterator are validated against the same actions by TLC.",
    design_ref="DESIGN.md section 6 (C10)",
    note="Bounded: contents up to 4 (quick: 3 for replay) / 5 bytes over a 6-symbol alphabet with one 2-byte character. Trusted: TLC, kernel append/read semantics, the harness' hook driver (harness/src/follow.rs).",
    technique="TLA+ model checking (TLC) + spec->impl replay through a retry-point hook + impl->spec trace validation of a concurrent writer"),
 "C03": dict(
    category="model_checking",
    text="Expr.tla gives the meaning of expressions over an abstract value universe, Sem.tla the meaning of SELECT/WHERE, Engine.tla the per-line machine of the code. TLC checks that the machine prints exactly Sem's rows (BatchRefinesSem, IncrSelectRefinesSem) for every input of the bounded model; every behaviour (statement x table variant x input x file split, batch and line-by-line) is executed on the real engine and compared value by value, including column names, errors and their position.",
    design_ref='DESIGN.md section 6 (C03)',
    note="Bounded: statements from the menus of spec/MC_Engine.tla, inputs of at most 3-5 lines over a 5-7 line alphabet, 1-3 files, the table t(k TEXT, v INT) and its NOT NULL / DEFAULT variants. Trusted: TLC, serde_json (decoding printed JSON records), the harness' SQL renderer (harness/src/sql.rs) and value projection (harness/src/val.rs).",
    technique="TLA+ model checking (TLC): operational Engine.tla refines declarative Sem.tla; every behaviour of the bounded model replayed on FileExecutor / ExecutionEngine"),
 "C04": dict(
    category="model_checking",
    text='Sem.tla defines each aggregate as a fold over the rows of a group, Engine.tla keeps running state per group like the code; TLC checks they agree for all inputs of the bounded model and every behaviour (every aggregate alone, in both positions relative to the key, in pairs, without GROUP BY, with WHERE / HAVING / wrappers) is replayed on the real code. The one open finding (a group without any aggregate entry is dropped) is modelled exactly as the deviation AggEmptyGroupDropped.',
    design_ref='DESIGN.md section 6 (C04)',
    note="Bounded: statements from the menus of spec/MC_Engine.tla, inputs of at most 3-5 lines over a 5-7 line alphabet, 1-3 files, the table t(k TEXT, v INT) and its NOT NULL / DEFAULT variants. Trusted: TLC, serde_json (decoding printed JSON records), the harness' SQL renderer (harness/src/sql.rs) and value projection (harness/src/val.rs).",
    technique="TLA+ model checking (TLC): operational Engine.tla refines declarative Sem.tla; every behaviour of the bounded model replayed on FileExecutor / ExecutionEngine"),
 "C05": dict(
    category="model_checking",
    text='Join index (LoadJoinLine) and per-line fan-out of Engine.tla against the declarative pairing of Sem (equal non-NULL keys, ordered by r then s, OUTER adds the NULL-extended row for non-aggregates), name resolution and * order; all behaviours replayed with real files on both sides.',
    design_ref='DESIGN.md section 6 (C05)',
    note="Bounded: statements from the menus of spec/MC_Engine.tla, inputs of at most 3-5 lines over a 5-7 line alphabet, 1-3 files, the table t(k TEXT, v INT) and its NOT NULL / DEFAULT variants. Trusted: TLC, serde_json (decoding printed JSON records), the harness' SQL renderer (harness/src/sql.rs) and value projection (harness/src/val.rs).",
    technique="TLA+ model checking (TLC): operational Engine.tla refines declarative Sem.tla; every behaviour of the bounded model replayed on FileExecutor / ExecutionEngine"),
 "C06": dict(
    category="model_checking",
    text='Admission rule and NoiseIsStutter (action property: a non-admitted line leaves DISTINCT memory, limit counter, aggregate state, join index and output unchanged) checked by TLC; inputs interleave every kind of non-admitted line (garbage, empty, all-NULL, near miss, NOT NULL failure) at every position; replayed in batch and incremental mode and on the joined side.',
    design_ref='DESIGN.md section 6 (C06)',
    note="Bounded: statements from the menus of spec/MC_Engine.tla, inputs of at most 3-5 lines over a 5-7 line alphabet, 1-3 files, the table t(k TEXT, v INT) and its NOT NULL / DEFAULT variants. Trusted: TLC, serde_json (decoding printed JSON records), the harness' SQL renderer (harness/src/sql.rs) and value projection (harness/src/val.rs).",
    technique="TLA+ model checking (TLC): operational Engine.tla refines declarative Sem.tla; every behaviour of the bounded model replayed on FileExecutor / ExecutionEngine"),
 "C07": dict(
    category="model_checking",
    text='LimitLaw via BatchRefinesSem (Sem applies Take(n)) and ConsumedBound (no line beyond the one producing the n-th row is consumed; LIMIT 0 consumes nothing) for n in 0..4 x inputs split over 1-3 files x plain / DISTINCT / NULL-only rows / join fan-out / aggregates; replay compares records and statistics().total_lines.',
    design_ref='DESIGN.md section 6 (C07)',
    note="Bounded: statements from the menus of spec/MC_Engine.tla, inputs of at most 3-5 lines over a 5-7 line alphabet, 1-3 files, the table t(k TEXT, v INT) and its NOT NULL / DEFAULT variants. Trusted: TLC, serde_json (decoding printed JSON records), the harness' SQL renderer (harness/src/sql.rs) and value projection (harness/src/val.rs).",
    technique="TLA+ model checking (TLC): operational Engine.tla refines declarative Sem.tla; every behaviour of the bounded model replayed on FileExecutor / ExecutionEngine"),
 "C08": dict(
    category="model_checking",
    text="DistinctLaw: Sem's StableDedup with value equality (NULL = NULL, -0.0 = 0.0) against the engine's DISTINCT memory, for SELECT and for aggregate tables (with and without HAVING, fresh memory per table in incremental mode); replayed in batch and incremental mode.",
    design_ref='DESIGN.md section 6 (C08)',
    note="Bounded: statements from the menus of spec/MC_Engine.tla, inputs of at most 3-5 lines over a 5-7 line alphabet, 1-3 files, the table t(k TEXT, v INT) and its NOT NULL / DEFAULT variants. Trusted: TLC, serde_json (decoding printed JSON records), the harness' SQL renderer (harness/src/sql.rs) and value projection (harness/src/val.rs).",
    technique="TLA+ model checking (TLC): operational Engine.tla refines declarative Sem.tla; every behaviour of the bounded model replayed on FileExecutor / ExecutionEngine"),
 "C11": dict(
    category="model_checking",
    text="IncrRefinesSem / IncrSelectRefinesSem: after every line of the incremental configuration the engine's table equals the declarative meaning of the consumed prefix; the per-line outputs of every behaviour are compared with ExecutionEngine::execute(update+result) step by step.",
    design_ref='DESIGN.md section 6 (C11)',
    note="Bounded: statements from the menus of spec/MC_Engine.tla, inputs of at most 3-5 lines over a 5-7 line alphabet, 1-3 files, the table t(k TEXT, v INT) and its NOT NULL / DEFAULT variants. Trusted: TLC, serde_json (decoding printed JSON records), the harness' SQL renderer (harness/src/sql.rs) and value projection (harness/src/val.rs).",
    technique="TLA+ model checking (TLC): operational Engine.tla refines declarative Sem.tla; every behaviour of the bounded model replayed on FileExecutor / ExecutionEngine"),
 "C19": dict(
    category="model_checking",
    text='Interrupt is an environment choice at every line boundary (hook batch_line), every printed record (printer) and every joined-file line (hook join_line); TLC checks InterruptFreeze, PrintedIsPrefix, InterruptedAggregate, NoErrorFromInterrupt; each behaviour is replayed with the flag cleared at exactly that point.',
    design_ref='DESIGN.md section 6 (C19)',
    note="Bounded: statements from the menus of spec/MC_Engine.tla, inputs of at most 3-5 lines over a 5-7 line alphabet, 1-3 files, the table t(k TEXT, v INT) and its NOT NULL / DEFAULT variants. Trusted: TLC, serde_json (decoding printed JSON records), the harness' SQL renderer (harness/src/sql.rs) and value projection (harness/src/val.rs).",
    technique="TLA+ model checking (TLC): operational Engine.tla refines declarative Sem.tla; every behaviour of the bounded model replayed on FileExecutor / ExecutionEngine"),
 "C12": dict(
    category="model_checking",
    text="Reader.tla models the batch driver's line reading (ReadLine / NextFile over bytes: LF, CRLF, final line without newline, empty lines, a byte that is not UTF-8, a 2-byte character) and TLC checks ExactlyOnceInOrder, PrefixAlways, ConcatLaw and NothingLostSilently for every content up to MaxLen bytes and every cut into 1-3 files. Every case is written to real files and read by FileExecutor (SELECT x, COUNT(*), total_lines) and by the join loader, also with runs of 8191/8192/8193 bytes around the BufReader capacity; Engine.tla behaviours over inputs split into up to 3 files are replayed as well.",
    design_ref="DESIGN.md section 6 (C12)",
    note="Bounded: contents up to 5 (thorough 6) bytes over 6 symbols. Trusted: TLC, serde_json, std BufRead.",
    technique="TLA+ model checking (TLC) of the reader state machine + replay of every bounded behaviour on real files"),
 "C16": dict(
    category="model_checking",
    text="Values.tla defines the one total order (Cmp), equality (Eq) and hash class (Canon) C16 demands and the code's as-built comparison (CmpB/EqB/HashKeyB). TLC checks trichotomy, transitivity, equality = order, equal => equal hash and numbers-by-value on all 79 507 triples of a 43-value boundary universe (NULL, integers at 0 and the 64-bit extremes, reals incl. -0.0, infinities, NaN, an INT and a REAL of equal value, texts, nested arrays, instants, intervals). Every ordered pair is executed on the real Value (==, cmp, partial_cmp, <, >, Hash with two hashers) and through every consumer the property names (WHERE, DISTINCT, GROUP BY grouping and order, MIN/MAX, array_unique) via Engine.tla's PairMenu; random wider pairs are validated as a trace by Trace_Values.tla.",
    design_ref="DESIGN.md section 6 (C16)",
    note="Bounded universe of 43 values; join lookup is covered through the Eq/Hash contract (HashMap) rather than through a join on every type. Trusted: TLC, std HashMap/BTreeMap honouring Eq/Hash/Ord.",
    technique="TLA+ model checking (TLC) of order/equality/hash laws over all triples + replay of every pair on the real trait impls and consumers + trace validation of random pairs"),
 "C17": dict(
    category="model_checking",
    text="Printer.tla is the state machine of OutputPrinter::print (state: first_line; steps PrintHeader / PrintRecord / PrintSeparator inside one PrintResult action per call). TLC checks EveryRowOnceInOrder, HeaderOnce and FieldsPerRecord over sequences of print calls (0-3 rows, 1-2 columns, single/multi) in the three formats; every behaviour is executed on the real OutputPrinter with a capturing Printer. JSON records are decoded with serde_json and must have exactly the column names in order and values that recover the row (INT exactly incl. 64-bit extremes, finite REAL exactly, TEXT code point for code point incl. quotes, control and astral characters, arrays); text/CSV lines are compared exactly for delimiter-free values, including the lone-input rule.",
    design_ref="DESIGN.md section 6 (C17)",
    note="Lexical escaping of JSON is judged by decoding with serde_json (trusted), not by TLA+. Text/CSV content only for values free of delimiter, quote and line-break characters, as the property states.",
    technique="TLA+ model checking (TLC) of the printer state machine + replay of every bounded behaviour on the real OutputPrinter"),
 "C13": dict(
    category="model_checking",
    text="Grammar.tla holds the reference precedence table of C13, expression trees, Full(t) (fully parenthesised) and Min(t) (minimal parentheses) and a precedence-climbing reference parser; TLC checks Parse(Min(t)) = t = Parse(Full(t)) for every enumerated tree (the grammar is unambiguous, Min is right) and emits both texts. The real parser must produce the same statement for Min(t) - written with spaces and written without any optional whitespace (x=-1, x- -1) - as for Full(t): all operators in trees of up to 2 operator nodes (every ordered operator pair in both nestings), negated operands and literals after every operator, parenthesised operands everywhere, IN lists of one element, subscripts, casts, qualified names, CASE, calls; thorough adds 3-node trees over one operator per level.",
    design_ref="DESIGN.md section 6 (C13)",
    note="Bounded tree size. The statement compared is the lowered Statement (Debug form), i.e. what is executed.",
    technique="TLA+ reference grammar + parser checked by TLC; every tree's minimal and full text parsed by the real parser and compared"),
 "C20": dict(
    category="model_checking",
    text="Lexical.tla models a statement as classified lexemes with a layout state (clause order, per-lexeme letter case, per-gap separator incl. -- comments, leading/trailing separator, semicolon) and edit actions FlipCase / SetSep / SetLead / SetTrail / ToggleSemicolon / SwapClauses. An ideal lexer (whitespace, comments, strings with backslash escapes, words, numbers, two-character operators) is part of the module: TLC checks that every reachable layout state still reads as the base token stream (the edits are layout-only, e.g. separators are only removed where tokens stay separated). Every reachable state is rendered and parsed by the real parser and must give the same statement as the base layout.",
    design_ref="DESIGN.md section 6 (C20)",
    note="12 base statements (generated into spec/LexBase.tla by lib/gen_lexbase.py); all single edits, all clause permutations, pairs of edits on a subset (all statements in the thorough tier).",
    technique="TLA+ layout state machine with an ideal lexer, model checked by TLC; every reachable layout replayed on the real parser"),
 "C14": dict(
    category="exploration",
    text="ParseTotal.tla generates the texts (mutation machine over valid statements: delete / duplicate / swap a lexeme, cut at every character; all token soups over a 51-token vocabulary; known-bad statements that must be errors; nesting up to depth 64) and fixes only the admissible outcome class; the harness parses each text with parse and parse_into_tree under catch_unwind (overflow checks on), checks that an error's position lies inside the text and that extract_near can be produced. Random Unicode strings and character-level mutations are recorded as a trace whose outcome classes TLC validates (Trace_Parse.tla).",
    design_ref="DESIGN.md section 6 (C14), section 10",
    note="The specification is a generator/classifier here, not a semantic oracle: exploration level. Stack overflow by nesting beyond the documented bound (64) is out of scope.",
    technique="TLC-generated mutation / token-soup / nesting cases replayed on the real parser + trace validation of random Unicode inputs"),
 "C01": dict(
    category="model_checking",
    text="Extract.tla transcribes the documented extraction rules (MatchPattern, ExtractColumn with typed conversion, BOOLEAN = group existence, arrays and TIMESTAMP assembled position by position with calendar validation, TRIM, DEFAULT, the NOT NULL cut, admission) over abstract lines (pattern no-match / per-group absent or text); TLC checks ColumnsIndependent and AdmissionRule on every case of the menus and emits the predicted row. Each case is rendered to CREATE TABLE text (parsed by the real parser; built through the API when the grammar cannot express the modifier combination) and a real line whose capture groups are cross-checked against the regex crate, executed with SELECT * and compared value by value.",
    design_ref="DESIGN.md section 6 (C01)",
    note="One 7-group capture pattern, one split pattern and one inline pattern stand for all patterns; the regex crate itself is trusted. Outcomes the property leaves open (REAL spellings beyond plain decimals, month group absent, leap-second encodings) are only checked for totality.",
    technique="TLA+ transcription of the extraction rules, enumerated by TLC (state graph = test suite) and replayed through parser + engine"),
 "C02": dict(
    category="model_checking",
    text="Extract.tla's JSON part: documents as trees, Walk(path), conversion per declared type without coercion, CONVERT, DEFAULT only for an absent path or a non-JSON line, NULL for another type; TLC enumerates 18 leaf kinds x 8 types x modifiers, paths of length 1-3 over documents with missing / wrong-kind intermediate nodes and duplicate keys, and 5 kinds of non-JSON lines, each with a regex column on the raw line; every case is rendered to JSON text and CREATE TABLE text and executed on the real code.",
    design_ref="DESIGN.md section 6 (C02)",
    note="serde_json is trusted as the JSON parser; duplicate keys and numbers beyond i64 read as REAL are left open (totality only).",
    technique="TLA+ transcription of the JSON-path rules, enumerated by TLC and replayed through parser + engine"),
 "C09": dict(
    category="exploration",
    text="Totality is decided by the outcome class of every execution: the bounded models (Engine.tla BoundaryMenu and aggregate menus, Printer.tla, Extract.tla) predict value / error / unknown for operators, functions, subscripts, casts, aggregates, printing and extraction on 64-bit extremes, zero divisors, NaN / infinities / -0.0, NULL-only groups and out-of-range date parts, and a panic or a wrapped value where they predict otherwise is a mismatch; seeded drivers add arbitrary bytes through FileExecutor in three formats and the CLI as a child process under six TZ settings with timestamps in DST gaps / overlaps, whose recorded outcome classes TLC validates against Trace_Total.tla (only Completed / Reported exist).",
    design_ref="DESIGN.md section 6 (C09), section 10",
    note="For arbitrary bytes and TZ runs the specification is a classifier (outcome class), not a semantic oracle: exploration level. Harness built with overflow checks on; hangs via watchdog.",
    technique="TLC-enumerated boundary cases replayed on the real code + trace validation of outcome classes for byte soups and TZ child-process runs"),
 "C15": dict(
    category="model_checking",
    text="PermLaw (for every permutation of every enumerated input the table of an order-insensitive aggregate statement is the same) and CombineLaw (the table over x o y is the key-wise combination of the tables over x and y: counts and sums add, minima and maxima combine, groups union) are TLC invariants over Sem.tla; BatchRefinesSem ties the operational engine with its running state to Sem; every ordering of every input is executed on the real code. On the repository's corpora seeded shuffles and cuts are run on the real code and Trace_Laws.tla checks Perm and Combine between the recorded outputs.",
    design_ref="DESIGN.md section 6 (C15)",
    note="Aggregates COUNT, SUM, MIN, MAX, AVG, STDDEV, VARIANCE, PERCENTILE, BOOL_AND, BOOL_OR, COUNT(DISTINCT) over INT / TEXT / BOOLEAN arguments; REAL sums only when exactly representable.",
    technique="TLA+ model checking (TLC) of permutation / combination laws + replay of all orderings + relational trace validation on corpora"),
 "C18": dict(
    category="model_checking",
    text="Engine.tla is checked to be deterministic (TLC: every state has at most one successor), so the as-built model assigns one output to each (definition, statement, input); every replayed behaviour must equal it (rows in input order, groups in key order, * in definition order, partners in joined-file order). Repeated executions inside one process (Trace_Laws Repeat) and four executions of the CLI in fresh processes (fresh hash seeds) with unrelated tables defined before / after the queried one must print identical output.",
    design_ref="DESIGN.md section 6 (C18)",
    note="The code's hash containers are only used for lookups; the model therefore has no order choice to range over, which is exactly what the determinism check establishes for the model and the replays for the code. now() excluded.",
    technique="TLC determinism check of Engine.tla + replay against the unique output + fresh-process CLI runs validated as a trace"),
}

# what later rounds added to each check (appended to the text above)
ADDED = {
 "C02": " Round 3: documents whose object keys look like array indexes (an index step addresses arrays only) and the same documents written with insignificant whitespace around / inside them.",
 "C03": " Round 3: Expr.tla now gives exact meaning (under TZ=UTC) to timestamps and intervals - timestamp +- interval, timestamp - timestamp, interval +- interval, every other operator mix an error, casts between TEXT / TIMESTAMP / INTERVAL / INT / REAL, comparison of a TIMESTAMP with a text literal, EXTRACT(EPOCH ...), date_trunc, make_timestamp with calendar validation - and to pow, sqrt and regex_matches (literal patterns with anchors); CalMenu replays them per row.",
 "C04": " Round 3: aggregates over TIMESTAMP and INTERVAL values (MIN / MAX by instant, SUM / AVG of intervals, GROUP BY a timestamp or a truncated timestamp, PERCENTILE, ARRAY_AGG, DISTINCT on them).",
 "C06": " Round 3: a table whose pattern is anchored at both ends and noise lines longer than the reader's buffers (8 KiB, 64 KiB, 100 000 bytes) whose tail reads like a row.",
 "C08": " Round 3: two NaNs of different bit patterns (NaN and -NaN) are one value for DISTINCT, also when the REAL is not the last member of the tuple.",
 "C09": " Round 3: interval texts, sums and differences beyond the representable range, timestamps at the ends of the calendar, date parts beyond their fields, fractions of a second whose scaling leaves 32 bits, pow / sqrt / date_trunc / EXTRACT(EPOCH) / regex_matches on extremes and wrong types; and Cli.tla: every kind of invocation of the real process ends with the modelled output and exit status (no panic, no signal).",
 "C10": " Round 3: contents now include a byte that is not UTF-8 anywhere (delivered as U+FFFD by lossy decoding of the whole line), so the reader's position bookkeeping cannot depend on decoded lengths.",
 "C12": " Round 3: Cli.tla models the command-line driver (files in command-line order, FROM t::'file' and --stdin replacing them, a file that cannot be opened: one message and no record, the `processed n lines` statistic); TLC checks FilesInOrder / MessageOrRecords on it and every behaviour is one run of the real binary compared line by line.",
 "C14": " Round 3: pattern strings nested / repeated far beyond the regular-expression compiler's limits (20 000 groups), classified in a child process so that a stack overflow is an observation (crash), and Cli.tla's messages: a statement or definition file that does not parse gives one located message, exit status 1 only for the definition file.",
 "C16": " Round 3: the universe holds two NaNs of different bit patterns (43 values, 79 507 triples); PairMenu also deduplicates two-column tuples.",
 "C17": " Session.tla (the interactive loop fed from a pipe) replays the empty line that follows the several rows one input line fans out to, and its absence after an aggregate's final table. Round 3: Cli.tla replays the records as the real process prints them on stdout in every --format (CSV header once and only with a record, one record per line, statistics line last).",
 "C18": " Session.tla: several statements / commands in one process (CREATE TABLE at run time, \\d, exit): TLC checks HistoryFree (a statement's output is a function of the statement, the tables defined so far and the input) and every session of up to 2 (thorough 3) lines is replayed on the real binary. Round 3: a joined file of 120 lines with three keys interleaved irregularly (partners must come in joined-file order whatever index the loader builds) and, in fresh processes, tables whose names differ only in letter case queried under a third spelling.",
 "C19": " Round 3: Trace_Sigint.tla validates runs of the real process interrupted by a real SIGINT (main.rs ctrl-c handler): rows are a prefix, lines processed = rows printed, an interrupted aggregate shows the table of exactly the lines consumed, status 0 and no error.",
}
# rounds 4 to 6 of seeded changes (DESIGN.md section 6.1 / 12)
ADDED2 = {
 "C01": " Rounds 4-6: array / TIMESTAMP columns over split fields listed out of order, Unicode whitespace in TRIM, tables mixing JSON and regex columns with NOT NULL in every position.",
 "C02": " Rounds 4-6: two TEXT columns whose paths meet on one JSON string, top-level arrays / scalars / leading blanks, NOT NULL before, at and after the first JSON column.",
 "C03": " Rounds 4-6: statements written with the fewest parentheses (PrecMenu), NOT over IN / IS / comparisons, CASE with a failing condition, REAL against REAL incl. -0.0 (also through IN) in the random expression traces.",
 "C04": " Rounds 4-6: unary / cast wrappers, HAVING that combines selected and unselected aggregates, the same aggregate twice in HAVING, PERCENTILE with three-decimal and eighth fractions over 3 and 25-40 values, a REAL column.",
 "C05": " Rounds 4-6: joined paths that are missing / lack the ON column / are a directory (also with LIMIT 0 and empty input), a DEFAULT on the joined side of an OUTER JOIN, 120 joined lines with interleaved keys, LIMIT over join fan-out.",
 "C06": " Rounds 4-6: NOT NULL next to DEFAULT on noise lines, the admission rule per (definition, line) over tables mixing JSON and regex columns (Extract.tla), follow mode over inputs with noise lines incl. aggregates with LIMIT (Engine.tla models the follow-mode row count as built).",
 "C07": " Rounds 4-6: DISTINCT aggregates under LIMIT on four-line inputs; follow mode: a statement whose LIMIT is complete returns without going back to the file; aggregates with LIMIT in follow mode.",
 "C08": " Rounds 4-6: DISTINCT aggregates over joins with duplicate joined lines, DISTINCT over a subset of the group keys and over groups keyed by expressions that are not shown.",
 "C09": " Rounds 4-6: month words with multi-byte characters, letters whose case forms have another length, joined paths that cannot be read, the command-line driver on unreadable inputs.",
 "C10": " Rounds 4-6: an interrupt while the reader waits (Follow.tla Interrupt / halted).",
 "C11": " Rounds 4-6: aggregates over a join whose WHERE looks at the joined side, fed line by line; PERCENTILE over equal-but-distinguishable values on 40-60 lines; every follow replay starts with a non-UTF-8 noise line and polls the end of file twice; a byte order mark on the first line of a file (batch and follow read the same line).",
 "C12": " Rounds 4-6: lossy_lines over short reads and one interrupted read at every position (four buffer capacities), a file whose metadata reports size 0, Reader.tla over every byte sequence (characters cut off by a line / file end, lone continuation bytes), follow mode of the real binary.",
 "C13": " Rounds 4-6: four operator nodes (thorough), statements evaluated by value (regrouping after parsing), tokens separated by line breaks (each token at column 0), blanks before line breaks, tabs / CRLF.",
 "C14": " Rounds 4-6: tuples nested in first position, wide whitespace before the error, array type names in rare letters, invalid patterns no column refers to, errors next to long words of 2- / 3- / 4-byte characters at every alignment.",
 "C15": " Rounds 4-6: COUNT(DISTINCT) over 18 distinct values, aggregates over TIMESTAMP / INTERVAL / REAL under permutation, a synthetic corpus of 64-bit extremes.",
 "C16": " Rounds 4-6: a text literal on either side of a TIMESTAMP under every operator, whole-row comparison (DISTINCT / GROUP BY over three- and four-column tuples with exchanged values), join lookup across INT / REAL keys.",
 "C17": " Rounds 4-6: control characters, JSON-looking TEXT, rare letters, astral and combining characters.",
 "C19": " Rounds 4-6: a SIGINT during an aggregate over a join in which every line has 400 partners (rows = 400 x lines processed), an interrupt while the follow reader waits.",
 "C20": " Rounds 4-6: comments holding backslashes / non-ASCII text, non-ASCII literals followed by further clauses.",
}
# round 7 (DESIGN.md section 12, round 7): generalisations rather than single cases
ENGINE_R7 = (" Round 7: generated statement menus (GenMenu / GenJoinMenu: every clause drawn independently from a pool by TLC's RandomElement -- projections x WHERE x DISTINCT x LIMIT incl. i64::MAX x GROUP BY keys "
             "x 1-3 aggregates plain or inside injective / non-injective wrappers x HAVING x INNER / OUTER JOIN) run under random inputs in batch and line-by-line mode; a corpus of 1 700 lines over 1 301 keys under every law.")
ADDED3 = {
 "C01": " Round 7: Trace_Extract.tla (impl -> spec): random definitions over a pool of 30 realistic patterns (capture / split mode, inline patterns, every type and modifier) x random lines (carriage returns, tabs, Unicode blanks, numeric extremes); what each pattern matches is asked of the regex crate, the row is computed by Extract.tla and must be the observed one.",
 "C02": " Round 7: Trace_Extract.tla: documents built along the JSON paths of random definitions and written by a randomised writer (\\uXXXX escapes in keys and strings, insignificant blanks, other number spellings, 2^63 / 2^64 - 1); serde_json says what the document is, Extract.tla what the row must be.",
 "C03": ENGINE_R7 + " The expression traces carry the regex crate's verdict for every (text, pattern) pair a regex_matches node meets (36 patterns incl. counted repetitions, classes, alternations, flags).",
 "C04": ENGINE_R7 + " Aggregates whose argument has no value on one row of a group (ErrAggMenu), groups keyed by arrays of different lengths.",
 "C05": ENGINE_R7 + " A table joined with itself (qualified names denote the joined row); a join ON a column the queried table lacks is an error with any input, any joined file and any LIMIT (fix c4e8e89).",
 "C06": ENGINE_R7 + " Trace_Extract.tla NoiseLaw: per random definition two batch runs (all recorded lines / the row lines only) print the same under eight statement kinds.",
 "C07": ENGINE_R7 + " LIMIT beyond every size (i64::MAX, 2^62) in the menus and in the limit law.",
 "C08": ENGINE_R7 + " DISTINCT over expressions of aggregates that are not injective (/ 2, > 1, abs(x - 2), * 0); DISTINCT with a LIMIT beyond every size.",
 "C09": " Round 7: LIMIT beyond every size next to DISTINCT / HAVING, aggregates whose argument fails on one row, the generated statement menus under random inputs.",
 "C10": " Round 7: a blank in the content alphabet (white space at the end of a followed line is part of the line).",
 "C11": ENGINE_R7 + " Lines that end in white space (blank, tab, NO-BREAK SPACE, CR + blank) reach the engine unchanged in batch, line-by-line and follow mode (PostMenu).",
 "C13": " Round 7: wide expressions -- 66 / 130 bracketed constructs of every kind (IN lists, calls, subscripts, casts, CASE, parenthesised operands) in one statement, a parenthesised operand after 64-70 IN lists.",
 "C14": " Round 7: integer literals at and beyond the 64-bit range (2^63 - 1, 2^63, 2^63 + 1, 2^64 - 1, 2^64, 10^19) in twelve numeric positions of queries and definitions.",
 "C15": ENGINE_R7 + " ErrAggMenu and OrderLimitMenu (LIMIT next to HAVING / DISTINCT) under PermLaw: the same table or the same error for every order of the lines.",
 "C17": " Round 8: Trace_Printer.tla (impl -> spec): random results -- any 64-bit integer, any finite or non-finite REAL, TEXT with control characters / quotes / delimiters, arrays, timestamps within the same second as the one printed before, intervals, 1-3 print() calls -- replayed through Printer.tla's own PrintResult action; JSON numbers are read from their lexemes with a correctly rounded parser and compared exactly (2^63 written as 9223372036854775807 is another number).",
 "C18": ENGINE_R7,
 "C20": " Round 7: whitespace beyond ASCII between tokens (VT, FF, NO-BREAK SPACE, NEL, LINE SEPARATOR, IDEOGRAPHIC SPACE, EM SPACE).",
}
SEM_R8 = " Round 8: Trace_Sem.tla (impl -> spec): statements put together clause by clause to fit the column types of random table definitions (any pattern, columns of any type) over random lines; the rows the engine extracted are in the event and Sem.tla gives the statement's meaning over them (the open finding AggEmptyGroupDropped is modelled declaratively: both outcomes are admitted)."
ADDED4 = {
 "C03": SEM_R8,
 "C04": SEM_R8 + " COUNT(DISTINCT) over more than 16 distinct values with recurrences (count-distinct-wide); generated statements on 40-64 lines over 40 values x 3 keys (gen-wide).",
 "C05": " Round 8: a DEFAULT on the joined table's key column (every line of the joined file, also an empty one, is a row and joins); Session.tla: the joined table defined again between two joins of one process, joins ON different columns of one joined table.",
 "C08": SEM_R8 + " More than 16 / 32 distinct rows, each recurring later (distinct-wide, gen-wide).",
 "C09": " Round 8: Cli.tla: statements cut off at the end of a text that ends in line breaks, definition files with a missing final semicolon or a second table whose pattern is no regular expression.",
 "C11": " Round 8: a table for which an empty line is a row (DEFAULT) in batch and line-by-line mode; the Reader replay.",
 "C12": " Round 8: a byte order mark at the start of a later file; Cli.tla texts ending in line breaks.",
 "C13": " Round 8: every element of an IN list, a call and a CASE is an expression (compound elements in every position).",
 "C14": " Round 8: Cli.tla: a statement cut off at the end of a command text that ends in one / two line breaks (the located message must still be printed), a `;` inside a comment, definition files with a missing final `;` / several definitions of which one has an invalid pattern (also in ParseTotal's malformed statements).",
 "C15": " Round 8: a byte order mark at the start of a later file (bom-files); follow mode over every order of the lines with lines that yield no row (the shown table never depends on which line comes last).",
 "C18": " Round 8: Session.tla: `redefj` / `join2` -- nothing loaded for an earlier statement of the process (a joined table, its index) is used again by a later one.",
 "C19": " Round 8: Trace_Sigint JoinLoadStopped: a real SIGINT while a joined file of 2.5 million lines is loading -- the read offset of the joined file stops within a few read-ahead buffers, no input line is processed, nothing is printed, status 0.",
 "C20": " Round 8: a minus sign in front of literals followed by casts / in comparisons / after another minus under every separator (base statement 15); Cli.tla: the text of -c / --command-file reaches the parser as given (a `;` inside a comment, a final `;` and line break).",
}
for _pid, _t in ADDED3.items():
    ADDED2[_pid] = ADDED2.get(_pid, "") + _t
for _pid, _t in ADDED4.items():
    ADDED2[_pid] = ADDED2.get(_pid, "") + _t
for _pid, _t in ADDED.items():
    CLAIMED[_pid]["text"] += _t
for _pid, _t in ADDED2.items():
    CLAIMED[_pid]["text"] += _t

TITLES = {}
for l in open(os.path.join(ROOT, "properties.jsonl")):
    p = json.loads(l)
    TITLES[p["id"]] = p["title"]

def main():
    checks = []
    for pid in sorted(CLAIMED):
        c = CLAIMED[pid]
        checks.append({
            "property_id": pid,
            "quick_cmd": "./check %s --tier quick" % pid,
            "thorough_cmd": "./check %s --tier thorough" % pid,
            "evidence_file": "/verif/evidence/%s.json" % pid,
            "replay_cmd_template": "./check %s --replay {path}" % pid,
            "engine": "tlc+vh",
            "level_claimed": {"category": c["category"], "text": c["text"], "design_ref": c["design_ref"]},
            "level_note": c["note"],
            "technique": c["technique"],
        })
    na = [{"property_id": pid, "reason": "check not built yet in this round (planned: DESIGN.md section 6); nothing is claimed for it"}
          for pid in sorted(TITLES) if pid not in CLAIMED]
    m = {
        "version": 1,
        "setup_cmd": "./setup.sh",
        "hooks": {
            "guard": "cargo feature verif_hooks",
            "enable": "the harness crate /verif/harness depends on sqlgrep = { path = \"/repo\", features = [\"verif_hooks\"] } and is rebuilt by every check (cargo build --offline)",
            "baseline_off_cmd": "cd /repo && cargo test --workspace --no-fail-fast --offline",
            "source_commits": ["5a2368f"],
            "add_only": True
        },
        "engines": [
            {"name": "tlc+vh", "path": "/verif/check", "serves_properties": sorted(CLAIMED),
             "kind_free_text": "TLA+ specifications in /verif/spec checked with TLC; Rust harness /verif/harness (binary vh) replays TLC behaviours on sqlgrep and records traces that TLC validates"}
        ],
        "checks": checks,
        "not_applicable": na,
        "notes": "See DESIGN.md. KNOWN_FINDINGS.txt lists open findings (modelled as named deviations in the specs) and fixed ones."
    }
    open(os.path.join(ROOT, "MANIFEST.json"), "w").write(json.dumps(m, indent=1) + "\n")

if __name__ == "__main__":
    main()
