#!/usr/bin/env python3
"""Regenerates MANIFEST.json from the table below (keeps it valid and in step with lib/props.py)."""
import json, os
ROOT = os.path.dirname(os.path.dirname(os.path.abspath(__file__)))

CLAIMED = {
 "C10": dict(
    category="model_checking",
    text="Follow.tla models writer appends, BufReader fills, read_until scans, EOF retries and deliveries byte by byte. TLC proves on the bounded model (all UTF-8 contents up to MaxLen bytes, all chunkings, all interleavings of appends with reader steps, capacities 1/2/3/8, head and tail start) that delivered lines are always a prefix of the complete lines, bytes are conserved, the tail is never delivered, nothing is pending at quiescence, and (under weak fairness) every complete line is eventually delivered. Every hook-realisable behaviour of the model is then replayed on the real FollowFileIterator (and a sample on FollowFileExecutor in a child process) and must agree step by step; traces of a real writer thread racing the real iterator are validated against the same actions by TLC.",
    design_ref="DESIGN.md section 6 (C10)",
    note="Bounded: contents up to 4 (quick: 3 for replay) / 5 bytes over a 6-symbol alphabet with one 2-byte character. Trusted: TLC, kernel append/read semantics, the harness' hook driver (harness/src/follow.rs).",
    technique="TLA+ model checking (TLC) + spec->impl replay through a retry-point hook + impl->spec trace validation of a concurrent writer"),
}

TITLES = {}
for l in open(os.path.join(ROOT, "properties.jsonl")):
    p = json.loads(l)
    TITLES[p["id"]] = p["title"]

def main():
    checks = []
    for pid in sorted(CLAIMED):
        c = CLAIMED[pid]
        checks.append({
            "property_id": pid,
            "quick_cmd": "./check %s --tier quick" % pid,
            "thorough_cmd": "./check %s --tier thorough" % pid,
            "evidence_file": "/verif/evidence/%s.json" % pid,
            "replay_cmd_template": "./check %s --replay {path}" % pid,
            "engine": "tlc+vh",
            "level_claimed": {"category": c["category"], "text": c["text"], "design_ref": c["design_ref"]},
            "level_note": c["note"],
            "technique": c["technique"],
        })
    na = [{"property_id": pid, "reason": "check not built yet in this round (planned: DESIGN.md section 6); nothing is claimed for it"}
          for pid in sorted(TITLES) if pid not in CLAIMED]
    m = {
        "version": 1,
        "setup_cmd": "./setup.sh",
        "hooks": {
            "guard": "cargo feature verif_hooks",
            "enable": "the harness crate /verif/harness depends on sqlgrep = { path = \"/repo\", features = [\"verif_hooks\"] } and is rebuilt by every check (cargo build --offline)",
            "baseline_off_cmd": "cd /repo && cargo test --workspace --no-fail-fast --offline",
            "source_commits": ["5a2368f"],
            "add_only": True
        },
        "engines": [
            {"name": "tlc+vh", "path": "/verif/check", "serves_properties": sorted(CLAIMED),
             "kind_free_text": "TLA+ specifications in /verif/spec checked with TLC; Rust harness /verif/harness (binary vh) replays TLC behaviours on sqlgrep and records traces that TLC validates"}
        ],
        "checks": checks,
        "not_applicable": na,
        "notes": "See DESIGN.md. KNOWN_FINDINGS.txt lists open findings (modelled as named deviations in the specs) and fixed ones."
    }
    open(os.path.join(ROOT, "MANIFEST.json"), "w").write(json.dumps(m, indent=1) + "\n")

if __name__ == "__main__":
    main()
