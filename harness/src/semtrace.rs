//! impl -> spec for Sem.tla over tables nobody wrote by hand: a random definition (the generator of the extraction traces: any pattern, any column
//! type), random lines, and a statement put together clause by clause over its columns according to their types (projections, WHERE, DISTINCT,
//! GROUP BY on columns of any type, every aggregate that fits the argument's type, HAVING).  The event carries the rows as the engine extracted
//! them (`SELECT *` line by line: judged on their own by Trace_Extract.tla), the statement as a tree and the typed result of feeding the same
//! lines one by one to the statement's engine.  Trace_Sem.tla computes the meaning of the statement over those rows with Sem.tla.
use crate::common::*;
use crate::engine::setup_tables;
use crate::sql;
use crate::val::*;
use rand::{Rng, SeedableRng};
use serde_json::{json, Value as J};
use sqlgrep::execution::execution_engine::{ExecutionConfig, ExecutionEngine};

type R = rand::rngs::StdRng;
fn col(n: &str) -> J { json!({"op": "col", "name": n}) }
fn lit(v: J) -> J { json!({"op": "lit", "v": v}) }
fn txt(s: &str) -> J { json!({"t": "text", "s": s.chars().map(|c| c as u32).collect::<Vec<_>>()}) }
fn none() -> J { json!({"op": "none"}) }

/// every number of an event must be readable by TLC
fn tlc_readable(v: &J) -> bool {
    match v {
        J::Number(n) => n.as_i64().map(|i| i.unsigned_abs() < (1 << 31) - 1).unwrap_or(false),
        J::Array(xs) => xs.iter().all(tlc_readable),
        J::Object(m) => m.get("c").map(|c| c != "other").unwrap_or(true) && m.values().all(tlc_readable),
        _ => true
    }
}

/// an expression over column `c` of type `ty` (and its result kind)
fn expr_over(r: &mut R, c: &str, ty: &str) -> J {
    let x = if r.gen_bool(0.25) { col(&format!("t.{}", c)) } else { col(c) };        // the table-qualified name is the same column
    match (ty, r.gen_range(0..5)) {
        ("text", 1) => json!({"op": "call", "f": "upper", "args": [x]}),
        ("text", 2) => json!({"op": "call", "f": "length", "args": [x]}),
        ("int", 1) => json!({"op": "arith", "f": "+", "a": x, "b": lit(jint(1))}),
        ("int", 2) => json!({"op": "arith", "f": "*", "a": x, "b": lit(jint(2))}),
        ("int", 3) => json!({"op": "neg", "a": x}),
        ("bool", 1) => json!({"op": "not", "a": x}),
        ("arr", 1) => json!({"op": "call", "f": "array_length", "args": [x]}),
        ("arr", 2) => json!({"op": "idx", "a": x, "i": lit(jint(1))}),
        ("ts", 1) => json!({"op": "call", "f": "extract_year", "args": [x]}),
        (_, 4) => json!({"op": "is", "neg": r.gen_bool(0.5), "a": x, "b": lit(json!({"t": "null"}))}),
        ("int", 0) | ("text", 0) | ("bool", 0) | ("ts", 0) | ("iv", 0) => json!({"op": "cast", "a": x, "ty": "text"}),
        ("real", 1) => json!({"op": "arith", "f": "*", "a": x, "b": lit(jreal(2.0))}),
        ("real", 2) => json!({"op": "neg", "a": x}),
        ("text", 3) => json!({"op": "call", "f": "lower", "args": [x]}),
        ("int", 4) => json!({"op": "call", "f": "abs", "args": [x]}),
        _ => x
    }
}

/// an expression over two columns (or a column and the raw line): CASE on a condition over the one, arithmetic between two INT columns
fn expr_over2(r: &mut R, names: &[String], types: &[String]) -> J {
    let i = r.gen_range(0..names.len()); let j = r.gen_range(0..names.len());
    match r.gen_range(0..4) {
        0 => json!({"op": "case", "cl": [[cond_over(r, &names[i], &types[i]), expr_over(r, &names[j], &types[j])]], "el": lit(json!({"t": "null"}))}),
        1 if types[i] == "int" && types[j] == "int" => json!({"op": "arith", "f": (["+", "-", "*"][r.gen_range(0..3)]), "a": col(&names[i]), "b": col(&names[j])}),
        2 => json!({"op": "call", "f": "length", "args": [col("input")]}),
        3 if types[i] == types[j] && types[i] != "arr" => json!({"op": "cmp", "f": (["=", "<", ">="][r.gen_range(0..3)]), "a": col(&names[i]), "b": col(&names[j])}),
        _ => col("input")
    }
}

fn cond_over(r: &mut R, c: &str, ty: &str) -> J {
    let x = if r.gen_bool(0.25) { col(&format!("t.{}", c)) } else { col(c) };
    match (ty, r.gen_range(0..3)) {
        ("int", 0) => json!({"op": "cmp", "f": (["=", "<", ">", ">=", "!="][r.gen_range(0..5)]), "a": x, "b": lit(jint([0, 1, 7, 12, -1][r.gen_range(0..5)]))}),
        ("int", 1) => json!({"op": "in", "neg": r.gen_bool(0.3), "a": x, "vs": [lit(jint(1)), lit(jint(7)), lit(jint(12))]}),
        ("text", 0) => json!({"op": "cmp", "f": (["=", "<", ">", "!="][r.gen_range(0..4)]), "a": x, "b": lit(txt(["a", "b", "err", "12", ""][r.gen_range(0..5)]))}),
        ("real", 0) => json!({"op": "cmp", "f": ([">", "<=", "="][r.gen_range(0..3)]), "a": x, "b": lit(jreal([0.0, 1.5, 0.25][r.gen_range(0..3)]))}),
        ("bool", 0) => x,
        _ => json!({"op": "is", "neg": r.gen_bool(0.5), "a": x, "b": lit(json!({"t": "null"}))})
    }
}

fn agg_over(r: &mut R, c: &str, ty: &str, n: usize) -> J {
    let x = col(c);
    let name = format!("a{}", n);
    let it = |a: &str| json!({"a": a, "e": x, "as": name, "wrap": none()});
    // an expression around the aggregate (over counts: always numeric)
    let v = json!({"op": "col", "name": "$value"});
    let wrap = match r.gen_range(0..8) { 0 => json!({"op": "arith", "f": "*", "a": v, "b": lit(jint(2))}), 1 => json!({"op": "arith", "f": "/", "a": v, "b": lit(jint(2))}),
                                         2 => json!({"op": "cmp", "f": ">", "a": v, "b": lit(jint(1))}), 3 => json!({"op": "arith", "f": "-", "a": lit(jint(10)), "b": v}), _ => none() };
    match (ty, r.gen_range(0..8)) {
        (_, 0) => json!({"a": "count_star", "as": name, "wrap": wrap}),
        (_, 1) => json!({"a": "count", "col": c, "as": name, "wrap": wrap}),
        (_, 2) => json!({"a": "count_distinct", "col": c, "as": name, "wrap": wrap}),
        ("int", 3) | ("real", 3) => it("sum"),
        ("int", 4) => it("avg"),
        ("text", 3) => json!({"a": "string_agg", "e": x, "delim": [44], "as": name, "wrap": none()}),
        ("bool", 3) => it("bool_and"),
        ("bool", 4) => it("bool_or"),
        ("int", 5) | ("real", 5) | ("text", 5) | ("ts", 5) => json!({"a": "percentile", "e": x, "pn": 1, "pd": 2, "as": name, "wrap": none()}),
        (_, 6) => it("array_agg"),
        (_, 7) => it("max"),
        _ => it("min")
    }
}

pub fn trace(seed: u64, n: usize) -> Vec<J> {
    let mut r = R::seed_from_u64(seed ^ 0x5E71);
    let mut ev = Vec::new();
    let star = sqlgrep::parsing::parse("SELECT * FROM t").unwrap();
    while ev.len() < n {
        let (pats, cols) = crate::extracttrace::gen_definition(&mut r);
        let sql_def = match crate::extracttrace::definition_sql(&pats, &cols) { Some(s) => s.replacen("CREATE TABLE x(", "CREATE TABLE t(", 1), None => continue };
        let tables = match setup_tables(&sql_def) { Ok(t) => t, Err(_) => continue };
        let names: Vec<String> = (1..=cols.len()).map(|i| format!("c{}", i)).collect();
        let types: Vec<String> = cols.iter().map(|c| c["ty"].as_str().unwrap().to_string()).collect();
        // lines and the rows the engine extracts from them
        let mut lines = Vec::new();
        let mut envs = Vec::new();
        let nlines = if r.gen_bool(0.1) { r.gen_range(20..45) } else { r.gen_range(2..9) };       // now and then more rows than small fixed-size shortcuts hold
        for _ in 0..nlines {
            let l = crate::extracttrace::gen_line(&mut r, &cols);
            let row = std::panic::catch_unwind(std::panic::AssertUnwindSafe(|| {
                let mut engine = ExecutionEngine::new(&tables, &star);
                engine.execute(l.clone(), &ExecutionConfig::default()).ok().and_then(|o| o.result_row).map(|rr| rr.data[0].columns.iter().map(project).collect::<Vec<_>>())
            })).unwrap_or(None);
            if let Some(vals) = row {
                let mut m = serde_json::Map::new();
                for (i, v) in vals.iter().enumerate() { m.insert(names[i].clone(), v.clone()); m.insert(format!("t.{}", names[i]), v.clone()); }
                m.insert("input".into(), txt(&l));
                envs.push(J::Object(m));
            }
            lines.push(l);
        }
        if envs.is_empty() { continue; }
        for _ in 0..3 {
            // the statement
            let pick = |r: &mut R| r.gen_range(0..names.len());
            let wh = if r.gen_bool(0.4) { let i = pick(&mut r); cond_over(&mut r, &names[i], &types[i]) } else { none() };
            let distinct = r.gen_bool(0.3);
            let q = if r.gen_bool(0.08) {
                json!({"kind": "select", "star": true, "proj": [], "where": wh, "distinct": distinct, "limit": -1, "join": "none"})
            } else if r.gen_bool(0.45) {
                let np = r.gen_range(1..4);
                let proj: Vec<J> = (0..np).map(|j| { let i = pick(&mut r);
                    let e = if r.gen_bool(0.3) { expr_over2(&mut r, &names, &types) } else { expr_over(&mut r, &names[i], &types[i]) };
                    json!({"e": e, "as": format!("p{}", j + 1)}) }).collect();
                json!({"kind": "select", "star": false, "proj": proj, "where": wh, "distinct": distinct, "limit": -1, "join": "none"})
            } else {
                let ng = r.gen_range(0..3);
                let mut group = Vec::new(); let mut items = Vec::new();
                for j in 0..ng { let i = pick(&mut r); let g = col(&names[i]); if group.contains(&g) { continue; } group.push(g.clone()); if r.gen_bool(0.8) { items.push(json!({"a": "key", "e": g, "as": format!("g{}", j + 1), "wrap": none()})); } }
                for j in 0..r.gen_range(1..4) { let i = pick(&mut r); items.push(agg_over(&mut r, &names[i], &types[i], j + 1)); }
                let cs = json!({"a": "count_star", "as": "n", "wrap": none()});
                let having = match r.gen_range(0..10) {
                    0 | 1 => json!({"h": "agg", "it": cs, "f": ">=", "c": jint(2)}),
                    2 => { let i = pick(&mut r); json!({"h": "agg", "it": {"a": "count", "col": names[i], "as": "m", "wrap": none()}, "f": "=", "c": jint(0)}) }
                    3 => { let i = pick(&mut r); json!({"h": "or", "l": {"h": "agg", "it": cs, "f": ">", "c": jint(1)}, "r": {"h": "agg", "it": {"a": "count_distinct", "col": names[i], "as": "d", "wrap": none()}, "f": "<", "c": jint(1)}}) }
                    _ => json!({"h": "none"})
                };
                json!({"kind": "agg", "items": items, "group": group, "where": wh, "having": having, "distinct": distinct, "limit": -1, "join": "none"})
            };
            let text = sql::statement(&q, "/nonexistent");
            tick(&json!({"q": text}));
            // the code: the lines one by one through the statement's engine (typed rows; an aggregate shows its table after every line: the last one counts)
            let out = std::panic::catch_unwind(std::panic::AssertUnwindSafe(|| {
                let stmt = match sqlgrep::parsing::parse(&text) { Ok(s) => s, Err(_) => return json!({"st": "parse_err", "recs": []}) };
                let mut engine = ExecutionEngine::new(&tables, &stmt);
                let is_agg = q["kind"] == "agg";
                let mut recs: Vec<J> = Vec::new();
                for l in &lines {
                    match engine.execute(l.clone(), &ExecutionConfig::default()) {
                        Ok(o) => if let Some(rr) = o.result_row {
                            let rows: Vec<J> = rr.data.iter().map(|row| J::Array(row.columns.iter().map(project).collect())).collect();
                            if is_agg { recs = rows; } else { recs.extend(rows); }
                        },
                        Err(_) => return json!({"st": "err", "recs": []})
                    }
                }
                json!({"st": "ok", "recs": recs})
            })).unwrap_or(json!({"st": "panic", "recs": []}));
            let mut e = json!({"ev": "stmt", "q": q, "envs": envs, "star": names, "out": out, "open": false, "src": format!("{} -- {} -- {:?}", text, sql_def, lines)});
            if !tlc_readable(&e["envs"]) || !tlc_readable(&e["out"]) || !tlc_readable(&e["q"]) { e["open"] = json!(true); e["envs"] = json!([]); e["out"]["recs"] = json!([]); }
            ev.push(e);
            if ev.len() >= n { break; }
        }
    }
    ev
}
