//! impl -> spec for Printer.tla over random results: random column names, random values of every type (64-bit integers, any finite or
//! non-finite REAL, Unicode / control characters / delimiters in TEXT, arrays, timestamps -- often within the same second as the one
//! printed before --, intervals), 1-3 print() calls per printer, in the three formats.  The event records the calls and the printed lines;
//! a JSON line is decoded with serde_json (the trusted base) into names and cells, numbers in a canonical exact form.  Trace_Printer.tla
//! loads the calls, takes Printer.tla's own PrintResult steps and compares what the model printed with the recorded lines.
use crate::common::*;
use crate::val::*;
use rand::{Rng, SeedableRng};
use serde_json::{json, Value as J};
use sqlgrep::data_model::Row;
use sqlgrep::execution::ResultRow;
use sqlgrep::executor::{OutputFormat, OutputPrinter, Printer};
use sqlgrep::model::{Float, Value, ValueType};
use std::cell::RefCell;
use std::rc::Rc;

type R = rand::rngs::StdRng;
struct Cap(Rc<RefCell<Vec<String>>>);
impl Printer for Cap { fn println(&mut self, line: &str) { self.0.borrow_mut().push(line.to_string()); } }

fn cps(s: &str) -> J { J::Array(s.chars().map(|c| json!(c as u32)).collect()) }

/// the exact value of a number as text: an integer (also an integral REAL below 10^38) in decimal, any other REAL by its bits
fn canon_f64(y: f64) -> String { if y.fract() == 0.0 && y.abs() < 1.0e38 { (y as i128).to_string() } else { format!("f{:016x}", y.to_bits()) } }
fn canon_num(n: &serde_json::Number) -> String {
    if let Some(i) = n.as_i64() { i.to_string() } else if let Some(u) = n.as_u64() { u.to_string() } else { canon_f64(n.as_f64().unwrap()) }
}

fn gen_text(r: &mut R, plain: bool) -> String {
    let alphabet: &[char] = if plain { &['a', 'b', 'z', 'Z', '0', '9', ' ', '-', '_', '.', 'é', 'ß', '日', '😀', ':', '{', '}', '[', '\\', '/', '\t'] }
                            else { &['a', 'b', ' ', '"', '\'', ';', ',', '\n', '\r', '\t', '\\', '\u{0}', '\u{1b}', '\u{7f}', '\u{85}', '\u{2028}', '\u{feff}', 'é', '日', '😀', '\u{10ffff}', '{', ':', '}', '/', '\u{8}', '\u{c}', 'n', 'u', 'l'] };
    let n = r.gen_range(0..9);
    (0..n).map(|_| alphabet[r.gen_range(0..alphabet.len())]).collect()
}

fn gen_int(r: &mut R) -> i64 {
    match r.gen_range(0..6) { 0 => i64::MAX - r.gen_range(0..3), 1 => i64::MIN + r.gen_range(0..3), 2 => r.gen::<i64>(), 3 => r.gen_range(-1000000..1000000), 4 => (1i64 << r.gen_range(30..63)) + r.gen_range(-2..3), _ => r.gen_range(-20..20) }
}
fn gen_real(r: &mut R) -> f64 {
    match r.gen_range(0..10) {
        0 => f64::NAN, 1 => if r.gen_bool(0.5) { f64::INFINITY } else { f64::NEG_INFINITY }, 2 => if r.gen_bool(0.5) { 0.0 } else { -0.0 },
        3 => f64::from_bits(r.gen::<u64>() & !(0x7ff0u64 << 48) | ((r.gen_range(1..2047) as u64) << 52)),       // any finite normal number
        4 => 10f64.powi(r.gen_range(15..23)) * [1.0, -1.0, 3.0][r.gen_range(0..3)],                          // integral and large: 1e16 .. 1e22, beyond 2^63 from 1e19
        5 => [9223372036854775808.0, -9223372036854775808.0, 18446744073709551616.0, 9007199254740992.0, 9007199254740994.0, 4294967296.0][r.gen_range(0..6)],
        6 => f64::from_bits(r.gen_range(1..1u64 << 52)),                                                       // subnormal
        7 => r.gen_range(-1000..1000) as f64 / [2.0, 4.0, 8.0, 10.0, 3.0][r.gen_range(0..5)],
        8 => [f64::MAX, f64::MIN, f64::MIN_POSITIVE, f64::EPSILON, 1e300, -1e-300, 0.1, 1.0 / 3.0][r.gen_range(0..8)],
        _ => r.gen_range(-50..50) as f64
    }
}

struct Clock { last: (i32, u32, u32, u32, u32, u32) }
fn gen_ts(r: &mut R, ck: &mut Clock) -> Value {
    // often within the same second as the timestamp generated before, with another fraction
    if !r.gen_bool(0.5) { ck.last = (r.gen_range(1900..2100), r.gen_range(1..13), r.gen_range(1..29), r.gen_range(0..24), r.gen_range(0..60), r.gen_range(0..60)); }
    let us = match r.gen_range(0..4) { 0 => 0, 1 => r.gen_range(0..1000) * 1000, 2 => 999999, _ => r.gen_range(0..1000000) };
    let (y, mo, d, h, mi, s) = ck.last;
    Value::Timestamp(sqlgrep::model::create_timestamp(y, mo, d, h, mi, s, us).unwrap())
}

fn gen_value(r: &mut R, plain: bool, ck: &mut Clock, depth: u32) -> Value {
    match r.gen_range(0..if depth == 0 { 9 } else { 7 }) {
        0 => Value::Null,
        1 => Value::Bool(r.gen_bool(0.5)),
        2 => Value::Int(gen_int(r)),
        3 => Value::Float(Float(gen_real(r))),
        4 => Value::String(gen_text(r, plain)),
        5 => gen_ts(r, ck),
        6 => Value::Interval(chrono::Duration::milliseconds(match r.gen_range(0..4) { 0 => 0, 1 => r.gen_range(0..100000000), 2 => r.gen_range(-100000..0), _ => r.gen_range(86400000..900000000) })),
        _ => {
            let n = r.gen_range(0..4);
            match r.gen_range(0..4) {
                0 => Value::Array(ValueType::Int, (0..n).map(|_| if r.gen_bool(0.2) { Value::Null } else { Value::Int(gen_int(r)) }).collect()),
                1 => Value::Array(ValueType::Float, (0..n).map(|_| Value::Float(Float(gen_real(r)))).collect()),
                2 => Value::Array(ValueType::Timestamp, (0..n).map(|_| gen_ts(r, ck)).collect()),
                _ => Value::Array(ValueType::String, (0..n).map(|_| Value::String(gen_text(r, plain))).collect())
            }
        }
    }
}

/// the cell as Trace_Printer.tla reads it: small integers, text, booleans, timestamps, intervals and arrays in the form of Values.tla (the model knows their
/// text form); every other number by its canonical exact text (`num`): the model only says where it stands
fn cell(v: &Value) -> J {
    match v {
        Value::Int(i) if i.unsigned_abs() < 1000000000 => jint(*i),
        Value::Int(i) => json!({"t": "num", "fin": true, "cp": cps(&i.to_string())}),
        Value::Float(Float(x)) => if x.is_finite() { json!({"t": "num", "fin": true, "cp": cps(&canon_f64(*x))}) } else { json!({"t": "num", "fin": false, "cp": []}) },
        Value::Array(et, xs) => json!({"t": "arr", "et": type_name(et), "xs": xs.iter().map(cell).collect::<Vec<_>>()}),
        Value::Interval(iv) => { let ms = iv.num_milliseconds(); json!({"t": "iv", "ms": ms}) }
        o => project(o)
    }
}

/// the number lexemes of a JSON text, in document order (outside string literals)
fn number_lexemes(line: &str) -> Vec<String> {
    let mut out = Vec::new();
    let cs: Vec<char> = line.chars().collect();
    let (mut i, mut in_str) = (0, false);
    while i < cs.len() {
        let c = cs[i];
        if in_str { if c == '\\' { i += 2; continue; } if c == '"' { in_str = false; } i += 1; continue; }
        if c == '"' { in_str = true; i += 1; continue; }
        if c == '-' || c.is_ascii_digit() {
            let st = i;
            while i < cs.len() && (cs[i].is_ascii_digit() || "+-.eE".contains(cs[i])) { i += 1; }
            out.push(cs[st..i].iter().collect());
            continue;
        }
        i += 1;
    }
    out
}

/// serde_json gives the structure, the names and the strings; a number is read from its own lexeme with the standard library's correctly rounded
/// parser (serde_json's default float parsing may be one unit in the last place off: that must not be blamed on the code under test)
fn decoded(v: &J, lex: &mut std::vec::IntoIter<String>) -> J {
    match v {
        J::Null => json!({"k": "null"}),
        J::Bool(b) => json!({"k": "bool", "b": b}),
        J::Number(n) => {
            let t = lex.next().unwrap_or_default();
            let canon = if let Ok(i) = t.parse::<i128>() { i.to_string() } else if let Ok(y) = t.parse::<f64>() { canon_f64(y) } else { canon_num(n) };
            json!({"k": "num", "cp": cps(&canon)})
        }
        J::String(s) => json!({"k": "str", "s": cps(s)}),
        J::Array(xs) => json!({"k": "arr", "xs": xs.iter().map(|x| decoded(x, lex)).collect::<Vec<_>>()}),
        J::Object(_) => json!({"k": "obj"})
    }
}

pub fn trace(seed: u64, n: usize) -> Vec<J> {
    let mut r = R::seed_from_u64(seed ^ 0x9817);
    let mut ev = Vec::new();
    let names = ["a", "bb", "input", "x1", "n", "größe", "c 1", "\"q\""];
    let mut ck = Clock { last: (2021, 3, 4, 10, 20, 30) };
    for i in 0..n {
        let fmt = ["text", "json", "csv"][r.gen_range(0..3)];
        let plain = fmt != "json";       // text / CSV: the property speaks of text values free of delimiter, quote and line-break characters
        let ncalls = r.gen_range(1..4);
        let mut calls_j = Vec::new();
        let mut calls: Vec<(Vec<String>, Vec<Row>, bool)> = Vec::new();
        for _ in 0..ncalls {
            let ncols = r.gen_range(1..4);
            let mut cols: Vec<String> = Vec::new();
            while cols.len() < ncols { let c = names[r.gen_range(0..if plain { 5 } else { names.len() })].to_string(); if !cols.contains(&c) { cols.push(c); } }
            let nrows = r.gen_range(0..4);
            let rows: Vec<Vec<Value>> = (0..nrows).map(|_| (0..ncols).map(|_| gen_value(&mut r, plain, &mut ck, 0)).collect()).collect();
            let single = r.gen_bool(0.5);
            calls_j.push(json!({"cols": cols.iter().map(|c| cps(c)).collect::<Vec<_>>(), "rows": rows.iter().map(|row| row.iter().map(cell).collect::<Vec<_>>()).collect::<Vec<_>>(), "single": single}));
            calls.push((cols, rows.into_iter().map(Row::new).collect(), single));
        }
        tick(&json!({"i": i, "fmt": fmt}));
        let format = match fmt { "json" => OutputFormat::Json, "csv" => OutputFormat::CSV(";".to_string()), _ => OutputFormat::Text };
        let lines = Rc::new(RefCell::new(Vec::new()));
        let l2 = lines.clone();
        let res = std::panic::catch_unwind(std::panic::AssertUnwindSafe(|| {
            let mut p = OutputPrinter::with_printer(Cap(l2), format);
            for (cols, data, single) in calls { p.print(&ResultRow { data, columns: cols }, single); }
        }));
        let got: Vec<J> = lines.borrow().iter().map(|l| {
            let rec = if fmt == "json" { match serde_json::from_str::<J>(l) {
                Ok(J::Object(m)) => { let mut lex = number_lexemes(l).into_iter();
                                      json!({"ok": true, "names": m.keys().map(|k| cps(k)).collect::<Vec<_>>(), "cells": m.values().map(|v| decoded(v, &mut lex)).collect::<Vec<_>>()}) }
                _ => json!({"ok": false, "names": [], "cells": []}) } } else { json!({"ok": false, "names": [], "cells": []}) };
            json!({"s": cps(l), "rec": rec})
        }).collect();
        ev.push(json!({"ev": "print", "fmt": fmt, "calls": calls_j, "lines": got, "panic": res.is_err()}));
    }
    ev
}
