//! C09 / C18 drivers that need whole-program executions: byte soups through FileExecutor, the CLI under
//! several TZ settings, repeated executions in fresh processes.
use crate::common::*;
use crate::engine::{run_batch, setup_tables};
use rand::{Rng, SeedableRng};
use serde_json::{json, Value as J};
use sqlgrep::executor::OutputFormat;
use std::process::Command;

fn cli() -> String { std::env::var("VH_CLI").unwrap_or_else(|_| "/verif/build/cli/debug/sqlgrep".to_string()) }

const DEFS: &str = "CREATE TABLE t(
  line = '^(\\\\S+) (-?[0-9.eEinfa+-]+) (-?[0-9]+) \\\\[([^\\\\]]*)\\\\]',
  line[1] => k TEXT, line[2] => r REAL, line[3] => v INT, line[4] => ts TIMESTAMP, line[3], line[3] => a INT[],
  line[3], line[3], line[3] => d TIMESTAMP
);
CREATE TABLE j({ .a } => x INT, { .b[0] } => y TEXT[], { .c.d } => z REAL CONVERT, '(\\\\d+)' => n INT);";

const QUERIES: [&str; 16] = [
    "SELECT * FROM t",
    "SELECT k, r + r, r * 2.0, r / r, -r, v + v, v * v, v / v, -v, abs(v), a[v], a[0 - v] FROM t",
    "SELECT k, r FROM t WHERE r > 0.5 OR r = r OR NOT r < 1.0",
    "SELECT DISTINCT r, v FROM t",
    "SELECT k, COUNT(*), SUM(r), SUM(v), AVG(v), MIN(r), MAX(r), STDDEV(v), VARIANCE(r), PERCENTILE(r, 0.5), COUNT(DISTINCT r) FROM t GROUP BY k",
    "SELECT r, COUNT(*) AS n FROM t GROUP BY r HAVING COUNT(*) >= 1",
    "SELECT ts, EXTRACT(HOUR FROM ts), EXTRACT(EPOCH FROM ts), date_trunc('day', ts), date_trunc('hour', ts), date_trunc('month', ts), date_trunc('year', ts) FROM t",
    "SELECT ts FROM t WHERE ts > '2021-03-28 02:30:00'",
    "SELECT d, make_timestamp(v, v, v, v, v, v, v) FROM t",
    "SELECT v::text, r::text, k::int, k::real, k::timestamp, k::interval, k::boolean FROM t",
    "SELECT array_unique(a), array_length(a), array_cat(a, a), array_append(a, v), least(v, v), greatest(r, r), pow(v, v), sqrt(r), length(k), upper(k), regexp_matches(k, k) FROM t",
    "SELECT ARRAY_AGG(r), STRING_AGG(k, ','), BOOL_AND(v > 0), BOOL_OR(r > 0.0) FROM t",
    "SELECT * FROM j",
    "SELECT x, COUNT(*), MAX(z), SUM(n) FROM j GROUP BY x",
    "SELECT k, v FROM t INNER JOIN j::'@J@' ON t.v = j.x",
    "SELECT CASE WHEN v IN (1, 2) THEN k ELSE NULL END, v FROM t LIMIT 3",
];

fn gen_line(rng: &mut rand::rngs::StdRng) -> Vec<u8> {
    let ks = ["a", "b", "é", "", "x'y", "😀", "NULL"];
    let rs = ["1.5", "-0.0", "0", "NaN", "inf", "-inf", "1e308", "1e-320", "9223372036854775808", "0.1", "-2.25", "nan", "+3", ".5"];
    let vs = ["0", "1", "-1", "2", "63", "64", "4294967296", "9223372036854775807", "-9223372036854775808", "9223372036854775808", "-5", "12", "2021"];
    let tss = ["2021-03-28 02:30:00", "2021-10-31 02:30:00", "2021-03-14 02:30:00", "2021-09-05 00:30:00", "2021-04-04 02:15:00", "2011-12-30 12:00:00",
               "2021-09-05 12:00:00", "2021-09-05 01:10:00", "2021-10-03 02:45:00", "2011-12-31 12:00:00", "2021-03-28 12:00:00",
               "2021-02-30 00:00:00", "0000-01-01 00:00:00", "9999-12-31 23:59:59", "2021-06-01 12:00:00", "2021-03-28 01:59:59", "bad"];
    match rng.gen_range(0..10) {
        0 => (0..rng.gen_range(0..30)).map(|_| rng.gen::<u8>()).collect(),
        1 => format!("{{\"a\": {}, \"b\": [\"{}\", 1, null], \"c\": {{\"d\": \"{}\"}}}} {}", vs[rng.gen_range(0..vs.len())], ks[rng.gen_range(0..ks.len())], rs[rng.gen_range(0..rs.len())], rng.gen_range(0..99)).into_bytes(),
        2 => "{\"a\": 1e999, \"b\": {}, \"c\": [}".as_bytes().to_vec(),
        _ => {
            let mut l = format!("{} {} {} [{}]", ks[rng.gen_range(0..ks.len())], rs[rng.gen_range(0..rs.len())], vs[rng.gen_range(0..vs.len())], tss[rng.gen_range(0..tss.len())]).into_bytes();
            if rng.gen_bool(0.15) { let p = rng.gen_range(0..=l.len()); l.insert(p, rng.gen::<u8>()); }
            if rng.gen_bool(0.1) { l.push(b'\r'); }
            l
        }
    }
}

pub fn trace(seed: u64, n: usize) -> Vec<J> {
    let mut rng = rand::rngs::StdRng::seed_from_u64(seed);
    let dir = scratch();
    let tables = setup_tables(DEFS).unwrap();
    let defs_path = dir.join("defs.txt");
    std::fs::write(&defs_path, DEFS).unwrap();
    let none = json!({"at": "none", "n": 0});
    let zones = ["UTC", "Europe/Stockholm", "America/Santiago", "Pacific/Apia", "Australia/Lord_Howe", "America/New_York"];
    let mut ev = Vec::new();
    for i in 0..n {
        let data = dir.join("soup.log");
        let jdata = dir.join("soupj.log");
        let mut bytes = Vec::new();
        for _ in 0..rng.gen_range(0..12) { bytes.extend(gen_line(&mut rng)); bytes.push(b'\n'); }
        if rng.gen_bool(0.2) { bytes.pop(); }
        std::fs::write(&data, &bytes).unwrap();
        let mut jb = Vec::new();
        for _ in 0..rng.gen_range(0..6) { jb.extend(gen_line(&mut rng)); jb.push(b'\n'); }
        std::fs::write(&jdata, &jb).unwrap();
        let query = QUERIES[rng.gen_range(0..QUERIES.len())].replace("@J@", jdata.to_str().unwrap());
        tick(&json!({"i": i, "query": query}));
        if i % 4 == 0 {
            // the CLI in a child process under a TZ with DST gaps: exit status 101 / a signal is a crash
            let tz = zones[rng.gen_range(0..zones.len())];
            let fmt = ["text", "json", "csv"][rng.gen_range(0..3)];
            let out = Command::new(cli()).env("TZ", tz).env_remove("RUST_BACKTRACE")
                .args(["-d", defs_path.to_str().unwrap(), data.to_str().unwrap(), "-c", &query, "--format", fmt]).output();
            let outcome = match out {
                Ok(o) => match o.status.code() {
                    Some(0) => if String::from_utf8_lossy(&o.stdout).contains("Execution error") || String::from_utf8_lossy(&o.stdout).contains("Failed parsing") { "err" } else { "ok" }.to_string(),
                    Some(c) => format!("exit {}: {}", c, String::from_utf8_lossy(&o.stderr).lines().find(|l| l.contains("panicked")).unwrap_or("")),
                    None => "signal".to_string()
                },
                Err(e) => format!("spawn failed: {}", e)
            };
            ev.push(json!({"ev": "exec", "kind": "cli", "tz": tz, "format": fmt, "query": query, "input": bytes, "outcome": outcome}));
        } else {
            let format = match rng.gen_range(0..3) { 0 => OutputFormat::Text, 1 => OutputFormat::Json, _ => OutputFormat::CSV(";".to_string()) };
            let fname = format!("{:?}", format);
            let obs = run_batch(&tables, &query, &[data.clone()], &none, format);
            ev.push(json!({"ev": "exec", "kind": "bytes", "format": fname, "query": query, "input": bytes, "outcome": obs.status}));
        }
    }
    cleanup_scratch();
    ev
}

/// C18: the same statement on the same input in fresh processes (fresh hash seeds), with other tables defined around it
pub fn trace_process(seed: u64, n: usize) -> Vec<J> {
    let mut rng = rand::rngs::StdRng::seed_from_u64(seed);
    let dir = scratch();
    let cases: Vec<(&str, &str, Vec<&str>)> = vec![
        ("/repo/testdata/ftpd.txt", "/repo/testdata/ftpd_data.txt", vec![
            "SELECT * FROM connections WHERE hostname IS NOT NULL LIMIT 20",
            "SELECT hostname, COUNT(*) AS count, MAX(day) AS last_day, MIN(ip) AS ip FROM connections GROUP BY hostname",
            "SELECT hostname, hour, COUNT(*) AS count, COUNT(DISTINCT ip) AS ips FROM connections GROUP BY hostname, hour HAVING COUNT(*) > 2",
            "SELECT DISTINCT ip, day FROM connections",
            "SELECT DISTINCT COUNT(*) AS n FROM connections GROUP BY hostname",
            "SELECT DISTINCT COUNT(*) AS n, MAX(day) AS d FROM connections GROUP BY ip HAVING COUNT(*) > 1 LIMIT 5"]),
        ("/repo/testdata/dummy.txt", "/repo/testdata/dummy1_data.txt", vec![
            "SELECT * FROM dummy1 INNER JOIN dummy2::'/repo/testdata/dummy2_data.txt' ON dummy1.hostname=dummy2.hostname",
            "SELECT hostname, COUNT(*) AS n FROM dummy1 OUTER JOIN dummy2::'/repo/testdata/dummy2_data.txt' ON dummy1.hostname=dummy2.hostname GROUP BY hostname"]),
        ("/repo/testdata/clients.txt", "/repo/testdata/clients_data.json", vec![
            "SELECT * FROM clients", "SELECT mac_address, COUNT(*) AS n FROM clients GROUP BY mac_address"]),
    ];
    // tables whose names differ only in letter case, and a query that spells the name a third way: whatever the answer is (today: no such
    // table), it must be the same in every process
    let case_defs = dir.join("case_defs.txt");
    std::fs::write(&case_defs, "CREATE TABLE Requests(l = 'GET (\\S+)', l[1] => path TEXT);\nCREATE TABLE REQUESTS(m = ' ([0-9]{3}) ', m[1] => status INT);\nCREATE TABLE requestS(n = '^([a-z]+)', n[1] => host TEXT);").unwrap();
    let case_data = dir.join("case_data.txt");
    std::fs::write(&case_data, "alpha GET /a 200 x\nbeta GET /b 404 y\ngamma POST /c 500 z\n").unwrap();
    let (cd, cdat) = (case_defs.to_str().unwrap().to_string(), case_data.to_str().unwrap().to_string());
    let mut cases = cases;
    cases.push((Box::leak(cd.into_boxed_str()), Box::leak(cdat.into_boxed_str()), vec![
        "SELECT * FROM requests", "SELECT * FROM Requests", "SELECT * FROM REQUESTS", "SELECT * FROM requestS LIMIT 2", "SELECT COUNT(*) AS n FROM rEQUESTS"]));
    // the neighbours' names: lower case, capitalised, upper case, with digits / underscores (orderings by letter case differ from the plain one)
    let extra = ["CREATE TABLE zz1('(a)' => a TEXT);", "CREATE TABLE aa2(l = 'x(y)', l[1] => b INT);", "CREATE TABLE mm3({ .q } => q REAL);",
                 "CREATE TABLE Metrics('(m)' => m TEXT);", "CREATE TABLE ZEBRA9(l = 'z(\\d)', l[1] => z INT);", "CREATE TABLE Bb_3({ .r } => r TEXT);", "CREATE TABLE u_('(u)' => u TEXT);"];
    let mut ev = Vec::new();
    for i in 0..n {
        // round-robin over the corpora (last one first) and their queries, so that a short run still visits every corpus
        let (defs, data, queries) = &cases[(cases.len() - 1 + i) % cases.len()];
        let query = queries[(i / cases.len()) % queries.len()];
        let base_defs = std::fs::read_to_string(defs).unwrap();
        let fmt = ["text", "json", "csv"][rng.gen_range(0..3)];
        tick(&json!({"i": i, "query": query}));
        let mut outs: Vec<(String, Vec<String>)> = Vec::new();
        for run in 0..4 {
            // other tables before / after the queried one, in a different arrangement each time
            let mut parts: Vec<String> = vec![base_defs.clone()];
            for e in extra.iter() { if rng.gen_bool(0.6) { if rng.gen_bool(0.5) { parts.insert(0, e.to_string()); } else { parts.push(e.to_string()); } } }
            let dp = dir.join(format!("defs{}.txt", run));
            std::fs::write(&dp, parts.join("\n")).unwrap();
            let o = Command::new(cli()).env("TZ", "UTC").env_remove("RUST_BACKTRACE")
                .args(["-d", dp.to_str().unwrap(), data, "-c", query, "--format", fmt]).output().unwrap();
            let status = if o.status.code() == Some(0) { "ok" } else { "crash" };
            outs.push((status.to_string(), String::from_utf8_lossy(&o.stdout).lines().map(|l| l.to_string()).collect()));
        }
        ev.push(json!({"ev": "base", "corpus": defs, "query": query, "agg": true, "lines": 0, "format": fmt, "status": outs[0].0, "out": outs[0].1}));
        for (st, o) in outs.iter().skip(1) { ev.push(json!({"ev": "law", "law": "repeat", "status": st, "out": o})); }
    }
    cleanup_scratch();
    ev
}
