//! Binding of spec/Printer.tla to executor::OutputPrinter.
use crate::common::*;
use crate::val::*;
use serde_json::{json, Value as J};
use sqlgrep::data_model::Row;
use sqlgrep::execution::ResultRow;
use sqlgrep::executor::{OutputFormat, OutputPrinter, Printer};
use std::cell::RefCell;
use std::rc::Rc;

struct Cap(Rc<RefCell<Vec<String>>>);
impl Printer for Cap {
    fn println(&mut self, line: &str) { self.0.borrow_mut().push(line.to_string()); }
}

/// timestamps and intervals are carried in JSON as their text form: computed here independently of the code's Display
fn expected_json_text(v: &J) -> Option<J> {
    match v["t"].as_str().unwrap() {
        "iv" => { let ms = v["ms"].as_i64().unwrap(); if ms < 0 { return Some(J::Null).filter(|_| false).or(Some(json!("\u{0}any"))); }
                  let s = ms / 1000; Some(json!(format!("{:02}:{:02}:{:02}.{:03}", s / 3600, (s / 60) % 60, s % 60, ms % 1000))) }
        "ts" => { let f: Vec<i64> = v["f"].as_array().unwrap().iter().map(|x| x.as_i64().unwrap()).collect();
                  Some(json!(format!("{:04}-{:02}-{:02} {:02}:{:02}:{:02}.{:03}", f[0], f[1], f[2], f[3], f[4], f[5], f[6] / 1000))) }
        _ => expected_json(v)
    }
}

fn cps(v: &J) -> String { v.as_array().unwrap().iter().map(|c| char::from_u32(c.as_u64().unwrap() as u32).unwrap()).collect() }
fn modelled(s: &J) -> Option<String> {
    let a = s.as_array().unwrap();
    if a.len() == 1 && a[0].as_i64() == Some(-1) { None } else { Some(cps(s)) }
}

pub fn replay(cases: &[J]) -> J {
    let mut rep = Report::new("printer");
    for case in cases {
        tick(case);
        let fmt = case["fmt"].as_str().unwrap();
        let format = match fmt { "json" => OutputFormat::Json, "csv" => OutputFormat::CSV(";".to_string()), _ => OutputFormat::Text };
        let lines = Rc::new(RefCell::new(Vec::new()));
        let l2 = lines.clone();
        let res = std::panic::catch_unwind(std::panic::AssertUnwindSafe(|| {
            let mut p = OutputPrinter::with_printer(Cap(l2), format);
            for call in case["calls"].as_array().unwrap() {
                let cols: Vec<String> = call["cols"].as_array().unwrap().iter().map(cps).collect();
                let data: Vec<Row> = call["rows"].as_array().unwrap().iter()
                    .map(|r| Row::new(r.as_array().unwrap().iter().map(concretise).collect())).collect();
                p.print(&ResultRow { data, columns: cols }, call["single"].as_bool().unwrap());
            }
        }));
        let got = lines.borrow().clone();
        let exp = case["out"].as_array().unwrap();
        let mut why = String::new();
        if res.is_err() { why = "panic".into(); }
        else if got.len() != exp.len() { why = format!("{} lines printed, model says {}", got.len(), exp.len()); }
        else {
            for (i, (g, e)) in got.iter().zip(exp.iter()).enumerate() {
                let k = e["k"].as_str().unwrap();
                let ok = match k {
                    "sep" => g.is_empty(),
                    "hdr" => Some(g.clone()) == modelled(&e["s"]),
                    _ => {
                        if fmt == "json" {
                            // a valid JSON object, keys = column names in order, values recover the row
                            match serde_json::from_str::<J>(g) {
                                Ok(J::Object(m)) => {
                                    let cols: Vec<String> = e["cols"].as_array().unwrap().iter().map(cps).collect();
                                    let row = e["row"].as_array().unwrap();
                                    m.len() == cols.len() && m.iter().zip(cols.iter().zip(row.iter())).all(|((k, v), (c, x))| {
                                        k == c && match expected_json_text(x) {
                                            Some(ej) => json_eq(v, &ej),
                                            None => v.is_string() || v.is_null()     // non-finite REAL: no JSON number exists; any total encoding
                                        }
                                    })
                                }
                                _ => false
                            }
                        } else {
                            match modelled(&e["s"]) {
                                Some(s) => *g == s,
                                None => !g.is_empty() || e["row"].as_array().unwrap().len() == 1   // unmodelled text form: one line, not checked further
                            }
                        }
                    }
                };
                if !ok { why = format!("line {} ({}): {:?}", i, k, g); break; }
            }
        }
        if why.is_empty() {
            let nrec = exp.iter().filter(|e| e["k"] == "rec").count();
            rep.ok(case, case.to_string(), nrec > 0);
        } else {
            rep.mismatch(case, json!({"out": exp}), json!({"lines": got, "why": why}), "OutputPrinter differs from Printer.tla");
        }
    }
    rep.finish()
}
