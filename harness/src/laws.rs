//! impl -> spec, relational: runs of the real code on the repository's corpora, related by the laws of
//! spec/Trace_Laws.tla (noise C06, limit C07, concat C12, perm/combine C15, prefix C11, repeat C18, layout C20, interrupt C19).
use crate::common::*;
use crate::engine::{run_batch, setup_tables};
use rand::seq::SliceRandom;
use rand::{Rng, SeedableRng};
use serde_json::{json, Value as J};
use sqlgrep::execution::execution_engine::{ExecutionConfig, ExecutionEngine};
use sqlgrep::executor::OutputFormat;

struct Query { sql: &'static str, agg: bool, order_free: bool }
struct Corpus {
    name: &'static str, defs: &'static str, data: &'static str,
    queries: Vec<Query>,
    noise: Vec<&'static str>,           // lines that yield no row for this table, by construction
    combine: Option<&'static str>       // SELECT key, COUNT(*), SUM(x), MIN(x), MAX(x) ... GROUP BY key
}

fn q(sql: &'static str, agg: bool, order_free: bool) -> Query { Query { sql, agg, order_free } }

fn corpora() -> Vec<Corpus> {
    vec![
        Corpus { name: "ftpd", defs: "/repo/testdata/ftpd.txt", data: "/repo/testdata/ftpd_data.txt",
                 queries: vec![
                     q("SELECT * FROM connections WHERE hostname IS NOT NULL", false, false),
                     q("SELECT ip, hostname, year, month, day, hour, minute, second FROM connections WHERE day >= 15", false, false),
                     q("SELECT DISTINCT hostname FROM connections", false, false),
                     q("SELECT DISTINCT ip, day FROM connections WHERE hour < 12 OR hostname IS NULL", false, false),
                     q("SELECT input FROM connections WHERE day = 17 AND NOT minute > 30", false, false),
                     q("SELECT ip, day + hour * 2 AS x, CASE WHEN hour > 12 THEN 'pm' ELSE 'am' END AS half FROM connections WHERE day IN (17, 18)", false, false),
                     q("SELECT hostname, COUNT(*) AS count FROM connections GROUP BY hostname", true, true),
                     q("SELECT hour, COUNT(*) AS count, MAX(minute) AS max_minute FROM connections WHERE day >= 15 GROUP BY hour", true, true),
                     q("SELECT COUNT(*) AS count, MAX(minute) AS max_minute, MIN(ip) AS first_ip, SUM(second) AS s FROM connections WHERE day >= 15", true, true),
                     q("SELECT hostname, COUNT(*) AS count, MAX(day) AS last_day FROM connections GROUP BY hostname HAVING hostname IS NOT NULL AND COUNT(*) >= 3", true, true),
                     q("SELECT hostname, hour, COUNT(*) AS count, AVG(minute) AS a, COUNT(DISTINCT ip) AS ips FROM connections GROUP BY hostname, hour", true, true),
                     q("SELECT day, ARRAY_AGG(hour) AS hours FROM connections GROUP BY day", true, false),
                     q("SELECT DISTINCT COUNT(*) AS n FROM connections GROUP BY hostname", true, true),
                 ],
                 noise: vec!["", "#### noise ####", "connection from", "Jun 17 07:07:00 combo ftpd[29504]: connection fom 24.54.76.216 (x) at Fri Jun 17 07:07:00 2005", "\t  \t"],
                 combine: Some("SELECT hostname, COUNT(*) AS n, SUM(day) AS s, MIN(day) AS lo, MAX(day) AS hi FROM connections GROUP BY hostname") },
        Corpus { name: "ssh", defs: "/repo/testdata/ssh_failure.txt", data: "/repo/testdata/ssh_data.txt",
                 queries: vec![
                     q("SELECT * FROM ssh", false, false),
                     q("SELECT DISTINCT username FROM ssh WHERE hostname != 'x'", false, false),
                     q("SELECT hostname, COUNT() AS count FROM ssh GROUP BY hostname", true, true),
                     q("SELECT username, COUNT(*) AS n, MIN(hostname) AS h FROM ssh GROUP BY username HAVING COUNT(*) > 1", true, true),
                 ],
                 noise: vec!["", "rhost= user=", "Dec 10 06:55:46 LabSZ sshd[24200]: Invalid user webmaster from 173.234.31.186", "rhost=a.b user"],
                 combine: None },
        Corpus { name: "clients", defs: "/repo/testdata/clients.txt", data: "/repo/testdata/clients_data.json",
                 queries: vec![
                     q("SELECT * FROM clients WHERE device_id >= 180", false, false),
                     q("SELECT timestamp, events[1] AS event FROM clients WHERE events IS NOT NULL", false, false),
                     q("SELECT mac_address, COUNT(*) AS n, MAX(timestamp) AS last FROM clients GROUP BY mac_address", true, true),
                 ],
                 noise: vec!["", "{}", "not json at all", "{\"timestamp\": ", "[1, 2, 3]", "{\"other\": 5}"],
                 combine: None },
        Corpus { name: "csv", defs: "/repo/testdata/ftpd_csv.txt", data: "/repo/testdata/ftpd_data_csv.txt",
                 queries: vec![
                     q("SELECT * FROM connections WHERE hostname IS NOT NULL", false, false),
                     q("SELECT month, COUNT(*) AS n, SUM(day) AS s FROM connections GROUP BY month", true, true),
                 ],
                 noise: vec!["", "a;b;notayear;c", "ip;hostname;year;month;day;hour;minute;second", "1.2.3.4;h"],
                 combine: Some("SELECT month, COUNT(*) AS n, SUM(day) AS s, MIN(hour) AS lo, MAX(hour) AS hi FROM connections GROUP BY month") },
        Corpus { name: "ftpd-timestamp", defs: "/repo/testdata/ftpd_timestamp.txt", data: "/repo/testdata/ftpd_data.txt",
                 queries: vec![
                     q("SELECT ip, timestamp FROM connections WHERE timestamp > '2005-06-18 00:00:00' AND hostname IS NOT NULL", false, false),
                     q("SELECT DISTINCT date_trunc('hour', timestamp) AS h FROM connections", false, false),
                     q("SELECT ip, EXTRACT(HOUR FROM timestamp) AS h, timestamp + ('1:30:00'::interval) AS later FROM connections WHERE EXTRACT(DAY FROM timestamp) IN (17, 18)", false, false),
                     q("SELECT date_trunc('day', timestamp) AS d, COUNT(*) AS n, MIN(timestamp) AS first, MAX(timestamp) AS last FROM connections GROUP BY date_trunc('day', timestamp)", true, true),
                     q("SELECT hostname, COUNT(*) AS n, MAX(timestamp) AS last FROM connections GROUP BY hostname HAVING MAX(timestamp) >= '2005-06-18 00:00:00'", true, true),
                     q("SELECT EXTRACT(HOUR FROM timestamp) AS h, COUNT(DISTINCT ip) AS ips FROM connections GROUP BY EXTRACT(HOUR FROM timestamp)", true, true),
                 ],
                 noise: vec!["", "#### noise ####", "connection from", "\t  \t"],
                 combine: None },
        Corpus { name: "ftpd-array", defs: "/repo/testdata/ftpd_array.txt", data: "/repo/testdata/ftpd_data.txt",
                 queries: vec![
                     q("SELECT ip, timestamp[1] AS year, timestamp[2] AS month, array_length(timestamp) AS n FROM connections WHERE timestamp[3] = '17'", false, false),
                     q("SELECT DISTINCT timestamp[2] AS month, timestamp[3] AS day FROM connections", false, false),
                     q("SELECT timestamp[3] AS day, COUNT(*) AS n, MIN(timestamp[4]) AS first_hour FROM connections GROUP BY timestamp[3]", true, true),
                 ],
                 noise: vec!["", "#### noise ####", "connection from"],
                 combine: None },
        Corpus { name: "ftpd-default", defs: "/repo/testdata/ftpd_default.txt", data: "/repo/testdata/ftpd_data.txt",
                 queries: vec![
                     q("SELECT ip, hostname FROM connections WHERE hostname = 'unknown'", false, false),
                     q("SELECT hostname, COUNT(*) AS n, MIN(day) AS lo FROM connections GROUP BY hostname", true, true),
                 ],
                 noise: vec![],
                 combine: Some("SELECT hostname, COUNT(*) AS n, SUM(day) AS s, MIN(day) AS lo, MAX(day) AS hi FROM connections GROUP BY hostname") },
        Corpus { name: "dummy-join", defs: "/repo/testdata/dummy.txt", data: "/repo/testdata/dummy1_data.txt",
                 queries: vec![
                     q("SELECT hostname, min, dummy2.max FROM dummy1 INNER JOIN dummy2::'/repo/testdata/dummy2_data.txt' ON dummy1.hostname=dummy2.hostname", false, false),
                     q("SELECT * FROM dummy1 OUTER JOIN dummy2::'/repo/testdata/dummy2_data.txt' ON dummy1.hostname=dummy2.hostname WHERE min > 0", false, false),
                     q("SELECT hostname, COUNT(*) AS n, SUM(max) AS s FROM dummy1 INNER JOIN dummy2::'/repo/testdata/dummy2_data.txt' ON dummy1.hostname=dummy2.hostname GROUP BY hostname", true, true),
                 ],
                 noise: vec!["", "hostname: , max: 5", "garbage", "hostname: x.se, min: "],
                 combine: Some("SELECT hostname, COUNT(*) AS n, SUM(min) AS s, MIN(min) AS lo, MAX(min) AS hi FROM dummy1 GROUP BY hostname") },
    ]
}

struct Ctx { dir: std::path::PathBuf, n: usize }

impl Ctx {
    fn files(&mut self, parts: &[&[String]]) -> Vec<std::path::PathBuf> {
        let mut out = Vec::new();
        for p in parts {
            self.n += 1;
            let path = self.dir.join(format!("law{}.log", self.n % 8));
            let mut s = String::new();
            for l in p.iter() { s += l; s.push('\n'); }
            std::fs::write(&path, s).unwrap();
            out.push(path);
        }
        out
    }
}

fn run(ctx: &mut Ctx, tables: &sqlgrep::Tables, query: &str, parts: &[&[String]], intr: &J) -> (Vec<String>, String, u64) {
    let paths = ctx.files(parts);
    let obs = run_batch(tables, query, &paths, intr, OutputFormat::Json);
    (obs.raw.into_iter().filter(|l| !l.is_empty()).collect(), obs.status, obs.consumed)
}

/// line-by-line execution (what follow mode does): (rows emitted so far | current table, rows produced per line)
fn incremental(tables: &sqlgrep::Tables, query: &str, lines: &[String], agg: bool) -> Option<(Vec<String>, Vec<usize>)> {
    let stmt = sqlgrep::parsing::parse(query).ok()?;
    let r = std::panic::catch_unwind(std::panic::AssertUnwindSafe(|| {
        let mut engine = ExecutionEngine::with_executed_joined_table(tables, &stmt).ok()?;
        let mut printer_lines = Vec::new();
        let mut per_line = Vec::new();
        let mut table: Vec<String> = Vec::new();
        for l in lines {
            let out = engine.execute(l.clone(), &ExecutionConfig::default()).ok()?;
            let mut produced = 0;
            if let Some(rr) = out.result_row {
                let recs: Vec<String> = rr.data.iter().map(|row| {
                    let m: serde_json::Map<String, J> = rr.columns.iter().cloned().zip(row.columns.iter().map(|v| v.json_value())).collect();
                    serde_json::to_string(&m).unwrap()
                }).collect();
                produced = recs.len();
                if agg { table = recs; } else { printer_lines.extend(recs); }
            }
            per_line.push(produced);
        }
        Some((if agg { table } else { printer_lines }, per_line))
    }));
    r.ok().flatten()
}

fn relayout(rng: &mut rand::rngs::StdRng, sql: &str) -> String {
    const KW: [&str; 24] = ["select", "from", "where", "group", "by", "as", "and", "or", "not", "is", "in", "having", "inner", "outer", "join", "on", "distinct",
                            "case", "when", "then", "else", "end", "limit", "null"];
    const FN: [&str; 12] = ["count", "max", "min", "sum", "avg", "array_agg", "extract", "epoch", "upper", "lower", "length", "abs"];
    let seps = [" ", "  ", "\t", "\n", "\r\n", " -- c ';\n", "\n--x\n"];
    let mut out = String::new();
    let mut in_str = false;
    let mut word = String::new();
    // a function name is only case-insensitive where it is called; elsewhere the word may be a column name
    let flush = |word: &mut String, out: &mut String, rng: &mut rand::rngs::StdRng, called: bool| {
        if word.is_empty() { return; }
        let lw = word.to_lowercase();
        if KW.contains(&lw.as_str()) || (called && FN.contains(&lw.as_str())) {
            match rng.gen_range(0..3) { 0 => out.push_str(&lw), 1 => out.push_str(&lw.to_uppercase()), _ => { let mut c = lw.chars(); let f = c.next().unwrap().to_uppercase().to_string(); out.push_str(&f); out.push_str(c.as_str()); } }
        } else { out.push_str(word); }
        word.clear();
    };
    for ch in sql.chars() {
        if in_str { out.push(ch); if ch == '\'' { in_str = false; } continue; }
        if ch.is_alphanumeric() || ch == '_' { word.push(ch); continue; }
        flush(&mut word, &mut out, rng, ch == '(');
        if ch == '\'' { in_str = true; out.push(ch); }
        else if ch == ' ' { out.push_str(seps[rng.gen_range(0..seps.len())]); }
        else { out.push(ch); }
    }
    flush(&mut word, &mut out, rng, false);
    if rng.gen_bool(0.5) { out.push(';'); }
    out
}

fn combine_rows(recs: &[String]) -> J {
    // records {"key":..,"n":..,"s":..,"lo":..,"hi":..} -> [key-as-string, n, s|"null", lo|"null", hi|"null"]
    J::Array(recs.iter().map(|r| {
        let v: J = serde_json::from_str(r).unwrap();
        let o = v.as_object().unwrap();
        let vals: Vec<&J> = o.values().collect();
        let num = |x: &J| if x.is_null() { json!({"n": true, "v": 0}) } else { json!({"n": false, "v": x}) };
        json!({"k": vals[0].to_string(), "c": vals[1], "s": num(vals[2]), "lo": num(vals[3]), "hi": num(vals[4])})
    }).collect())
}

fn random_corpus(rng: &mut rand::rngs::StdRng, dir: &std::path::Path, round: usize) -> Option<Corpus> {
    let leak = |s: String| -> &'static str { Box::leak(s.into_boxed_str()) };
    for _ in 0..20 {
        let (pats, cols) = crate::extracttrace::gen_definition(rng);
        let sql = match crate::extracttrace::definition_sql(&pats, &cols) { Some(s) => s, None => continue };
        let tables = match setup_tables(&sql) { Ok(t) => t, Err(_) => continue };
        let stmt = sqlgrep::parsing::parse("SELECT * FROM x").unwrap();
        let mut lines = Vec::new();
        let mut noise: Vec<&'static str> = Vec::new();
        while lines.len() < 25 {
            let l = crate::extracttrace::gen_line(rng, &cols);
            if l.ends_with('\r') || l.contains('\n') { continue; }       // (in a file that CR would belong to the line end)
            let row = std::panic::catch_unwind(std::panic::AssertUnwindSafe(|| {
                let mut engine = ExecutionEngine::new(&tables, &stmt);
                matches!(engine.execute(l.clone(), &ExecutionConfig::default()), Ok(o) if o.result_row.is_some())
            })).unwrap_or(true);
            if !row && noise.len() < 6 { noise.push(leak(l.clone())); }
            lines.push(l);
        }
        let defs = dir.join(format!("rnd_defs{}.txt", round % 4));
        let data = dir.join(format!("rnd_data{}.txt", round % 4));
        std::fs::write(&defs, &sql).unwrap();
        std::fs::write(&data, lines.iter().map(|l| format!("{}\n", l)).collect::<String>()).unwrap();
        // statements put together clause by clause over the table's columns (no statement of them depends on the order of equal rows; only those whose
        // table does not depend on the order of the lines at all are marked order-free)
        let ncols = cols.len();
        let col = |rng: &mut rand::rngs::StdRng| format!("c{}", rng.gen_range(1..=ncols));
        let mut generated: Vec<Query> = Vec::new();
        for _ in 0..6 {
            let wh = match rng.gen_range(0..5) { 0 => format!(" WHERE {} IS NOT NULL", col(rng)), 1 => format!(" WHERE {} IS NULL OR {} IS NOT NULL", col(rng), col(rng)),
                                                 2 => format!(" WHERE NOT {} IS NULL", col(rng)), 3 => " WHERE length(input) > 3".to_string(), _ => String::new() };
            let (text, agg, free) = match rng.gen_range(0..6) {
                0 => (format!("SELECT {}, {} AS second, input FROM x{}", col(rng), col(rng), wh), false, false),
                1 => (format!("SELECT DISTINCT {}, {} AS second FROM x{}", col(rng), col(rng), wh), false, false),
                2 => { let g = col(rng); (format!("SELECT {}, COUNT(*) AS n, COUNT({}) AS m FROM x{} GROUP BY {}", g, col(rng), wh, g), true, false) }
                3 => { let g = col(rng); (format!("SELECT {}, COUNT(*) AS n FROM x{} GROUP BY {} HAVING COUNT(*) >= 2", g, wh, g), true, false) }
                4 => (format!("SELECT COUNT(*) AS n, COUNT({}) AS m, COUNT(DISTINCT {}) AS d FROM x{}", col(rng), col(rng), wh), true, true),
                _ => { let g = col(rng); (format!("SELECT DISTINCT COUNT(*) AS n FROM x{} GROUP BY {}", wh, g), true, false) }
            };
            generated.push(Query { sql: leak(text), agg, order_free: free });
        }
        let mut queries = vec![
                                 q("SELECT * FROM x", false, false),
                                 q("SELECT DISTINCT c1 FROM x", false, false),
                                 q("SELECT c1, input FROM x WHERE c1 IS NOT NULL", false, false),
                                 q("SELECT c1, COUNT(*) AS n FROM x GROUP BY c1", true, false),
                                 q("SELECT COUNT(*) AS n, COUNT(c1) AS m FROM x", true, true),
                                 q("SELECT COUNT(*) * 2 AS n FROM x", true, true),
                                 q("SELECT DISTINCT COUNT(*) AS n FROM x GROUP BY c1", true, false),
                             ];
        queries.extend(generated);
        return Some(Corpus { name: "random-definition", defs: leak(defs.to_str().unwrap().to_string()), data: leak(data.to_str().unwrap().to_string()),
                             queries,
                             noise, combine: None });
    }
    None
}

pub fn trace(seed: u64, n: usize) -> Vec<J> {
    let mut rng = rand::rngs::StdRng::seed_from_u64(seed);
    let mut ctx = Ctx { dir: scratch(), n: 0 };
    let mut cs = corpora();
    // a synthetic corpus with large integers (byte counts of some hundred MB, 64-bit identifiers) and reals: squares beyond 2^53, sums near the 64-bit
    // range -- the order-insensitive aggregates must not depend on the order of such rows either
    {
        let defs = ctx.dir.join("big_defs.txt");
        std::fs::write(&defs, "CREATE TABLE xfer(line = 'host=([a-z0-9]+) bytes=(-?[0-9]+) id=([0-9]+) load=(-?[0-9.]+)', line[1] => host TEXT, line[2] => bytes INT, line[3] => id INT, line[4] => load REAL);").unwrap();
        let data = ctx.dir.join("big_data.txt");
        let mut s = String::new();
        let bytes = [300000123i64, 299999871, 300000007, 300000512, 299999999, 300000256, 95000001, 310000653, 290000007, 17, -300000123, 300000123];
        let loads = ["0.5", "-0.5", "0.25", "1.5", "0", "-1.5", "2.75", "1024.125"];    // (no -0: MIN over {0, -0} shows whichever came first, equal values)
        for i in 0..60usize {
            s.push_str(&format!("host=h{} bytes={} id={} load={}\n", i % 3, bytes[(i * 7) % bytes.len()], 9007199254740990u64 + (i as u64 * 3) % 7, loads[(i * 5) % loads.len()]));
        }
        std::fs::write(&data, s).unwrap();
        cs.push(Corpus { name: "bigint", defs: Box::leak(defs.to_str().unwrap().to_string().into_boxed_str()), data: Box::leak(data.to_str().unwrap().to_string().into_boxed_str()),
                         queries: vec![
                             q("SELECT host, STDDEV(bytes) AS sd, VARIANCE(bytes) AS var, AVG(bytes) AS a FROM xfer GROUP BY host", true, true),
                             q("SELECT VARIANCE(bytes) AS var, SUM(bytes) AS s, COUNT(DISTINCT id) AS ids, MAX(id) AS hi, MIN(id) AS lo FROM xfer", true, true),
                             q("SELECT host, SUM(load) AS l, MIN(load) AS lo, MAX(load) AS hi, PERCENTILE(bytes, 0.5) AS p50 FROM xfer GROUP BY host HAVING COUNT(*) >= 1", true, true),
                             q("SELECT id, COUNT(*) AS n, SUM(bytes) AS s FROM xfer WHERE bytes > 0 GROUP BY id", true, true),
                             q("SELECT host, bytes, id FROM xfer WHERE id >= 9007199254740993 AND bytes != 17", false, false),
                             q("SELECT DISTINCT id FROM xfer", false, false),
                         ],
                         noise: vec!["", "host= bytes=1 id=2 load=3", "host=h1 bytes=x id=1 load=1"],
                         combine: None });       // (the combination law adds sums in TLC's 32-bit integers)
    }
    // a synthetic corpus at scale: 1 700 lines over 1 301 keys in scrambled order (some four hundred recur far apart), values 0..6 -- more groups, distinct rows
    // and distinct values than any in-memory shortcut of the code is sized for; taken whole, once per trace
    let n_small = cs.len();
    {
        let defs = ctx.dir.join("many_defs.txt");
        std::fs::write(&defs, "CREATE TABLE big(line = 'k=([a-z0-9]+) v=(-?[0-9]+)', line[1] => k TEXT, line[2] => v INT);").unwrap();
        let data = ctx.dir.join("many_data.txt");
        let mut s = String::new();
        for i in 1..=1700usize { s.push_str(&format!("k=g{} v={}\n", (i * 37) % 1301, i % 7)); }
        std::fs::write(&data, s).unwrap();
        cs.push(Corpus { name: "manykeys", defs: Box::leak(defs.to_str().unwrap().to_string().into_boxed_str()), data: Box::leak(data.to_str().unwrap().to_string().into_boxed_str()),
                         queries: vec![
                             q("SELECT DISTINCT MAX(v) AS m, COUNT(*) AS c FROM big GROUP BY k", true, true),
                             q("SELECT k, COUNT(*) AS n FROM big GROUP BY k", true, true),
                             q("SELECT k, SUM(v) AS s FROM big GROUP BY k HAVING COUNT(*) >= 2", true, true),
                             q("SELECT DISTINCT k FROM big", false, false),
                             q("SELECT COUNT(DISTINCT k) AS d, COUNT(DISTINCT v) AS dv, PERCENTILE(v, 0.999) AS p FROM big", true, true),
                             q("SELECT DISTINCT COUNT(*) AS c FROM big GROUP BY k", true, true),
                         ],
                         noise: vec!["", "k= v=1", "k=g1 v=x"],
                         combine: None });
    }
    let none = json!({"at": "none", "n": 0});
    let mut ev = Vec::new();
    for round in 0..n {
        let whole = round >= 1 && round <= cs[n_small].queries.len();       // rounds 1..6: the corpus at scale, once under each of its queries
        // one round in four: a table nobody wrote by hand -- a random definition (patterns in capture / split mode, inline patterns, JSON paths, every type and
        // modifier: the generator of the extraction traces) over random lines; its noise lines are the lines the engine itself gives no row for
        let random_corpus = if !whole && rng.gen_range(0..4) == 0 { random_corpus(&mut rng, &ctx.dir, round) } else { None };
        let c = if whole { &cs[n_small] } else if let Some(rc) = &random_corpus { rc } else { &cs[rng.gen_range(0..n_small)] };
        let tables = setup_tables(&std::fs::read_to_string(c.defs).unwrap()).unwrap();
        let all: Vec<String> = std::fs::read_to_string(c.data).unwrap().lines().map(|l| l.to_string()).collect();
        let len = if whole { all.len() } else { rng.gen_range(1..=std::cmp::min(all.len(), 40)) };
        let start = rng.gen_range(0..=all.len() - len);
        let lines: Vec<String> = all[start..start + len].to_vec();
        let qu = if whole { &c.queries[round - 1] } else { &c.queries[rng.gen_range(0..c.queries.len())] };
        tick(&json!({"round": round, "corpus": c.name, "query": qu.sql}));

        let (base, status, _) = run(&mut ctx, &tables, qu.sql, &[&lines], &none);
        ev.push(json!({"ev": "base", "corpus": c.name, "query": qu.sql, "lines": len, "agg": qu.agg, "status": status, "out": base}));
        if status != "ok" { continue; }

        // C06 noise (a table with a DEFAULT column has no noise lines: the default alone makes every line a row)
        if !c.noise.is_empty() {
        let mut noisy = lines.clone();
        for _ in 0..rng.gen_range(1..5) { let p = rng.gen_range(0..=noisy.len()); noisy.insert(p, c.noise[rng.gen_range(0..c.noise.len())].to_string()); }
        let (o, st, _) = run(&mut ctx, &tables, qu.sql, &[&noisy], &none);
        ev.push(json!({"ev": "law", "law": "noise", "status": st, "out": o}));
        }

        // C12 concat
        let c1 = rng.gen_range(0..=lines.len()); let c2 = rng.gen_range(c1..=lines.len());
        let (o, st, _) = run(&mut ctx, &tables, qu.sql, &[&lines[..c1], &lines[c1..c2], &lines[c2..]], &none);
        ev.push(json!({"ev": "law", "law": "concat", "status": st, "out": o}));

        // C18 repeat, C20 layout
        let (o, st, _) = run(&mut ctx, &tables, qu.sql, &[&lines], &none);
        ev.push(json!({"ev": "law", "law": "repeat", "status": st, "out": o}));
        let lq = relayout(&mut rng, qu.sql);
        let (o, st, _) = run(&mut ctx, &tables, &lq, &[&lines], &none);
        ev.push(json!({"ev": "law", "law": "layout", "status": st, "out": o, "text": lq}));

        // C07 limit
        let inc = if whole && qu.agg { None } else { incremental(&tables, qu.sql, &lines, qu.agg) };
        // (the "LIMIT <huge>" idiom for "everything": the number is not related to the size of anything)
        for nlim in [0usize, 1, 2, base.len(), base.len() + 2, i64::MAX as usize, 1usize << 62] {
            let lq = format!("{} LIMIT {}", qu.sql, nlim);
            let nlim = std::cmp::min(nlim, 2000000000);        // as TLC reads it (32-bit integers): still beyond every output
            let (o, st, consumed) = run(&mut ctx, &tables, &lq, &[&lines[..c1], &lines[c1..]], &none);
            let needed = match (&inc, qu.agg) {
                (Some((_, per)), false) => { let mut cum = 0; let mut need = if nlim == 0 { 0 } else { per.len() };
                    if nlim > 0 { for (i, p) in per.iter().enumerate() { cum += p; if cum >= nlim { need = i + 1; break; } } } need }
                _ => lines.len()
            };
            ev.push(json!({"ev": "law", "law": "limit", "n": nlim, "status": st, "out": o, "consumed": consumed, "needed": needed}));
        }

        // C11 prefix
        for k in [1usize, lines.len() / 2, lines.len()] {
            if k == 0 || k > lines.len() || (whole && k != lines.len() / 2) { continue; }
            if let Some((incr, _)) = incremental(&tables, qu.sql, &lines[..k], qu.agg) {
                let (b, st, _) = run(&mut ctx, &tables, qu.sql, &[&lines[..k]], &none);
                if st == "ok" { ev.push(json!({"ev": "law", "law": "prefix", "k": k, "incr": incr, "batch": b})); }
            }
        }

        // C19 interrupt at a line boundary
        let at = rng.gen_range(0..=lines.len());
        let (o, st, consumed) = run(&mut ctx, &tables, qu.sql, &[&lines], &json!({"at": "line", "n": at}));
        let (boc, _, _) = run(&mut ctx, &tables, qu.sql, &[&lines[..std::cmp::min(consumed as usize, lines.len())]], &none);
        ev.push(json!({"ev": "law", "law": "interrupt", "at": at, "status": st, "out": o, "consumed": consumed, "batch_of_consumed": boc}));

        // C15 permutation and combination
        if qu.order_free {
            let mut sh = lines.clone(); sh.shuffle(&mut rng);
            let (o, st, _) = run(&mut ctx, &tables, qu.sql, &[&sh], &none);
            ev.push(json!({"ev": "law", "law": "perm", "status": st, "out": o}));
        }
        if let Some(cq) = c.combine {
            let cut = rng.gen_range(0..=lines.len());
            let (x, s1, _) = run(&mut ctx, &tables, cq, &[&lines[..cut]], &none);
            let (y, s2, _) = run(&mut ctx, &tables, cq, &[&lines[cut..]], &none);
            let (xy, s3, _) = run(&mut ctx, &tables, cq, &[&lines], &none);
            if s1 == "ok" && s2 == "ok" && s3 == "ok" {
                ev.push(json!({"ev": "law", "law": "combine", "cut": cut, "x": combine_rows(&x), "y": combine_rows(&y), "xy": combine_rows(&xy)}));
            }
        }
    }
    cleanup_scratch();
    ev
}
