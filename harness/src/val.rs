//! Projection between sqlgrep's `Value` and the abstract value universe of spec/Values.tla (as JSON).
use serde_json::{json, Value as J};
use sqlgrep::model::{Float, Value, ValueType};

const NEAR: i64 = 1 << 40;

const TWO32: i64 = 1 << 32;
const TWO53: i64 = 1 << 53;
const TWO31: i64 = 1 << 31;

pub fn jint(x: i64) -> J {
    // values just beyond 32 bits (wrap-around candidates) have their own base: TLC integers are 32-bit
    if x > (1 << 50) && x.checked_sub(TWO53).map(|d| d.unsigned_abs() < (1 << 20)).unwrap_or(false) { return json!({"t": "int", "b": 3, "i": x - TWO53}); }
    if x.checked_sub(TWO31).map(|d| d.unsigned_abs() < (1 << 20)).unwrap_or(false) { return json!({"t": "int", "b": 4, "i": x - TWO31}); }
    if x.checked_sub(TWO32).map(|d| d.unsigned_abs() < (1 << 20)).unwrap_or(false) { return json!({"t": "int", "b": 2, "i": x - TWO32}); }
    if x > i64::MAX - NEAR { json!({"t": "int", "b": 1, "i": x - i64::MAX}) }
    else if x < i64::MIN + NEAR { json!({"t": "int", "b": -1, "i": x - i64::MIN}) }
    else { json!({"t": "int", "b": 0, "i": x}) }
}

pub fn jreal(x: f64) -> J {
    if x.is_nan() { return json!({"t": "real", "c": "nan", "n": 0, "d": 1}); }
    if x == f64::INFINITY { return json!({"t": "real", "c": "pinf", "n": 0, "d": 1}); }
    if x == f64::NEG_INFINITY { return json!({"t": "real", "c": "ninf", "n": 0, "d": 1}); }
    if x == 0.0 && x.is_sign_negative() { return json!({"t": "real", "c": "nzero", "n": 0, "d": 1}); }
    if x == f64::from_bits(0.25f64.to_bits() + 1) { return json!({"t": "real", "c": "q25n", "n": 0, "d": 1}); }
    if x == 9007199254740992.0 { return json!({"t": "real", "c": "p53", "n": 0, "d": 1}); }
    if x == 9007199254740994.0 { return json!({"t": "real", "c": "p53b", "n": 0, "d": 1}); }
    if x == 1e19 { return json!({"t": "real", "c": "e19", "n": 0, "d": 1}); }
    if x == -1e19 { return json!({"t": "real", "c": "ne19", "n": 0, "d": 1}); }
    if x == 1e300 { return json!({"t": "real", "c": "e300", "n": 0, "d": 1}); }
    if x == 9223372036854775808.0 { return json!({"t": "real", "c": "p63", "n": 0, "d": 1}); }
    if x == -9223372036854775808.0 { return json!({"t": "real", "c": "n63", "n": 0, "d": 1}); }
    let mut d: i64 = 1;
    while d <= 1024 {
        let y = x * d as f64;
        if y.fract() == 0.0 && y.abs() < 1e15 { return json!({"t": "real", "c": "fin", "n": y as i64, "d": d}); }
        d *= 2;
    }
    json!({"t": "real", "c": "other", "bits": format!("{:016x}", x.to_bits())})
}

pub fn type_name(t: &ValueType) -> String {
    match t {
        ValueType::Int => "int".into(), ValueType::Float => "real".into(), ValueType::Bool => "bool".into(),
        ValueType::String => "text".into(), ValueType::Timestamp => "ts".into(), ValueType::Interval => "iv".into(),
        ValueType::Array(_) => "arr".into()
    }
}

/// real Value -> abstract JSON (timestamps in the process' local zone; checks run under TZ=UTC)
pub fn project(v: &Value) -> J {
    use chrono::{Datelike, Timelike};
    match v {
        Value::Null => json!({"t": "null"}),
        Value::Int(x) => jint(*x),
        Value::Float(Float(x)) => jreal(*x),
        Value::Bool(b) => json!({"t": "bool", "v": b}),
        Value::String(s) => json!({"t": "text", "s": s.chars().map(|c| c as u32).collect::<Vec<_>>()}),
        Value::Array(et, xs) => json!({"t": "arr", "et": type_name(et), "xs": xs.iter().map(project).collect::<Vec<_>>()}),
        Value::Timestamp(ts) => json!({"t": "ts", "f": [ts.year(), ts.month(), ts.day(), ts.hour(), ts.minute(), ts.second(), ts.timestamp_subsec_micros()]}),
        Value::Interval(iv) => json!({"t": "iv", "ms": iv.num_milliseconds()})
    }
}

pub fn text_of(v: &J) -> String {
    v["s"].as_array().map(|a| a.iter().map(|c| char::from_u32(c.as_u64().unwrap() as u32).unwrap()).collect()).unwrap_or_default()
}

pub fn int_of(v: &J) -> i64 {
    let i = v["i"].as_i64().unwrap();
    match v["b"].as_i64().unwrap() { 1 => i64::MAX + i, -1 => i64::MIN + i, 2 => TWO32 + i, 3 => TWO53 + i, 4 => TWO31 + i, _ => i }
}

pub fn real_of(v: &J) -> f64 {
    match v["c"].as_str().unwrap() {
        "nan" => f64::NAN, "nnan" => f64::from_bits(0xfff8000000000000), "pinf" => f64::INFINITY, "ninf" => f64::NEG_INFINITY, "nzero" => -0.0,
        "q25n" => f64::from_bits(0.25f64.to_bits() + 1),
        "p53" => 9007199254740992.0, "p53b" => 9007199254740994.0,
        "p63" => 9223372036854775808.0, "n63" => -9223372036854775808.0,
        "e19" => 1e19, "ne19" => -1e19, "e300" => 1e300,
        _ => v["n"].as_i64().unwrap() as f64 / v["d"].as_i64().unwrap() as f64
    }
}

fn elem_type(et: &str) -> ValueType {
    match et { "int" => ValueType::Int, "real" => ValueType::Float, "bool" => ValueType::Bool, "text" => ValueType::String,
               "ts" => ValueType::Timestamp, "iv" => ValueType::Interval, _ => ValueType::String }
}

/// abstract JSON -> real Value (concretisation is exact for every value the specs produce)
pub fn concretise(v: &J) -> Value {
    match v["t"].as_str().unwrap() {
        "null" => Value::Null,
        "int" => Value::Int(int_of(v)),
        "real" => Value::Float(Float(real_of(v))),
        "bool" => Value::Bool(v["v"].as_bool().unwrap()),
        "text" => Value::String(text_of(v)),
        "arr" => Value::Array(elem_type(v["et"].as_str().unwrap()), v["xs"].as_array().unwrap().iter().map(concretise).collect()),
        "ts" => {
            let f: Vec<i64> = v["f"].as_array().unwrap().iter().map(|x| x.as_i64().unwrap()).collect();
            Value::Timestamp(sqlgrep::model::create_timestamp(f[0] as i32, f[1] as u32, f[2] as u32, f[3] as u32, f[4] as u32, f[5] as u32, f[6] as u32).unwrap())
        }
        "iv" => Value::Interval(chrono::Duration::milliseconds(v["ms"].as_i64().unwrap())),
        t => panic!("bad abstract value type {}", t)
    }
}

/// what the JSON printer must show for an abstract value (C17): used to compare decoded records
pub fn expected_json(v: &J) -> Option<J> {
    Some(match v["t"].as_str().unwrap() {
        "null" => J::Null,
        "int" => json!(int_of(v)),
        "real" => { let x = real_of(v); if !x.is_finite() { return None; } json!(x) }
        "bool" => json!(v["v"].as_bool().unwrap()),
        "text" => json!(text_of(v)),
        "arr" => { let mut out = Vec::new(); for x in v["xs"].as_array().unwrap() { out.push(expected_json(x)?); } J::Array(out) }
        _ => J::String(concretise(v).to_string())
    })
}

/// equality of a decoded JSON record value with the expected one: numbers by numeric value
pub fn json_eq(a: &J, b: &J) -> bool {
    match (a, b) {
        (J::Number(x), J::Number(y)) => {
            if let (Some(i), Some(j)) = (x.as_i64(), y.as_i64()) { return i == j; }
            // exact value of a number written as an integer (i64 / u64 form): it recovers a REAL only if it IS that REAL (2^63 written as 9223372036854775807 is another number)
            let int_of = |n: &serde_json::Number| -> Option<i128> { n.as_i64().map(|i| i as i128).or(n.as_u64().map(|u| u as i128)) };
            let exact = |i: i128, f: f64| f.fract() == 0.0 && f.abs() < 1.0e38 && (f as i128) == i;
            // an INT must be printed as an integer, a REAL may print integral values as 1.0
            if x.is_f64() != y.is_f64() {
                return match (int_of(x), int_of(y)) { (Some(i), None) => y.is_f64() && exact(i, y.as_f64().unwrap()), _ => false };
            }
            x.as_f64() == y.as_f64()
        }
        (J::Array(x), J::Array(y)) => x.len() == y.len() && x.iter().zip(y.iter()).all(|(p, q)| json_eq(p, q)),
        _ => a == b
    }
}
