//! Binding of spec/ParseTotal.tla to sqlgrep::parsing: any text gives a statement or a located error.
use crate::common::*;
use serde_json::{json, Value as J};

fn text_of(cps: &J) -> String { cps.as_array().unwrap().iter().map(|c| char::from_u32(c.as_u64().unwrap() as u32).unwrap_or('?')).collect() }

/// outcome class of parsing `text`: "ok" | "err" | "panic" | "bad_location:..." | "near_panic"
pub fn classify(text: &str) -> String {
    let t = text.to_string();
    let r = std::panic::catch_unwind(move || {
        let tree = sqlgrep::parsing::parse_into_tree(&t).is_ok();
        match sqlgrep::parsing::parse(&t) {
            Ok(_) => ("ok".to_string(), tree),
            Err(e) => {
                let loc = e.location().clone();
                // the position must lie inside the text: a line of the text (or the position just after its last
                // line break) and a column within that line (the end of the line included)
                let lines: Vec<&str> = t.split('\n').collect();
                if loc.line >= lines.len() { return (format!("bad_location: line {} of {}", loc.line, lines.len()), tree); }
                let width = lines[loc.line].chars().count();
                if loc.column > width + 1 { return (format!("bad_location: column {} of {}", loc.column, width), tree); }
                let _msg = format!("{}", e);
                match std::panic::catch_unwind(|| loc.extract_near(&t)) {
                    Ok(_) => ("err".to_string(), tree),
                    Err(_) => ("near_panic".to_string(), tree)
                }
            }
        }
    });
    match r { Ok((o, _)) => o, Err(_) => "panic".to_string() }
}

/// child mode: classify the text in the file (the parent reads the verdict from stdout; dying from a signal / abort is the verdict "crash")
pub fn child(path: &str) {
    let text = std::fs::read_to_string(path).unwrap();
    println!("{}", classify(&text));
}

/// classification in a child process: a stack overflow inside the parser or a library it calls aborts the process, which no catch_unwind sees
fn classify_in_child(text: &str) -> String {
    let dir = scratch();
    let p = dir.join("parse-child.txt");
    std::fs::write(&p, text).unwrap();
    let exe = std::env::current_exe().unwrap();
    match std::process::Command::new(exe).arg("parse-child").arg(p.to_str().unwrap()).output() {
        Ok(o) if o.status.success() => String::from_utf8_lossy(&o.stdout).trim().to_string(),
        Ok(o) => format!("crash: {:?}", o.status),
        Err(e) => format!("crash: {}", e)
    }
}

pub fn replay(cases: &[J]) -> J {
    let mut rep = Report::new("parsetotal");
    for case in cases {
        tick(&json!({"kind": case["kind"], "len": case["text"].as_array().map(|a| a.len())}));
        let text = text_of(&case["text"]);
        let o = if case["kind"] == "patnest" { classify_in_child(&text) } else { classify(&text) };
        let text = if text.chars().count() > 400 { format!("{}... ({} characters)", text.chars().take(200).collect::<String>(), text.chars().count()) } else { text };
        let allowed: Vec<&str> = case["allowed"].as_array().unwrap().iter().map(|a| a.as_str().unwrap()).collect();
        if allowed.contains(&o.as_str()) {
            rep.count(&format!("{}_{}", case["kind"].as_str().unwrap(), o));
            rep.ok(&json!({"kind": case["kind"], "text": text}), text.clone(), o == "err" || case["kind"] != "mutation");
        } else {
            rep.mismatch(&json!({"kind": case["kind"], "text": text, "allowed": allowed}), json!({"outcome in": allowed}), json!({"outcome": o, "text": text}),
                         "parsing is not total / not located / accepted a malformed statement (ParseTotal.tla)");
        }
    }
    rep.finish()
}

/// impl -> spec: random Unicode strings and byte-level mutations of valid statements
pub fn trace(seed: u64, n: usize) -> Vec<J> {
    use rand::{Rng, SeedableRng};
    let mut rng = rand::rngs::StdRng::seed_from_u64(seed);
    let seeds = ["SELECT k, COUNT(*) FROM t WHERE v >= 1 GROUP BY k HAVING COUNT(*) > 1 LIMIT 3",
                 "CREATE TABLE t(line = 'a(b)?', line[1] => x TEXT NOT NULL, { .a[0] } => y INT[] );",
                 "SELECT CASE WHEN v IN (1, 2) THEN 'x' ELSE k END, v::text, a[1] FROM t INNER JOIN u::'f' ON t.k = u.k"];
    let pool: Vec<char> = "aZ09_ \t\n\r'\"\\;,.:()[]{}<>=!-+*/^%éß中😀\u{0}\u{7f}\u{a0}\u{2028}\u{feff}\u{10ffff}".chars().collect();
    let mut out = Vec::new();
    for i in 0..n {
        let text: String = match rng.gen_range(0..3) {
            0 => { let len = rng.gen_range(0..40); (0..len).map(|_| pool[rng.gen_range(0..pool.len())]).collect() }
            1 => { // mutate characters of a valid statement
                let mut cs: Vec<char> = seeds[rng.gen_range(0..seeds.len())].chars().collect();
                for _ in 0..rng.gen_range(1..4) {
                    if cs.is_empty() { break; }
                    let p = rng.gen_range(0..cs.len());
                    match rng.gen_range(0..3) { 0 => { cs.remove(p); } 1 => { cs.insert(p, pool[rng.gen_range(0..pool.len())]); } _ => { cs[p] = pool[rng.gen_range(0..pool.len())]; } }
                }
                cs.into_iter().collect()
            }
            _ => { let s = seeds[rng.gen_range(0..seeds.len())]; let cs: Vec<char> = s.chars().collect(); cs[..rng.gen_range(0..=cs.len())].iter().collect() }
        };
        let o = classify(&text);
        out.push(json!({"ev": "parse", "i": i, "text": text.chars().map(|c| c as u32).collect::<Vec<_>>(), "outcome": o}));
        tick(&json!({"i": i}));
    }
    out
}
