//! Binding of spec/Grammar.tla to sqlgrep::parsing::parse: an expression written with minimal
//! parentheses must parse to the same statement as its fully parenthesised form.
use crate::common::*;
use serde_json::{json, Value as J};

fn wordy_end(t: &str) -> bool { t.chars().last().map(|c| c.is_alphanumeric() || c == '_' || c == '\'').unwrap_or(false) }
fn wordy_start(t: &str) -> bool { t.chars().next().map(|c| c.is_alphanumeric() || c == '_' || c == '\'').unwrap_or(false) }

pub fn spaced(toks: &[String]) -> String { toks.join(" ") }

/// no whitespace except where two tokens would otherwise merge into one (or into a `--` comment)
pub fn tight(toks: &[String]) -> String {
    let mut s = String::new();
    for (i, t) in toks.iter().enumerate() {
        if i > 0 {
            let p = &toks[i - 1];
            if (wordy_end(p) && wordy_start(t)) || (p == "-" && t == "-") { s.push(' '); }
        }
        s.push_str(t);
    }
    s
}

pub fn parse_debug(expr: &str) -> Result<String, String> {
    let text = format!("SELECT {} AS r FROM t", expr);
    match std::panic::catch_unwind(|| sqlgrep::parsing::parse(&text)) {
        Ok(Ok(st)) => Ok(format!("{:?}", st)),
        Ok(Err(e)) => Err(format!("error: {}", e)),
        Err(_) => Err("panic".to_string())
    }
}

pub fn replay(cases: &[J]) -> J {
    let mut rep = Report::new("grammar");
    for case in cases {
        tick(case);
        let toks = |k: &str| -> Vec<String> { case[k].as_array().unwrap().iter().map(|t| t.as_str().unwrap().to_string()).collect() };
        let (min, full) = (toks("min"), toks("full"));
        let reference = parse_debug(&spaced(&full));
        // the separator between two tokens is any white space: one token per line (each starting at column 0), a blank before the line break, tabs
        let variants = vec![("min spaced", spaced(&min)), ("min tight", tight(&min)), ("full tight", tight(&full)),
                            ("min one token per line", min.join("\n")), ("min line breaks after a blank", min.join(" \n")), ("min tabs / CRLF", min.join("\t\r\n"))];
        let mut bad = Vec::new();
        match &reference {
            Err(e) => bad.push(json!({"variant": "full spaced", "text": spaced(&full), "result": e})),
            Ok(r) => for (name, text) in &variants {
                match parse_debug(text) {
                    Ok(d) if &d == r => {}
                    Ok(d) => bad.push(json!({"variant": name, "text": text, "result": d, "reference": r})),
                    Err(e) => bad.push(json!({"variant": name, "text": text, "result": e}))
                }
            }
        }
        if bad.is_empty() { rep.ok(case, spaced(&min), min.len() > 1); }
        else { rep.mismatch(case, json!({"same statement as": spaced(&full)}), json!(bad), "parser groups an expression differently from its fully parenthesised form (Grammar.tla)"); }
    }
    rep.finish()
}
