//! Binding of spec/Follow.tla to sqlgrep::helpers::FollowFileIterator / executor::FollowFileExecutor.
use crate::common::*;
use serde_json::{json, Value as J};
use sqlgrep::helpers::FollowFileIterator;
use sqlgrep::verif_hooks::{self, FollowAction, Hooks};
use std::cell::RefCell;
use std::fs::{File, OpenOptions};
use std::io::{BufReader, Seek, SeekFrom, Write};
use std::rc::Rc;

struct Sched {
    hist: Vec<(String, u64)>,
    idx: usize,
    content: Vec<u8>,
    written: usize,
    path: std::path::PathBuf,
    delivered: Rc<RefCell<Vec<Vec<u8>>>>,
    problems: Vec<String>,
    stopped: bool
}

impl Sched {
    /// one call of the follow_retry hook = the model's [WAppend]* then (Retry | Stop)
    fn on_retry(&mut self) -> FollowAction {
        loop {
            if self.idx >= self.hist.len() {
                self.problems.push(format!("retry #{} not in the model's schedule", self.idx));
                self.stopped = true;
                return FollowAction::Stop;
            }
            let (e, n) = self.hist[self.idx].clone();
            self.idx += 1;
            match e.as_str() {
                "A" => {
                    let k = n as usize;
                    let mut f = OpenOptions::new().append(true).open(&self.path).unwrap();
                    f.write_all(&self.content[self.written..self.written + k]).unwrap();
                    f.flush().unwrap();
                    self.written += k;
                }
                "R" | "S" => {
                    let have = self.delivered.borrow().len() as u64;
                    if have != n {
                        self.problems.push(format!("at schedule step {}: {} lines delivered, model says {}", self.idx - 1, have, n));
                    }
                    if e == "S" { self.stopped = true; return FollowAction::Stop; }
                    return FollowAction::Continue;
                }
                _ => { self.problems.push("bad event".into()); self.stopped = true; return FollowAction::Stop; }
            }
        }
    }
}

fn parse_hist(case: &J) -> Vec<(String, u64)> {
    case["hist"].as_array().unwrap().iter()
        .map(|e| (e["e"].as_str().unwrap().to_string(), e["n"].as_u64().unwrap())).collect()
}

/// Runs one behaviour of Follow.tla on the real FollowFileIterator. Returns (delivered, failed, problems).
fn run_iterator(case: &J, path: &std::path::Path) -> (Vec<Vec<u8>>, bool, Vec<String>) {
    let content = bytes_of(&case["content"]);
    let pre = case["pre"].as_u64().unwrap() as usize;
    let head = case["head"].as_bool().unwrap();
    let cap = case["cap"].as_u64().unwrap() as usize;
    std::fs::write(path, &content[..pre]).unwrap();

    let delivered = Rc::new(RefCell::new(Vec::new()));
    let sched = Rc::new(RefCell::new(Sched {
        hist: parse_hist(case), idx: 0, content: content.clone(), written: pre, path: path.to_path_buf(),
        delivered: delivered.clone(), problems: Vec::new(), stopped: false
    }));

    let mut reader = BufReader::with_capacity(cap, File::open(path).unwrap());
    if head { reader.seek(SeekFrom::Start(0)).unwrap(); } else { reader.seek(SeekFrom::End(0)).unwrap(); }

    let s2 = sched.clone();
    verif_hooks::install(Hooks {
        follow_retry: Some(Box::new(move || s2.borrow_mut().on_retry())),
        batch_line: None, join_line: None
    });
    let d2 = delivered.clone();
    let result = std::panic::catch_unwind(std::panic::AssertUnwindSafe(|| {
        for item in FollowFileIterator::new(reader) {
            d2.borrow_mut().push(item.into_bytes());
        }
    }));
    verif_hooks::clear();
    let mut s = sched.borrow_mut();
    if result.is_err() { s.problems.push("panic".into()); }
    let failed = !s.stopped;
    if s.stopped && s.idx != s.hist.len() { s.problems.push("schedule not exhausted".into()); }
    let out = delivered.borrow().clone();
    (out, failed, s.problems.clone())
}

/// 'a' (97) stands for a run of ordinary bytes: the same behaviour with every 'a' written as `unit` bytes (content, chunk sizes and
/// expected lines scaled accordingly). Deliveries and retry points do not depend on the run length for an append-only file.
fn expanded(case: &J, unit: usize) -> J {
    let content = bytes_of(&case["content"]);
    let w = |b: u8| if b == 97 { unit } else { 1 };
    let scale = |bytes: &[u8]| -> Vec<u8> { let mut o = Vec::new(); for b in bytes { if *b == 97 { o.extend(std::iter::repeat(b'a').take(unit)); } else { o.push(*b); } } o };
    let pre = case["pre"].as_u64().unwrap() as usize;
    let mut c = case.clone();
    c["content"] = jbytes(&scale(&content));
    c["pre"] = json!(content[..pre].iter().map(|b| w(*b)).sum::<usize>());
    c["cap"] = json!(8192);
    let mut pos = pre;
    let mut hist = Vec::new();
    for e in case["hist"].as_array().unwrap() {
        if e["e"] == "A" { let k = e["n"].as_u64().unwrap() as usize; let n: usize = content[pos..pos + k].iter().map(|b| w(*b)).sum(); pos += k; hist.push(json!({"e": "A", "n": n})); }
        else { hist.push(e.clone()); }
    }
    c["hist"] = J::Array(hist);
    c["delivered"] = J::Array(case["delivered"].as_array().unwrap().iter().map(|l| jbytes(&scale(&bytes_of(l)))).collect());
    c
}

pub fn replay(cases: &[J]) -> J {
    let dir = scratch();
    let path = dir.join("follow.log");
    let mut rep = Report::new("follow");
    let mut all: Vec<J> = Vec::new();
    for (i, case) in cases.iter().enumerate() {
        all.push(case.clone());
        // every 97th behaviour that contains an 'a' is also run with long runs (beyond 64 KiB and the BufReader capacity)
        if i % 97 == 0 && bytes_of(&case["content"]).contains(&97) && !case["failed"].as_bool().unwrap() {
            for unit in [8193usize, 70000] { all.push(expanded(case, unit)); }
        }
    }
    for case in &all {
        tick(&json!({"pre": case["pre"], "cap": case["cap"], "hist": case["hist"]}));
        let (delivered, failed, problems) = run_iterator(case, &path);
        // the model delivers bytes; the iterator hands out text: bytes that are not UTF-8 arrive as U+FFFD (lossy decoding of the whole line)
        let exp_delivered: Vec<Vec<u8>> = case["delivered"].as_array().unwrap().iter().map(|l| String::from_utf8_lossy(&bytes_of(l)).into_owned().into_bytes()).collect();
        let exp_failed = case["failed"].as_bool().unwrap();
        let big = bytes_of(&case["content"]).len() > 200;
        let show = |ls: &Vec<Vec<u8>>| -> J { if big { json!(ls.iter().map(|l| format!("{} bytes", l.len())).collect::<Vec<_>>()) } else { json!(ls.iter().map(|l| jbytes(l)).collect::<Vec<_>>()) } };
        let observed = json!({"delivered": show(&delivered), "failed": failed, "problems": problems});
        if delivered != exp_delivered || failed != exp_failed || !problems.is_empty() {
            let shown = if big { json!({"content_bytes": bytes_of(&case["content"]).len(), "pre": case["pre"], "head": case["head"], "cap": case["cap"], "hist": case["hist"]}) } else { case.clone() };
            rep.mismatch(&shown, json!({"delivered": show(&exp_delivered), "failed": exp_failed}), observed, "follow iterator differs from Follow.tla");
        } else {
            if exp_failed { rep.dev_witness("FollowUtf8Split", case); rep.count("dev_FollowUtf8Split"); }
            let key = format!("{}|{}|{}|{}|{}", case["content"], case["pre"], case["head"], case["cap"], case["hist"]);
            rep.ok(case, key, !exp_delivered.is_empty());
        }
    }
    cleanup_scratch();
    rep.finish()
}

// ---------------------------------------------------------------------------------------------
// Executor level: FollowFileExecutor (real seek for --head, real BufReader, real printing) in a child
// process whose stdout is captured.

pub fn child(case_text: &str) {
    use sqlgrep::executor::{DisplayOptions, FollowFileExecutor, OutputFormat};
    use std::sync::atomic::AtomicBool;
    use std::sync::Arc;
    let case: J = serde_json::from_str(case_text).unwrap();
    let content = bytes_of(&case["content"]);
    let pre = case["pre"].as_u64().unwrap() as usize;
    let head = case["head"].as_bool().unwrap();
    let dir = scratch();
    let path = dir.join("follow.log");
    std::fs::write(&path, &content[..pre]).unwrap();

    let mut tables = sqlgrep::Tables::new();
    let defs = match case["tdef"].as_str() { Some(t) => crate::sql::table_defs(t), None => "CREATE TABLE t('((?s:.*))' => x TEXT);".to_string() };
    let def = sqlgrep::parsing::parse(&defs).unwrap();
    tables.add_tables(def);
    let stmt = sqlgrep::parsing::parse(case["query"].as_str().unwrap_or("SELECT x FROM t")).unwrap();
    let hist = parse_hist(&case);
    // the executor prints records on stdout; retry bookkeeping goes to stderr
    let state = Rc::new(RefCell::new((hist, 0usize, pre)));
    let st = state.clone();
    let p2 = path.clone();
    let running = Arc::new(AtomicBool::new(true));
    let run2 = running.clone();
    verif_hooks::install(Hooks {
        follow_retry: Some(Box::new(move || {
            let mut s = st.borrow_mut();
            loop {
                if s.1 >= s.0.len() { eprintln!("UNSCHEDULED"); return FollowAction::Stop; }
                let (e, n) = s.0[s.1].clone();
                s.1 += 1;
                match e.as_str() {
                    "A" => {
                        let mut f = OpenOptions::new().append(true).open(&p2).unwrap();
                        let w = s.2;
                        f.write_all(&content[w..w + n as usize]).unwrap();
                        s.2 += n as usize;
                    }
                    // the user's ctrl-c while the reader waits for input: the handler clears `running`
                    "I" => { run2.store(false, std::sync::atomic::Ordering::SeqCst); }
                    "R" => { println!("\u{1}R"); return FollowAction::Continue; }
                    _ => { println!("\u{1}S"); return FollowAction::Stop; }
                }
            }
        })),
        batch_line: None, join_line: None
    });
    let mut opts = DisplayOptions::default();
    opts.output_format = OutputFormat::Json;
    let engine = sqlgrep::ExecutionEngine::new(&tables, &stmt);
    let mut ex = FollowFileExecutor::new(running, File::open(&path).unwrap(), head, opts, engine).unwrap();
    let r = ex.execute();
    println!("\u{1}END {}", if r.is_ok() { "ok" } else { "err" });
    cleanup_scratch();
}

pub fn replay_exec(cases: &[J]) -> J {
    let mut rep = Report::new("follow-exec");
    let exe = std::env::current_exe().unwrap();
    for case in cases {
        tick(case);
        let out = std::process::Command::new(&exe).arg("follow-child").arg(case.to_string()).output().unwrap();
        let stdout = String::from_utf8_lossy(&out.stdout).to_string();
        // records are JSON objects {"x": "..."}; marker lines start with \x01
        let mut delivered: Vec<Vec<u8>> = Vec::new();
        let mut counts: Vec<u64> = Vec::new();
        let mut ended = None;
        for l in stdout.split('\n') {
            if let Some(m) = l.strip_prefix('\u{1}') {
                if m == "R" || m == "S" { counts.push(delivered.len() as u64); }
                if let Some(e) = m.strip_prefix("END ") { ended = Some(e.to_string()); }
            } else if !l.is_empty() {
                match serde_json::from_str::<J>(l) {
                    Ok(v) => delivered.push(v["x"].as_str().unwrap_or("\u{0}?").as_bytes().to_vec()),
                    Err(_) => delivered.push(format!("\u{0}unparsable:{}", l).into_bytes())
                }
            }
        }
        let exp_delivered: Vec<Vec<u8>> = case["delivered"].as_array().unwrap().iter().map(|l| String::from_utf8_lossy(&bytes_of(l)).into_owned().into_bytes()).collect();
        let exp_counts: Vec<u64> = parse_hist(case).iter().filter(|(e, _)| e == "R" || e == "S").map(|(_, n)| *n).collect();
        // the run ends by itself when the iterator fails (a listed deviation) or when the executor meets the cleared flag (halted)
        let exp_failed = case["failed"].as_bool().unwrap() || case["halted"].as_bool().unwrap_or(false);
        let stopped = stdout.contains("\u{1}S");
        let observed = json!({"delivered": delivered.iter().map(|l| jbytes(l)).collect::<Vec<_>>(), "counts": counts,
                              "ended": ended, "status": out.status.code(), "stopped_by_hook": stopped});
        let ok = delivered == exp_delivered && counts == exp_counts && ended.as_deref() == Some("ok")
            && stopped == !exp_failed && out.status.code() == Some(0);
        if !ok {
            rep.mismatch(case, json!({"delivered": case["delivered"], "counts": exp_counts, "failed": exp_failed}), observed,
                         "FollowFileExecutor differs from Follow.tla");
        } else {
            if case["failed"].as_bool().unwrap() { rep.dev_witness("FollowUtf8Split", case); }
            if case["halted"].as_bool().unwrap_or(false) { rep.count("halted_by_interrupt"); }
            rep.ok(case, case.to_string(), !exp_delivered.is_empty());
        }
    }
    rep.finish()
}

// ---------------------------------------------------------------------------------------------
// impl -> spec: a real writer thread races the real iterator; the recorded trace is validated by
// Trace_Follow.tla. Only schedule-independent facts are in the trace: the bytes appended (in order),
// the lines delivered (in order) and, for each delivery, how many bytes had been appended at most
// when it was observed.

pub fn trace(seed: u64, n: usize) -> Vec<J> {
    use rand::{Rng, SeedableRng};
    use std::sync::atomic::{AtomicBool, AtomicUsize, Ordering};
    use std::sync::Arc;
    let mut rng = rand::rngs::StdRng::seed_from_u64(seed);
    let dir = scratch();
    let mut events = Vec::new();
    let alphabet: Vec<&str> = vec!["a", "b", "\n", "\r", "é", "\n", "x", "€", "😀", " "];
    for run in 0..n {
        let path = dir.join(format!("race{}.log", run));
        let len = rng.gen_range(0..40);
        let mut content = String::new();
        for _ in 0..len { content.push_str(alphabet[rng.gen_range(0..alphabet.len())]); }
        let content = content.into_bytes();
        // pre on a character boundary
        let mut pre = if content.is_empty() { 0 } else { rng.gen_range(0..=content.len()) };
        while pre > 0 && pre < content.len() && (content[pre] & 0xC0) == 0x80 { pre -= 1; }
        let head = rng.gen_bool(0.5);
        let cap = [1usize, 2, 3, 5, 8, 64, 8192][rng.gen_range(0..7)];
        std::fs::write(&path, &content[..pre]).unwrap();
        let mut reader = BufReader::with_capacity(cap, File::open(&path).unwrap());
        if head { reader.seek(SeekFrom::Start(0)).unwrap(); } else { reader.seek(SeekFrom::End(0)).unwrap(); }

        // chunking decided up front; the writer thread sleeps random microseconds between appends
        let mut chunks = Vec::new();
        let mut w = pre;
        while w < content.len() { let k = rng.gen_range(1..=std::cmp::min(4, content.len() - w)); chunks.push(k); w += k; }
        // a pause is a sleep of up to 300 microseconds or -- for two appends in a row -- a spin of a few hundred nanoseconds to a few microseconds (encoded as
        // 1000000 + iterations): the second append then falls right behind the read that consumed the first one, where a reader that has just seen the
        // end of the file is most likely to be between two of its steps
        let pauses: Vec<u64> = chunks.iter().map(|_| if rng.gen_bool(0.5) { 1_000_000 + rng.gen_range(0..3000) } else { rng.gen_range(0..300) }).collect();
        let done = Arc::new(AtomicBool::new(false));
        let written = Arc::new(AtomicUsize::new(pre));
        let (d2, w2, c2, p2, ch2) = (done.clone(), written.clone(), content.clone(), path.clone(), chunks.clone());
        let writer = std::thread::spawn(move || {
            let mut f = OpenOptions::new().append(true).open(&p2).unwrap();
            let mut w = w2.load(Ordering::SeqCst);
            for (k, pause) in ch2.iter().zip(pauses.iter()) {
                if *pause >= 1_000_000 { for i in 0..(*pause - 1_000_000) { std::hint::black_box(i); } } else { std::thread::sleep(std::time::Duration::from_micros(*pause)); }
                // publish the new length before the bytes become visible: an upper bound for the reader
                w2.store(w + k, Ordering::SeqCst);
                f.write_all(&c2[w..w + k]).unwrap();
                w += k;
            }
            d2.store(true, Ordering::SeqCst);
        });

        // the reader runs in this thread; at each retry it stops once the writer is done and one
        // further full poll has seen nothing new
        let polls_after_done = Rc::new(RefCell::new(0u32));
        let pad = polls_after_done.clone();
        let d3 = done.clone();
        verif_hooks::install(Hooks {
            follow_retry: Some(Box::new(move || {
                if d3.load(Ordering::SeqCst) {
                    *pad.borrow_mut() += 1;
                    if *pad.borrow() >= 2 { return FollowAction::Stop; }
                }
                FollowAction::Continue
            })),
            batch_line: None, join_line: None
        });
        events.push(json!({"ev": "start", "run": run, "content": jbytes(&content), "pre": pre, "head": head, "cap": cap, "chunks": chunks}));
        let mut ndeliv = 0;
        let r = std::panic::catch_unwind(std::panic::AssertUnwindSafe(|| {
            let mut out = Vec::new();
            for item in FollowFileIterator::new(reader) {
                let upper = written.load(Ordering::SeqCst);
                out.push(json!({"ev": "deliver", "run": run, "line": jbytes(item.as_bytes()), "upper": upper}));
            }
            out
        }));
        verif_hooks::clear();
        writer.join().unwrap();
        match r {
            Ok(out) => { ndeliv += out.len(); events.extend(out); events.push(json!({"ev": "end", "run": run, "how": if *polls_after_done.borrow() >= 2 { "quiescent" } else { "failed" }, "n": ndeliv})); }
            Err(_) => events.push(json!({"ev": "end", "run": run, "how": "panic", "n": 0}))
        }
        tick(&json!({"run": run}));
        let _ = std::fs::remove_file(&path);
    }
    cleanup_scratch();
    events
}


// ---------------------------------------------------------------------------------------------
// Engine.tla, mode "follow": statements through the real FollowFileExecutor (child process, stdout captured).
// All lines are in the file from the start (--head); the hook stops the executor at the first retry.
pub fn replay_engine_follow(cases: &[J]) -> J {
    let mut rep = Report::new("engine-follow");
    let exe = std::env::current_exe().unwrap();
    for case in cases {
        tick(case);
        let lines: Vec<&J> = case["files"].as_array().unwrap().iter().flat_map(|f| f.as_array().unwrap().iter()).collect();
        // the followed file starts with a line that is no row and not valid UTF-8 (invisible to every statement: C06), and the reader polls
        // the end of the file twice before the observation ends: whatever bookkeeping the reader does, nothing is delivered again
        let mut content: Vec<u8> = b"###\xff\xe9###\n".to_vec();
        for l in &lines { content.extend(crate::sql::line_text(l).into_bytes()); content.push(b'\n'); }
        let query = crate::sql::statement(&case["q"], "");
        let child_case = json!({"content": jbytes(&content), "pre": content.len(), "head": true, "cap": 8192, "hist": [{"e": "R", "n": 0}, {"e": "R", "n": 0}, {"e": "S", "n": 0}],
                                "delivered": [], "failed": false, "tdef": case["tdef"], "query": query});
        let out = std::process::Command::new(&exe).env("TZ", "UTC").arg("follow-child").arg(child_case.to_string()).output().unwrap();
        let stdout = String::from_utf8_lossy(&out.stdout).to_string();
        let ended_ok = stdout.contains("\u{1}END ok");
        let ended_err = stdout.contains("\u{1}END err");
        // tables of an aggregate statement are preceded by the clear-screen escape
        let is_agg = case["q"]["kind"] == "agg";
        // the clear-screen escape is printed without a line break: make it a line of its own, then drop the marker lines
        let cleaned = stdout.replace("\u{1b}[2J\u{1b}[1;1H", "\n\u{2}\n");
        let body: String = cleaned.lines().filter(|l| !l.starts_with('\u{1}')).collect::<Vec<_>>().join("\n");
        let chunks: Vec<&str> = if is_agg { body.split('\u{2}').skip(1).collect() } else { vec![body.as_str()] };
        let decode = |chunk: &str| -> Vec<J> { chunk.lines().filter(|l| !l.trim().is_empty() && *l != "\u{2}").map(|l| serde_json::from_str::<J>(l).unwrap_or(json!({"unparsable": l}))).collect() };
        let observed_tables: Vec<Vec<J>> = chunks.iter().map(|c| decode(c)).collect();
        // expected: the steps that show something
        let steps = case["steps"].as_array().unwrap();
        let exp_status = case["status"].as_str().unwrap();
        let names: Vec<&str> = case["cols"].as_array().unwrap().iter().map(|c| c.as_str().unwrap()).collect();
        let to_recs = |rows: &J| -> Option<Vec<J>> {
            let mut v = Vec::new();
            for r in rows.as_array().unwrap() { let mut m = serde_json::Map::new(); for (i, x) in r.as_array().unwrap().iter().enumerate() { m.insert(names[i].to_string(), crate::val::expected_json(x)?); } v.push(J::Object(m)); }
            Some(v)
        };
        let eq = |a: &Vec<J>, b: &Vec<J>| a.len() == b.len() && a.iter().zip(b.iter()).all(|(x, y)| match (x.as_object(), y.as_object()) {
            (Some(x), Some(y)) => x.len() == y.len() && x.iter().zip(y.iter()).all(|((k1, v1), (k2, v2))| k1 == k2 && crate::val::json_eq(v1, v2)), _ => false });
        let mut ok = out.status.code() == Some(0);
        let mut why = String::new();
        // C07: a statement whose LIMIT is complete ends there -- it does not go back to the file for a further line (which may never come)
        let polled = stdout.contains("\u{1}R") || stdout.contains("\u{1}S") || String::from_utf8_lossy(&out.stderr).contains("UNSCHEDULED");
        if case["bylimit"].as_bool() == Some(true) && exp_status == "ok" && polled { ok = false; why = "the executor waited for further input after its LIMIT was complete".into(); }
        if exp_status == "unk" { ok = ok && (ended_ok || ended_err); }
        else {
            if exp_status == "ok" && !ended_ok { ok = false; why = "executor did not end with Ok".into(); }
            if exp_status == "err" && !ended_err { ok = false; why = "executor did not report the error".into(); }
            if is_agg {
                let exp_tables: Vec<Vec<J>> = steps.iter().filter(|s| s["st"] == "ok").filter_map(|s| to_recs(&s["recs"])).collect();
                if exp_tables.len() != observed_tables.len() || !exp_tables.iter().zip(observed_tables.iter()).all(|(a, b)| eq(b, a)) { ok = false; why = "tables differ".into(); }
            } else {
                let exp_flat: Vec<J> = to_recs(&case["printed"]).unwrap_or_default();
                if !eq(&observed_tables[0], &exp_flat) { ok = false; why = "records differ".into(); }
            }
        }
        if ok { rep.ok(case, case.to_string(), !case["printed"].as_array().unwrap().is_empty() || steps.iter().any(|s| !s["recs"].as_array().unwrap().is_empty())); }
        else { rep.mismatch(case, json!({"steps": steps, "printed": case["printed"], "status": exp_status}), json!({"tables": observed_tables, "why": why, "query": query, "exit": out.status.code()}),
                            "FollowFileExecutor differs from Engine.tla (mode follow)"); }
    }
    rep.finish()
}
