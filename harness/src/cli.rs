//! Binding of spec/Cli.tla to the real `sqlgrep` binary: every behaviour of the model is one invocation of the
//! process (definition file, input files in command-line order, FROM t::'file', --stdin, --format, -c / --command-file,
//! --show-run-stats); stdout is compared line by line with the model's output, the exit status too.
use crate::common::*;
use crate::val::*;
use serde_json::{json, Value as J};
use std::io::Write;
use std::process::{Command, Stdio};

fn cli() -> String { std::env::var("VH_CLI").unwrap_or_else(|_| "/verif/build/cli/debug/sqlgrep".to_string()) }

struct World { dir: std::path::PathBuf }

impl World {
    fn new() -> World {
        let dir = scratch();
        std::fs::write(dir.join("fa.txt"), "a1\na2\n").unwrap();
        std::fs::write(dir.join("fb.txt"), "b1\n").unwrap();
        std::fs::write(dir.join("fc.txt"), "c1\nc2").unwrap();            // the last line has no line break
        std::fs::write(dir.join("fe.txt"), "").unwrap();
        std::fs::write(dir.join("defs_ok.txt"), "CREATE TABLE t(line = '(.*)', line[1] => x TEXT);\n").unwrap();
        std::fs::write(dir.join("defs_two.txt"), "CREATE TABLE t(line = '(.*)', line[1] => x TEXT);\nCREATE TABLE u(l2 = '(.)', l2[1] => y TEXT);\n").unwrap();
        std::fs::write(dir.join("defs_bad.txt"), "CREATE TABLE t(line = ").unwrap();
        World { dir }
    }
    fn path(&self, id: &str) -> String { self.dir.join(format!("{}.txt", id)).to_str().unwrap().to_string() }
    fn query(&self, q: &str) -> String {
        match q {
            "all" => "SELECT x FROM t".into(),
            "count" => "SELECT COUNT(*) AS n FROM t".into(),
            "limit1" => "SELECT x FROM t LIMIT 1".into(),
            "from" => format!("SELECT x FROM t::'{}'", self.path("fc")),
            "frommissing" => format!("SELECT x FROM t::'{}'", self.path("missing")),
            "parsebad" => "SELEC x FROM t".into(),
            "notable" => "SELECT x FROM nosuch".into(),
            "create" => "CREATE TABLE w(l3 = 'q', l3[1] => z TEXT);".into(),
            "second" => "SELECT y FROM u".into(),
            o => panic!("query kind {}", o)
        }
    }
}

fn name_of(cps: &J) -> String { cps.as_array().unwrap().iter().map(|c| char::from_u32(c.as_u64().unwrap() as u32).unwrap()).collect() }

/// does the printed line carry the model's output item?
fn line_matches(item: &J, line: &str, format: &str, col: &str) -> bool {
    match item["k"].as_str().unwrap() {
        "msg" => match item["m"].as_str().unwrap() {
            "deferr" => line.starts_with("Failed to create table:"),
            "parseerr" => line.starts_with("Failed parsing input:"),
            "nofile" => line == "The input filename must be defined.",
            "openerr" => line.contains("os error"),
            "execerr" => line.starts_with("Execution error:"),
            _ => false
        },
        "stats" => {
            let want = format!("processed {} lines.", item["n"].as_u64().unwrap());
            line.starts_with("Executed query in") && line.ends_with(&want)
        }
        "hdr" => line == col,
        "rec" => {
            let v = &item["row"][0];
            match format {
                "json" => match (serde_json::from_str::<J>(line), expected_json(v)) {
                    (Ok(J::Object(m)), Some(e)) => m.len() == 1 && m.get(col).map(|o| json_eq(o, &e)).unwrap_or(false),
                    _ => false
                },
                "csv" => line == concretise(v).to_string(),
                _ => line == format!("{}: {}", col, concretise(v)),
            }
        }
        _ => false
    }
}

pub fn replay(cases: &[J]) -> J {
    let w = World::new();
    let mut rep = Report::new("cli");
    for case in cases {
        tick(case);
        let mut args: Vec<String> = Vec::new();
        match case["defs"].as_str().unwrap() { "none" => {}, d => { args.push("-d".into()); args.push(w.dir.join(format!("defs_{}.txt", d)).to_str().unwrap().to_string()); } }
        for f in case["files"].as_array().unwrap() { args.push(w.path(f.as_str().unwrap())); }
        let q = w.query(case["query"].as_str().unwrap());
        if case["cmdsrc"] == "file" {
            let p = w.dir.join("cmd.sql"); std::fs::write(&p, &q).unwrap();
            args.push("--command-file".into()); args.push(p.to_str().unwrap().to_string());
        } else { args.push("-c".into()); args.push(q.clone()); }
        let format = case["format"].as_str().unwrap();
        args.push("--format".into()); args.push(format.into());
        if case["stats"] == true { args.push("--show-run-stats".into()); }
        let use_stdin = case["stdin"] == true;
        if use_stdin { args.push("--stdin".into()); }
        let mut cmd = Command::new(cli());
        cmd.env("TZ", "UTC").env_remove("RUST_BACKTRACE").args(&args).stdout(Stdio::piped()).stderr(Stdio::piped())
           .stdin(if use_stdin { Stdio::piped() } else { Stdio::null() });
        let mut child = cmd.spawn().unwrap();
        if use_stdin { let mut si = child.stdin.take().unwrap(); let _ = si.write_all(b"z1\nz2\nz3\n"); drop(si); }
        let o = child.wait_with_output().unwrap();
        let stdout = String::from_utf8_lossy(&o.stdout).to_string();
        let lines: Vec<&str> = stdout.lines().collect();
        let col = name_of(&case["col"]);
        let exp = case["out"].as_array().unwrap();
        let exit_ok = o.status.code() == Some(case["exit"].as_i64().unwrap() as i32);
        let crashed = o.status.code().map(|c| c == 101).unwrap_or(true) || String::from_utf8_lossy(&o.stderr).contains("panicked");
        let same = lines.len() == exp.len() && exp.iter().zip(lines.iter()).all(|(e, l)| line_matches(e, l, format, &col));
        if exit_ok && !crashed && same {
            rep.count(&format!("query_{}", case["query"].as_str().unwrap()));
            let key = format!("{}|{}|{}|{}|{}|{}|{}", case["files"], case["query"], case["defs"], format, case["stdin"], case["stats"], case["cmdsrc"]);
            rep.ok(case, key, exp.iter().any(|e| e["k"] == "rec"));
        } else {
            rep.mismatch(case, json!({"stdout": exp, "exit": case["exit"]}),
                         json!({"args": args, "stdout": lines, "exit": o.status.code(), "crashed": crashed, "stderr": String::from_utf8_lossy(&o.stderr).chars().take(300).collect::<String>()}),
                         "the sqlgrep process differs from Cli.tla");
        }
    }
    cleanup_scratch();
    rep.finish()
}
