//! Binding of spec/Cli.tla to the real `sqlgrep` binary: every behaviour of the model is one invocation of the
//! process (definition file, input files in command-line order, FROM t::'file', --stdin, --format, -c / --command-file,
//! --show-run-stats); stdout is compared line by line with the model's output, the exit status too.
use crate::common::*;
use crate::val::*;
use serde_json::{json, Value as J};
use std::io::Write;
use std::process::{Command, Stdio};

fn cli() -> String { std::env::var("VH_CLI").unwrap_or_else(|_| "/verif/build/cli/debug/sqlgrep".to_string()) }

struct World { dir: std::path::PathBuf }

impl World {
    fn new() -> World {
        let dir = scratch();
        std::fs::write(dir.join("fa.txt"), "a1\na2\n").unwrap();
        std::fs::write(dir.join("fb.txt"), "b1\n").unwrap();
        std::fs::write(dir.join("fc.txt"), "c1\nc2").unwrap();            // the last line has no line break
        std::fs::write(dir.join("fe.txt"), "").unwrap();
        std::fs::create_dir_all(dir.join("dir.txt")).unwrap();        // opens, but every read fails (EISDIR)
        std::fs::write(dir.join("defs_ok.txt"), "CREATE TABLE t(line = '(.*)', line[1] => x TEXT);\n").unwrap();
        std::fs::write(dir.join("defs_two.txt"), "CREATE TABLE t(line = '(.*)', line[1] => x TEXT);\nCREATE TABLE u(l2 = '(.)', l2[1] => y TEXT);\n").unwrap();
        std::fs::write(dir.join("defs_bad.txt"), "CREATE TABLE t(line = ").unwrap();
        std::fs::write(dir.join("defs_twobad.txt"), "CREATE TABLE t(line = '(.*)', line[1] => x TEXT);\nCREATE TABLE u(l2 = '(', l2[1] => y TEXT);\n").unwrap();
        std::fs::write(dir.join("defs_nosemi.txt"), "CREATE TABLE t(line = '(.*)', line[1] => x TEXT)\n").unwrap();
        std::fs::write(dir.join("defs_session.txt"), "CREATE TABLE t(line = '(.*)', line[1] => x TEXT);\nCREATE TABLE j(l4 = '^(..)=(.)$', l4[1] => x TEXT, l4[2] => y TEXT);\n").unwrap();
        std::fs::write(dir.join("fj.txt"), "a1=p\na1=q\nb1=r\n").unwrap();
        World { dir }
    }
    fn path(&self, id: &str) -> String { self.dir.join(format!("{}.txt", id)).to_str().unwrap().to_string() }
    fn query(&self, q: &str) -> String {
        match q {
            "all" => "SELECT x FROM t".into(),
            "count" => "SELECT COUNT(*) AS n FROM t".into(),
            "limit1" => "SELECT x FROM t LIMIT 1".into(),
            "limit2" => "SELECT x FROM t LIMIT 2".into(),
            "from" => format!("SELECT x FROM t::'{}'", self.path("fc")),
            "frommissing" => format!("SELECT x FROM t::'{}'", self.path("missing")),
            "parsebad" => "SELEC x FROM t".into(),
            "parsetrunc" => "SELECT x FROM\n".into(),
            "parsetrunc2" => "SELECT x FROM t WHERE\n\n".into(),
            "commentsemi" => "SELECT x -- first; column\nFROM t -- all; of them\nLIMIT 1".into(),
            "trailnl" => "SELECT x FROM t LIMIT 2;\n".into(),
            "notable" => "SELECT x FROM nosuch".into(),
            "create" => "CREATE TABLE w(l3 = 'q', l3[1] => z TEXT);".into(),
            "second" => "SELECT y FROM u".into(),
            o => panic!("query kind {}", o)
        }
    }
}

fn name_of(cps: &J) -> String { cps.as_array().unwrap().iter().map(|c| char::from_u32(c.as_u64().unwrap() as u32).unwrap()).collect() }

/// does the printed line carry the model's output item?
fn line_matches(item: &J, line: &str, format: &str, col: &str) -> bool {
    match item["k"].as_str().unwrap() {
        "msg" => match item["m"].as_str().unwrap() {
            "deferr" => line.starts_with("Failed to create table:"),
            "parseerr" => line.starts_with("Failed parsing input:"),
            "nofile" => line == "The input filename must be defined.",
            "openerr" => line.contains("os error"),
            "execerr" => line.starts_with("Execution error:"),
            _ => false
        },
        "stats" => {
            let want = format!("processed {} lines.", item["n"].as_u64().unwrap());
            line.starts_with("Executed query in") && line.ends_with(&want)
        }
        "hdr" => line == col,
        "rec" => {
            let v = &item["row"][0];
            match format {
                "json" => match (serde_json::from_str::<J>(line), expected_json(v)) {
                    (Ok(J::Object(m)), Some(e)) => m.len() == 1 && m.get(col).map(|o| json_eq(o, &e)).unwrap_or(false),
                    _ => false
                },
                "csv" => line == concretise(v).to_string(),
                _ => line == format!("{}: {}", col, concretise(v)),
            }
        }
        _ => false
    }
}

pub fn replay(cases: &[J]) -> J {
    let w = World::new();
    let mut rep = Report::new("cli");
    for case in cases {
        tick(case);
        let mut args: Vec<String> = Vec::new();
        match case["defs"].as_str().unwrap() { "none" => {}, d => { args.push("-d".into()); args.push(w.dir.join(format!("defs_{}.txt", d)).to_str().unwrap().to_string()); } }
        for f in case["files"].as_array().unwrap() { args.push(w.path(f.as_str().unwrap())); }
        let q = w.query(case["query"].as_str().unwrap());
        if case["cmdsrc"] == "file" {
            let p = w.dir.join("cmd.sql"); std::fs::write(&p, &q).unwrap();
            args.push("--command-file".into()); args.push(p.to_str().unwrap().to_string());
        } else { args.push("-c".into()); args.push(q.clone()); }
        let format = case["format"].as_str().unwrap();
        args.push("--format".into()); args.push(format.into());
        if case["stats"] == true { args.push("--show-run-stats".into()); }
        if case["follow"] == true { args.push("-f".into()); args.push("--head".into()); }
        let use_stdin = case["stdin"] == true;
        if use_stdin { args.push("--stdin".into()); }
        let mut cmd = Command::new(cli());
        cmd.env("TZ", "UTC").env_remove("RUST_BACKTRACE").args(&args).stdout(Stdio::piped()).stderr(Stdio::piped())
           .stdin(if use_stdin { Stdio::piped() } else { Stdio::null() });
        let mut child = cmd.spawn().unwrap();
        if use_stdin { let mut si = child.stdin.take().unwrap(); let _ = si.write_all(b"z1\nz2\nz3\n"); drop(si); }
        let o = child.wait_with_output().unwrap();
        let stdout = String::from_utf8_lossy(&o.stdout).to_string();
        let lines: Vec<&str> = stdout.lines().collect();
        let col = name_of(&case["col"]);
        let exp = case["out"].as_array().unwrap();
        let exit_ok = o.status.code() == Some(case["exit"].as_i64().unwrap() as i32);
        let crashed = o.status.code().map(|c| c == 101).unwrap_or(true) || String::from_utf8_lossy(&o.stderr).contains("panicked");
        let same = lines.len() == exp.len() && exp.iter().zip(lines.iter()).all(|(e, l)| line_matches(e, l, format, &col));
        if exit_ok && !crashed && same {
            rep.count(&format!("query_{}", case["query"].as_str().unwrap()));
            let key = format!("{}|{}|{}|{}|{}|{}|{}|{}", case["files"], case["query"], case["defs"], format, case["stdin"], case["stats"], case["cmdsrc"], case["follow"]);
            rep.ok(case, key, exp.iter().any(|e| e["k"] == "rec"));
        } else {
            rep.mismatch(case, json!({"stdout": exp, "exit": case["exit"]}),
                         json!({"args": args, "stdout": lines, "exit": o.status.code(), "crashed": crashed, "stderr": String::from_utf8_lossy(&o.stderr).chars().take(300).collect::<String>()}),
                         "the sqlgrep process differs from Cli.tla");
        }
    }
    cleanup_scratch();
    rep.finish()
}

/// C19 at the level of the process: a real SIGINT while the binary runs a query over a long file (impl -> spec, Trace_Sigint.tla)
pub fn trace_sigint(seed: u64, n: usize) -> Vec<J> {
    use rand::{Rng, SeedableRng};
    use std::io::{BufRead, BufReader};
    let mut rng = rand::rngs::StdRng::seed_from_u64(seed);
    let dir = scratch();
    let total: u64 = 300_000;
    let data = dir.join("long.txt");
    { let mut s = String::with_capacity(6_000_000); for i in 1..=total { s.push_str(&format!("k=a v={}\n", i)); } std::fs::write(&data, s).unwrap(); }
    let defs = dir.join("defs.txt");
    std::fs::write(&defs, "CREATE TABLE t(line = 'k=([a-z]+) v=([0-9]+)', line[1] => k TEXT, line[2] => v INT);\n").unwrap();
    // a joined file in which the key of every input line has FAN partners: an aggregate over the join, interrupted in the middle of a line,
    // still shows the table of whole lines (COUNT(*) = FAN x lines processed)
    const FAN: u64 = 400;
    let joined = dir.join("fan.txt");
    { let mut s = String::new(); for j in 0..FAN { s.push_str(&format!("k=a v={}\n", j)); } std::fs::write(&joined, s).unwrap(); }
    std::fs::write(&defs, "CREATE TABLE t(line = 'k=([a-z]+) v=([0-9]+)', line[1] => k TEXT, line[2] => v INT);\nCREATE TABLE u(jl = 'k=([a-z]+) v=([0-9]+)', jl[1] => k TEXT, jl[2] => w INT);\n").unwrap();
    let join_query = format!("SELECT COUNT(*) AS n, MAX(v) AS m FROM t INNER JOIN u::'{}' ON t.k = u.k", joined.to_str().unwrap());
    let mut ev = Vec::new();
    // a long joined file (2 500 000 lines, about 27 MB): an interrupt WHILE IT IS BEING LOADED ends the run at once -- at most ten more of its lines are read
    // (observed as the read offset of the joined file in /proc/<pid>/fdinfo: it stops within a few read-ahead buffers of where it stood when the signal was sent),
    // nothing is printed, no input line is processed, no error, status 0
    let longjoin = dir.join("longjoin.txt");
    { let mut s = String::with_capacity(30_000_000); for j in 0..2_500_000u64 { s.push_str(&format!("k=b v={}\n", j % 1000)); } std::fs::write(&longjoin, s).unwrap(); }
    let longjoin_size = std::fs::metadata(&longjoin).unwrap().len();
    for i in 0..std::cmp::max(1, n / 5) {
        let query = if i % 2 == 0 { format!("SELECT v, w FROM t INNER JOIN u::'{}' ON t.k = u.k", longjoin.to_str().unwrap()) }
                    else { format!("SELECT COUNT(*) AS n FROM t OUTER JOIN u::'{}' ON t.k = u.k", longjoin.to_str().unwrap()) };
        tick(&json!({"joinload": i}));
        let mut child = Command::new(cli()).env("TZ", "UTC").env_remove("RUST_BACKTRACE")
            .args(["-d", defs.to_str().unwrap(), data.to_str().unwrap(), "--show-run-stats", "-c", &query])
            .stdin(Stdio::null()).stdout(Stdio::piped()).stderr(Stdio::piped()).spawn().unwrap();
        let pid = child.id().to_string();
        let pos_of = |pid: &str| -> Option<u64> {
            let rd = std::fs::read_dir(format!("/proc/{}/fd", pid)).ok()?;
            for e in rd.flatten() {
                if std::fs::read_link(e.path()).map(|p| p == longjoin).unwrap_or(false) {
                    let info = std::fs::read_to_string(format!("/proc/{}/fdinfo/{}", pid, e.file_name().to_string_lossy())).ok()?;
                    return info.lines().find_map(|l| l.strip_prefix("pos:").map(|x| x.trim().parse().unwrap_or(0)));
                }
            }
            None
        };
        // wait until the load is under way (some hundred KB in), then interrupt
        let want = 200_000 + rng.gen_range(0..2_000_000u64);
        let t0 = std::time::Instant::now();
        let mut at_signal = 0u64;
        while t0.elapsed().as_secs() < 30 { if let Some(p) = pos_of(&pid) { at_signal = p; if p >= want { break; } } std::thread::sleep(std::time::Duration::from_micros(200)); }
        let _ = Command::new("kill").args(["-INT", &pid]).status();
        let t1 = std::time::Instant::now();
        let mut last = at_signal;
        loop {
            if let Some(p) = pos_of(&pid) { if p > last { last = p; } }
            if let Ok(Some(_)) = child.try_wait() { break; }
            if t1.elapsed().as_secs() > 60 { let _ = child.kill(); break; }
            std::thread::sleep(std::time::Duration::from_micros(200));
        }
        let status = child.wait().unwrap();
        let mut out = String::new(); let mut stderr = String::new();
        { use std::io::Read; if let Some(mut o) = child.stdout.take() { let _ = o.read_to_string(&mut out); } if let Some(mut e) = child.stderr.take() { let _ = e.read_to_string(&mut stderr); } }
        let lines: Vec<&str> = out.lines().collect();
        let err = lines.iter().any(|l| l.starts_with("Execution error") || l.starts_with("Failed")) || stderr.contains("panicked");
        let processed: u64 = lines.iter().rev().find(|l| l.starts_with("Executed query in"))
            .and_then(|l| l.rsplit("processed ").next().and_then(|t| t.split(' ').next()).and_then(|t| t.parse().ok())).unwrap_or(u64::MAX >> 40);
        let recs = lines.iter().filter(|l| !l.starts_with("Executed query in") && !l.is_empty()).count();
        ev.push(json!({"ev": "sigint", "kind": "joinload", "exit": status.code().unwrap_or(255), "err": err, "records": recs, "processed": processed,
                       "kb_at_signal": at_signal / 1024, "kb_last": last / 1024, "kb_size": longjoin_size / 1024, "ms_to_exit": t1.elapsed().as_millis() as u64, "agg": i % 2 == 1}));
    }
    for i in 0..n {
        let agg = i % 2 == 1;
        let fan = if agg && i % 4 == 3 { FAN } else { 1 };
        tick(&json!({"i": i, "agg": agg, "fan": fan}));
        let query: &str = if fan > 1 { &join_query } else if agg { "SELECT COUNT(*) AS n, MAX(v) AS m FROM t" } else { "SELECT v FROM t" };
        let mut child = Command::new(cli()).env("TZ", "UTC").env_remove("RUST_BACKTRACE")
            .args(["-d", defs.to_str().unwrap(), data.to_str().unwrap(), "--show-run-stats", "-c", query])
            .stdin(Stdio::null()).stdout(Stdio::piped()).stderr(Stdio::piped()).spawn().unwrap();
        let pid = child.id().to_string();
        let mut reader = BufReader::new(child.stdout.take().unwrap());
        let mut lines: Vec<String> = Vec::new();
        let before: u64 = if agg { 0 } else { rng.gen_range(1..2000) };
        if agg {
            // wait until the process is reading the input file (its offset in /proc/<pid>/fdinfo has moved): from then on the query is running
            let t0 = std::time::Instant::now();
            'wait: while t0.elapsed().as_secs() < 20 {
                if let Ok(rd) = std::fs::read_dir(format!("/proc/{}/fd", pid)) {
                    for e in rd.flatten() {
                        if std::fs::read_link(e.path()).map(|p| p == data).unwrap_or(false) {
                            let info = std::fs::read_to_string(format!("/proc/{}/fdinfo/{}", pid, e.file_name().to_string_lossy())).unwrap_or_default();
                            let pos: u64 = info.lines().find_map(|l| l.strip_prefix("pos:").map(|x| x.trim().parse().unwrap_or(0))).unwrap_or(0);
                            if pos > 0 { break 'wait; }
                        }
                    }
                } else { break; }
                std::thread::sleep(std::time::Duration::from_millis(1));
            }
            std::thread::sleep(std::time::Duration::from_millis(rng.gen_range(0..60)));
        } else {
            let mut buf = String::new();
            while (lines.len() as u64) < before { buf.clear(); if reader.read_line(&mut buf).unwrap_or(0) == 0 { break; } lines.push(buf.trim_end().to_string()); }
        }
        let _ = Command::new("kill").args(["-INT", &pid]).status();
        let mut buf = String::new();
        loop { buf.clear(); if reader.read_line(&mut buf).unwrap_or(0) == 0 { break; } lines.push(buf.trim_end().to_string()); }
        let status = child.wait().unwrap();
        let mut stderr = String::new();
        if let Some(mut e) = child.stderr.take() { use std::io::Read; let _ = e.read_to_string(&mut stderr); }
        let err = lines.iter().any(|l| l.starts_with("Execution error") || l.starts_with("Failed")) || stderr.contains("panicked");
        let processed: u64 = lines.iter().rev().find(|l| l.starts_with("Executed query in"))
            .and_then(|l| l.rsplit("processed ").next().and_then(|t| t.split(' ').next()).and_then(|t| t.parse().ok())).unwrap_or(u64::MAX >> 40);
        let recs: Vec<&String> = lines.iter().filter(|l| !l.starts_with("Executed query in")).collect();
        let exit = status.code().unwrap_or(255) as u64;
        if agg {
            let (mut nn, mut mm) = (0u64, 0u64);
            if recs.len() == 1 {
                for part in recs[0].split(", ") { if let Some(x) = part.strip_prefix("n: ") { nn = x.parse().unwrap_or(0); } if let Some(x) = part.strip_prefix("m: ") { mm = x.parse().unwrap_or(0); } }
            }
            // with a join of fan-out FAN every processed line contributes FAN rows: n must be a whole multiple
            let nn = if fan > 1 { if nn % fan == 0 { nn / fan } else { 0 } } else { nn };
            ev.push(json!({"ev": "sigint", "kind": "agg", "fan": fan, "exit": exit, "err": err, "records": recs.len(), "n": nn, "m": mm, "processed": processed, "total": total,
                           "sample": recs.iter().take(2).collect::<Vec<_>>()}));
        } else {
            let prefix_ok = recs.iter().enumerate().all(|(j, l)| **l == format!("v: {}", j + 1));
            ev.push(json!({"ev": "sigint", "kind": "select", "exit": exit, "err": err, "prefix_ok": prefix_ok, "out": recs.len(), "before": before, "total": total, "processed": processed}));
        }
    }
    cleanup_scratch();
    ev
}

// ---------------------------------------------------------------------------------------------
// Session.tla: several statements / commands piped into one process (the interactive loop of main.rs)

fn session_line(c: &str, w: &World) -> String {
    if c == "join" { return format!("SELECT x, y FROM t INNER JOIN j::'{}' ON t.x = j.x;", w.path("fj")); }
    if c == "join2" { return format!("SELECT x, y FROM t INNER JOIN j::'{}' ON t.x = j.y;", w.path("fj")); }
    match c {
        "all" => "SELECT x FROM t;", "count" => "SELECT COUNT(*) AS n FROM t;", "group" => "SELECT x, COUNT(*) AS n FROM t GROUP BY x;",
        "limit1" => "SELECT x FROM t LIMIT 1;", "selw" => "SELECT z FROM w;", "dist" => "SELECT DISTINCT z FROM w;",
        "rea" => "SELECT x FROM t WHERE regex_matches(x, '^a');", "reb" => "SELECT x FROM t WHERE regex_matches(x, '^b');",
        "redefj" => "CREATE TABLE j(l4 = '^(..)=(.)$', l4[1] => x TEXT, l4[1] => y TEXT);",
        "createw" => "CREATE TABLE w(l3 = '(.)', l3[1] => z TEXT);", "bad" => "SELEC;", "exit" => "exit", "dt" => "\\d t", "dw" => "\\d w",
        o => panic!("session command {}", o)
    }.to_string()
}

fn session_item_matches(item: &J, line: &str, format: &str) -> bool {
    let names: Vec<String> = item["cols"].as_array().unwrap().iter().map(name_of).collect();
    match item["k"].as_str().unwrap() {
        "blank" => line.is_empty(),
        "hdr" => line == names.join(";"),
        "msg" => match item["m"].as_str().unwrap() {
            "parseerr" => line.starts_with("Failed parsing input:"),
            "execerr" => line.starts_with("Execution error:"),
            "nodef" => line.ends_with("is not a defined table."),
            "dt1" => line.contains("Column") && line.contains("Type") && line.contains("Nullable"),
            "dt2" => line.starts_with('-'),
            "dt3" => line.trim_start().starts_with("x ") && line.contains("text"),
            "dw3" => line.trim_start().starts_with("z ") && line.contains("text"),
            _ => false
        },
        "rec" => {
            let row = item["row"].as_array().unwrap();
            match format {
                "json" => match serde_json::from_str::<J>(line) {
                    Ok(J::Object(m)) => m.len() == row.len() && m.iter().zip(names.iter().zip(row.iter())).all(|((k, o), (n, v))| k == n && expected_json(v).map(|e| json_eq(o, &e)).unwrap_or(false)),
                    _ => false
                },
                "csv" => line == row.iter().map(|v| concretise(v).to_string()).collect::<Vec<_>>().join(";"),
                _ => line == names.iter().zip(row.iter()).map(|(n, v)| format!("{}: {}", n, concretise(v))).collect::<Vec<_>>().join(", ")
            }
        }
        _ => false
    }
}

pub fn replay_session(cases: &[J]) -> J {
    let w = World::new();
    let mut rep = Report::new("session");
    for case in cases {
        tick(case);
        let format = case["format"].as_str().unwrap();
        let mut input = String::new();
        for c in case["session"].as_array().unwrap() { input.push_str(&session_line(c.as_str().unwrap(), &w)); input.push('\n'); }
        let mut child = Command::new(cli()).env("TZ", "UTC").env_remove("RUST_BACKTRACE")
            .args(["-d", w.dir.join("defs_session.txt").to_str().unwrap(), &w.path("fa"), &w.path("fb"), "--format", format])
            .stdin(Stdio::piped()).stdout(Stdio::piped()).stderr(Stdio::piped()).spawn().unwrap();
        { let mut si = child.stdin.take().unwrap(); let _ = si.write_all(input.as_bytes()); }
        let o = child.wait_with_output().unwrap();
        let stdout = String::from_utf8_lossy(&o.stdout).to_string();
        let lines: Vec<&str> = stdout.split('\n').collect();
        let lines = if lines.last() == Some(&"") { &lines[..lines.len() - 1] } else { &lines[..] };
        let exp = case["out"].as_array().unwrap();
        let crashed = o.status.code() != Some(0) || String::from_utf8_lossy(&o.stderr).contains("panicked");
        let same = lines.len() == exp.len() && exp.iter().zip(lines.iter()).all(|(e, l)| session_item_matches(e, l, format));
        if same && !crashed {
            rep.ok(case, format!("{}|{}", case["session"], format), exp.iter().any(|e| e["k"] == "rec"));
        } else {
            rep.mismatch(case, json!({"stdout": exp}), json!({"input": input, "stdout": lines, "exit": o.status.code(), "stderr": String::from_utf8_lossy(&o.stderr).chars().take(300).collect::<String>()}),
                         "the interactive loop of the sqlgrep process differs from Session.tla");
        }
    }
    cleanup_scratch();
    rep.finish()
}
