//! impl -> spec (semantic) for Expr.tla: random typed expression trees evaluated by the real engine.
use crate::common::*;
use crate::engine::setup_tables;
use crate::sql;
use crate::val::*;
use rand::{Rng, SeedableRng};
use serde_json::{json, Value as J};
use sqlgrep::execution::execution_engine::{ExecutionConfig, ExecutionEngine};

type R = rand::rngs::StdRng;

fn pick<'a>(r: &mut R, xs: &[&'a str]) -> &'a str { xs[r.gen_range(0..xs.len())] }
fn lit(v: J) -> J { json!({"op": "lit", "v": v}) }
fn null() -> J { json!({"t": "null"}) }
fn int_lit(r: &mut R) -> J {
    let pool: [i64; 14] = [0, 1, -1, 2, 3, 7, -5, 10, 63, 64, 100, i64::MAX, i64::MIN, i64::MAX - 1];
    lit(jint(pool[r.gen_range(0..pool.len())]))
}
fn real_lit(r: &mut R) -> J { let pool = [0.0, 1.0, 1.5, -0.25, 2.5, 0.5, 3.0, -2.0, -0.0, 0.0]; lit(jreal(pool[r.gen_range(0..pool.len())])) }
fn text_lit(r: &mut R) -> J { let pool = ["", "a", "b", "aa", "Ab", "12", "-3", "1.5", "x y", "true", "é"]; lit(json!({"t": "text", "s": pool[r.gen_range(0..pool.len())].chars().map(|c| c as u32).collect::<Vec<_>>()})) }
fn bool_lit(r: &mut R) -> J { lit(json!({"t": "bool", "v": r.gen_bool(0.5)})) }

fn ts_lit(r: &mut R) -> J {
    let pool: [[i64; 7]; 7] = [[2021, 3, 4, 5, 6, 7, 0], [2021, 3, 4, 5, 6, 7, 500000], [2021, 3, 4, 5, 6, 7, 500001], [2020, 2, 29, 23, 59, 59, 0], [1999, 12, 31, 23, 59, 59, 999000],
                               [2021, 3, 28, 2, 30, 0, 0], [1970, 1, 1, 0, 0, 0, 0]];
    lit(json!({"t": "ts", "f": pool[r.gen_range(0..pool.len())]}))
}
fn iv_text(r: &mut R) -> J {
    let pool = ["1:30:00", "0:0:1", "24:00:00", "-1:0:0", "0:90:0", "100:0:0", "1:2", "x", "0:0:0"];
    json!({"op": "cast", "a": lit(json!({"t": "text", "s": pool[r.gen_range(0..pool.len())].chars().map(|c| c as u32).collect::<Vec<_>>()})), "ty": "interval"})
}
fn small_int(r: &mut R, lo: i64, hi: i64) -> J { lit(jint(r.gen_range(lo..=hi))) }
fn gen_ts(r: &mut R, d: u32) -> J {
    if d == 0 || r.gen_bool(0.3) { return if r.gen_bool(0.1) { lit(null()) } else { ts_lit(r) }; }
    match r.gen_range(0..7) {
        0 => json!({"op": "arith", "f": (pick(r, &["+", "-"])), "a": gen_ts(r, d - 1), "b": gen_iv(r, d - 1)}),
        1 => json!({"op": "arith", "f": "+", "a": gen_iv(r, d - 1), "b": gen_ts(r, d - 1)}),
        2 => { let part = pick(r, &["year", "month", "day", "hour", "minute", "second", "milliseconds", "week"]);
               json!({"op": "call", "f": "date_trunc", "args": [lit(json!({"t": "text", "s": part.chars().map(|c| c as u32).collect::<Vec<_>>()})), gen_ts(r, d - 1)]}) }
        3 => json!({"op": "call", "f": "make_timestamp", "args": [small_int(r, 2019, 2022), small_int(r, 0, 13), small_int(r, 0, 32), small_int(r, 0, 24), small_int(r, 0, 60), small_int(r, 0, 60), small_int(r, 0, 3)]}),
        4 => json!({"op": "call", "f": (pick(r, &["least", "greatest"])), "args": [gen_ts(r, d - 1), gen_ts(r, d - 1)]}),
        5 => { let t = pick(r, &["2021-03-04 05:06:07", "2021-02-30 00:00:00", "2021-03-04", "yesterday", "2020-02-29 23:59:59"]);
               json!({"op": "cast", "a": lit(json!({"t": "text", "s": t.chars().map(|c| c as u32).collect::<Vec<_>>()})), "ty": "timestamp"}) }
        _ => json!({"op": "case", "cl": [[gen_bool(r, d - 1), gen_ts(r, d - 1)]], "el": gen_ts(r, d - 1)})
    }
}
fn gen_iv(r: &mut R, d: u32) -> J {
    if d == 0 || r.gen_bool(0.4) { return iv_text(r); }
    match r.gen_range(0..4) {
        0 => json!({"op": "arith", "f": "-", "a": gen_ts(r, d - 1), "b": gen_ts(r, d - 1)}),
        1 => json!({"op": "arith", "f": (pick(r, &["+", "-", "*"])), "a": gen_iv(r, d - 1), "b": gen_iv(r, d - 1)}),
        2 => json!({"op": "call", "f": "abs", "args": [gen_iv(r, d - 1)]}),
        _ => json!({"op": "call", "f": (pick(r, &["least", "greatest"])), "args": [gen_iv(r, d - 1), gen_iv(r, d - 1)]})
    }
}

fn gen_int(r: &mut R, d: u32) -> J {
    if d == 0 || r.gen_bool(0.25) { return match r.gen_range(0..6) { 0 => json!({"op": "col", "name": "v"}), 1 => lit(null()), 2 => json!({"op": "col", "name": "t.v"}), _ => int_lit(r) }; }
    match r.gen_range(0..12) {
        9 => json!({"op": "call", "f": (pick(r, &["extract_year", "extract_month", "extract_day", "extract_hour", "extract_minute", "extract_second"])), "args": [gen_ts(r, d - 1)]}),
        10 => json!({"op": "call", "f": "pow", "args": [gen_int(r, d - 1), small_int(r, -1, 5)]}),
        11 => json!({"op": "cast", "a": gen_iv(r, d - 1), "ty": "int"}),
        0..=3 => json!({"op": "arith", "f": (pick(r, &["+", "-", "*", "/"])), "a": gen_int(r, d - 1), "b": gen_int(r, d - 1)}),
        4 => json!({"op": "neg", "a": gen_int(r, d - 1)}),
        5 => json!({"op": "call", "f": (pick(r, &["abs", "length", "array_length"])), "args": [match r.gen_range(0..3) { 0 => gen_int(r, d - 1), 1 => gen_text(r, d - 1), _ => gen_arr(r, d - 1) }]}),
        6 => json!({"op": "call", "f": (pick(r, &["least", "greatest"])), "args": [gen_int(r, d - 1), gen_int(r, d - 1)]}),
        7 => json!({"op": "idx", "a": gen_arr(r, d - 1), "i": gen_int(r, d - 1)}),
        _ => json!({"op": "case", "cl": [[gen_bool(r, d - 1), gen_int(r, d - 1)]], "el": gen_int(r, d - 1)})
    }
}
fn gen_arr(r: &mut R, d: u32) -> J {
    let n = r.gen_range(1..4);
    let base = json!({"op": "call", "f": "array", "args": (0..n).map(|_| if d == 0 { int_lit(r) } else { gen_int(r, d - 1) }).collect::<Vec<_>>()});
    match r.gen_range(0..5) {
        0 => json!({"op": "call", "f": "array_unique", "args": [base]}),
        1 => json!({"op": "call", "f": "array_append", "args": [base, int_lit(r)]}),
        2 => json!({"op": "call", "f": "array_cat", "args": [base.clone(), base]}),
        _ => base
    }
}
fn gen_text(r: &mut R, d: u32) -> J {
    if d == 0 || r.gen_bool(0.3) { return match r.gen_range(0..5) { 0 => json!({"op": "col", "name": "k"}), 1 => lit(null()), 2 => json!({"op": "col", "name": "input"}), _ => text_lit(r) }; }
    match r.gen_range(0..6) {
        4 => json!({"op": "cast", "a": gen_ts(r, d - 1), "ty": "text"}),
        5 => json!({"op": "cast", "a": gen_iv(r, d - 1), "ty": "text"}),
        0 => json!({"op": "call", "f": (pick(r, &["upper", "lower"])), "args": [gen_text(r, d - 1)]}),
        1 => json!({"op": "cast", "a": gen_int(r, d - 1), "ty": "text"}),
        2 => json!({"op": "case", "cl": [[gen_bool(r, d - 1), gen_text(r, d - 1)]], "el": gen_text(r, d - 1)}),
        _ => json!({"op": "cast", "a": gen_bool(r, d - 1), "ty": "text"})
    }
}
fn gen_real(r: &mut R, d: u32) -> J {
    if d == 0 || r.gen_bool(0.4) { return real_lit(r); }
    match r.gen_range(0..8) {
        4 => json!({"op": "call", "f": "sqrt", "args": [gen_real(r, d - 1)]}),
        5 => json!({"op": "call", "f": "pow", "args": [gen_real(r, d - 1), lit(jreal([0.0, 1.0, 2.0, 3.0, 0.5][r.gen_range(0..5)]))]}),
        6 => json!({"op": "call", "f": "extract_epoch", "args": [gen_ts(r, d - 1)]}),
        7 => json!({"op": "cast", "a": gen_iv(r, d - 1), "ty": "real"}),
        0..=1 => json!({"op": "arith", "f": (pick(r, &["+", "-", "*"])), "a": gen_real(r, d - 1), "b": gen_real(r, d - 1)}),
        2 => json!({"op": "neg", "a": gen_real(r, d - 1)}),
        _ => json!({"op": "cast", "a": gen_text(r, d - 1), "ty": "real"})
    }
}
fn gen_bool(r: &mut R, d: u32) -> J {
    if d == 0 || r.gen_bool(0.15) { return if r.gen_bool(0.2) { lit(null()) } else { bool_lit(r) }; }
    let cmp = (pick(r, &["=", "!=", "<", "<=", ">", ">="]));
    match r.gen_range(0..18) {
        // REAL against REAL (the two zeros are one value: -0.0 from a literal, from 0.0 * negative, from - 0.0), also through IN
        14 => json!({"op": "cmp", "f": cmp, "a": gen_real(r, d - 1), "b": gen_real(r, d - 1)}),
        15 => json!({"op": "in", "neg": r.gen_bool(0.5), "a": gen_real(r, d - 1), "vs": (0..r.gen_range(1..4)).map(|_| gen_real(r, 0)).collect::<Vec<_>>()}),
        10 => json!({"op": "cmp", "f": cmp, "a": gen_ts(r, d - 1), "b": gen_ts(r, d - 1)}),
        11 => { let t = pick(r, &["2021-03-04 05:06:07", "2021-03-04 05:06:08", "2021-3-4", "never"]);
                json!({"op": "cmp", "f": cmp, "a": gen_ts(r, d - 1), "b": lit(json!({"t": "text", "s": t.chars().map(|c| c as u32).collect::<Vec<_>>()}))}) }
        12 => json!({"op": "cmp", "f": cmp, "a": gen_iv(r, d - 1), "b": gen_iv(r, d - 1)}),
        13 | 16 | 17 => { let p = pick(r, RX_PATTERNS);
                let subject = if r.gen_bool(0.6) { let t = pick(r, RX_TEXTS); lit(json!({"t": "text", "s": t.chars().map(|c| c as u32).collect::<Vec<_>>()})) } else { gen_text(r, d - 1) };
                json!({"op": "call", "f": "regex_matches", "args": [subject, lit(json!({"t": "text", "s": p.chars().map(|c| c as u32).collect::<Vec<_>>()}))]}) }
        0..=2 => json!({"op": "cmp", "f": cmp, "a": gen_int(r, d - 1), "b": gen_int(r, d - 1)}),
        3 => json!({"op": "cmp", "f": cmp, "a": gen_text(r, d - 1), "b": gen_text(r, d - 1)}),
        4 => json!({"op": "cmp", "f": cmp, "a": gen_int(r, d - 1), "b": gen_real(r, d - 1)}),
        5 => json!({"op": "is", "neg": r.gen_bool(0.5), "a": if r.gen_bool(0.5) { gen_int(r, d - 1) } else { gen_text(r, d - 1) }, "b": lit(null())}),
        6 => json!({"op": "bool", "f": (pick(r, &["and", "or"])), "a": gen_bool(r, d - 1), "b": gen_bool(r, d - 1)}),
        7 => json!({"op": "not", "a": gen_bool(r, d - 1)}),
        8 => json!({"op": "in", "neg": r.gen_bool(0.5), "a": gen_int(r, d - 1), "vs": (0..r.gen_range(1..4)).map(|_| gen_int(r, 0)).collect::<Vec<_>>()}),
        _ => json!({"op": "cast", "a": gen_text(r, d - 1), "ty": "boolean"})
    }
}

/// patterns of regex_matches: what they match on a given text is asked of the regex crate (the `rx` table of an event), not modelled
const RX_PATTERNS: &[&str] = &["a", "^a", "b$", "^ab$", "(", "x y", "", "[a", "a{2}", "={2}", "={10}", "o{2}", "a{", "a|b", "[ab]+", "^.$", "\\d+", "(?i)AB", ".", "a*", "a.b", "\\bA",
                               "[[:alpha:]]+", "1{1,2}$", "^$", "c{1}", "b{2,}", "k=a", "v=\\d", "^k=(a|bc) v=-?\\d+$", "a+?", "\\", "*", "T", "true|false", "0{2}:0{2}"];

const RX_TEXTS: &[&str] = &["aa", "aaa", "==", "a{2}", "a.b", "axb", "AB", "ab", "a", "", "k=a v=1", "k=bc v=-7", "11", "1", "bb", "oo", "o{2}", "={2}", "a{", "true", "00:00", "x y", "A", "b", "a|b", "é", "c", "T", "==========", "={10}"];

/// every regex_matches(text, 'literal pattern') node of the tree: (text argument, pattern)
fn rx_nodes(e: &J, out: &mut Vec<(J, String)>) {
    match e {
        J::Object(m) => {
            if m.get("op").map(|o| o == "call").unwrap_or(false) && m.get("f").map(|f| f == "regex_matches").unwrap_or(false) {
                let args = m["args"].as_array().unwrap();
                if args.len() == 2 && args[1]["op"] == "lit" && args[1]["v"]["t"] == "text" { out.push((args[0].clone(), text_of(&args[1]["v"]))); }
            }
            for v in m.values() { rx_nodes(v, out); }
        }
        J::Array(xs) => for v in xs { rx_nodes(v, out); },
        _ => {}
    }
}

pub fn trace(seed: u64, n: usize) -> Vec<J> {
    let mut rng = rand::rngs::StdRng::seed_from_u64(seed);
    let tables = setup_tables(&sql::table_defs("plain")).unwrap();
    let mut ev = Vec::new();
    for i in 0..n {
        let e = match rng.gen_range(0..8) { 0..=1 => gen_int(&mut rng, 3), 2..=3 => gen_bool(&mut rng, 3), 4 => gen_text(&mut rng, 3), 5 => gen_real(&mut rng, 2), 6 => gen_ts(&mut rng, 2), _ => gen_iv(&mut rng, 2) };
        // occasionally a deliberate type error or unknown column at the root
        let e = if rng.gen_bool(0.05) { json!({"op": "arith", "f": "+", "a": e, "b": text_lit(&mut rng)}) } else if rng.gen_bool(0.02) { json!({"op": "col", "name": "nosuch"}) } else { e };
        let k = [json!({"t": "null"}), json!({"t": "text", "s": [97]}), json!({"t": "text", "s": [98, 99]})][rng.gen_range(0..3)].clone();
        let v = [json!({"t": "null"}), jint(0), jint(1), jint(-7), jint(42)][rng.gen_range(0..5)].clone();
        let line = json!({"kind": "kv", "k": k, "v": v});
        let text = sql::line_text(&line);
        // every third statement is written with the fewest parentheses the standard precedence allows (what a user types)
        let query = format!("SELECT {} AS r FROM t", if i % 3 == 2 { sql::expr_min(&e) } else { sql::expr(&e) });
        tick(&json!({"i": i, "query": query}));
        if k["t"] == "null" && v["t"] == "null" { continue; }        // not a row
        // the regex crate's verdict for every (text, pattern) pair a regex_matches node of this tree meets on this row: the text argument is
        // evaluated on its own (it is judged by the model where it stands in the tree), the match itself is the trusted base's
        let mut nodes = Vec::new();
        rx_nodes(&e, &mut nodes);
        let mut rx: Vec<J> = Vec::new();
        for (arg, pat) in nodes {
            let q = format!("SELECT {} AS r FROM t", sql::expr(&arg));
            let tx = text.clone();
            let val = std::panic::catch_unwind(std::panic::AssertUnwindSafe(|| {
                let stmt = sqlgrep::parsing::parse(&q).ok()?;
                let mut engine = ExecutionEngine::new(&tables, &stmt);
                match engine.execute(tx, &ExecutionConfig::default()) { Ok(o) => o.result_row.map(|rr| rr.data[0].columns[0].clone()), Err(_) => None }
            })).unwrap_or(None);
            if let Some(sqlgrep::model::Value::String(t)) = val {
                let m = match regex::Regex::new(&pat) { Ok(re) => if re.is_match(&t) { "t" } else { "f" }, Err(_) => "bad" };
                rx.push(json!({"s": t.chars().map(|c| c as u32).collect::<Vec<_>>(), "p": pat.chars().map(|c| c as u32).collect::<Vec<_>>(), "m": m}));
            }
        }
        let env = json!({"k": k, "v": v, "t.k": k, "t.v": v, "input": {"t": "text", "s": text.chars().map(|c| c as u32).collect::<Vec<_>>()}, "rx": rx});
        let q2 = query.clone();
        let out = std::panic::catch_unwind(std::panic::AssertUnwindSafe(|| {
            let stmt = match sqlgrep::parsing::parse(&q2) { Ok(s) => s, Err(e) => return json!({"k": "parse_err", "msg": format!("{}", e)}) };
            let mut engine = ExecutionEngine::new(&tables, &stmt);
            match engine.execute(text.clone(), &ExecutionConfig::default()) {
                Ok(o) => match o.result_row { Some(rr) => json!({"k": "val", "v": project(&rr.data[0].columns[0])}), None => json!({"k": "norow"}) },
                Err(_) => json!({"k": "err"})
            }
        })).unwrap_or(json!({"k": "panic"}));
        ev.push(json!({"ev": "eval", "i": i, "query": query, "e": e, "env": env, "out": out}));
        // now(): the one function whose value is not a function of the row -- it lies between the instants just before and just after the evaluation,
        // and an expression over it is evaluated on that instant (now() - now() is no negative interval, now() >= a past literal)
        if i % 97 == 5 {
            use chrono::{Datelike, Timelike};
            let stamp = |t: chrono::DateTime<chrono::Local>| json!({"t": "ts", "f": [t.year(), t.month(), t.day(), t.hour(), t.minute(), t.second(), t.timestamp_subsec_micros()]});
            let q = "SELECT now() AS r, now() >= make_timestamp(2020, 1, 1, 0, 0, 0, 0) AS past, EXTRACT(YEAR FROM now()) AS y FROM t";
            let lo = chrono::Local::now();
            let tx = text.clone();
            let got = std::panic::catch_unwind(std::panic::AssertUnwindSafe(|| {
                let stmt = sqlgrep::parsing::parse(q).ok()?;
                let mut engine = ExecutionEngine::new(&tables, &stmt);
                match engine.execute(tx, &ExecutionConfig::default()) { Ok(o) => o.result_row.map(|rr| rr.data[0].columns.iter().map(project).collect::<Vec<_>>()), Err(_) => None }
            })).unwrap_or(None);
            let hi = chrono::Local::now();
            ev.push(json!({"ev": "now", "lo": stamp(lo), "hi": stamp(hi), "out": got.map(|g| json!({"k": "val", "vs": g})).unwrap_or(json!({"k": "err", "vs": []}))}));
        }
    }
    ev
}
