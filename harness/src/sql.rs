//! Rendering of abstract statements / expressions (spec/Expr.tla, spec/Sem.tla) to SQL text.
//! Everything is fully parenthesised so that the text means the tree whatever the parser's
//! precedence table is; the parser itself is the subject of C13 / C20, checked elsewhere.
use crate::val::*;
use serde_json::Value as J;

pub fn quote(s: &str) -> String {
    let mut out = String::from("'");
    for c in s.chars() {
        if c == '\'' || c == '\\' { out.push('\\'); }
        out.push(c);
    }
    out.push('\'');
    out
}

fn decimal(n: i64, d: i64) -> String {
    // exact decimal expansion of n/d, d a power of two
    let neg = n < 0;
    let n = n.abs() as i128;
    let d = d as i128;
    let ip = n / d;
    let mut rem = n % d;
    let mut frac = String::new();
    while rem != 0 { rem *= 10; frac.push(char::from(b'0' + (rem / d) as u8)); rem %= d; }
    if frac.is_empty() { frac.push('0'); }
    format!("{}{}.{}", if neg { "-" } else { "" }, ip, frac)
}

pub fn literal(v: &J) -> String {
    match v["t"].as_str().unwrap() {
        "null" => "NULL".into(),
        "int" => { let i = int_of(v); if i < 0 { if i == i64::MIN { "(0 - 9223372036854775807 - 1)".into() } else { format!("(0 - {})", -i) } } else { format!("{}", i) } }
        "real" => match v["c"].as_str().unwrap() {
            "fin" => { let (n, d) = (v["n"].as_i64().unwrap(), v["d"].as_i64().unwrap()); if n < 0 { format!("(0.0 - {})", decimal(-n, d)) } else { decimal(n, d) } }
            "q25n" => "0.25000000000000006".into(),
            "p53" => "9007199254740992.0".into(), "p53b" => "9007199254740994.0".into(),
            "p63" => "9223372036854775808.0".into(), "n63" => "(0.0 - 9223372036854775808.0)".into(),
            "nan" => "('NaN'::real)".into(), "nnan" => "('-NaN'::real)".into(), "pinf" => "('inf'::real)".into(), "ninf" => "('-inf'::real)".into(),
            _ => "('-0.0'::real)".into()
        },
        "bool" => if v["v"].as_bool().unwrap() { "TRUE".into() } else { "FALSE".into() },
        "text" => quote(&text_of(v)),
        "arr" => format!("array[{}]", v["xs"].as_array().unwrap().iter().map(literal).collect::<Vec<_>>().join(", ")),
        "ts" => { let f: Vec<i64> = v["f"].as_array().unwrap().iter().map(|x| x.as_i64().unwrap()).collect();
                  format!("make_timestamp({}, {}, {}, {}, {}, {}, {})", f[0], f[1], f[2], f[3], f[4], f[5], f[6]) }
        "iv" => { let ms = v["ms"].as_i64().unwrap(); let s = ms / 1000; format!("('{}:{}:{}'::interval)", s / 3600, (s / 60) % 60, s % 60) }
        t => panic!("literal of {}", t)
    }
}

pub fn type_sql(ty: &str) -> &str {
    match ty { "int" => "int", "real" => "real", "text" => "text", "boolean" => "boolean", "timestamp" => "timestamp", "interval" => "interval", o => panic!("type {}", o) }
}

pub fn expr(e: &J) -> String {
    let op = e["op"].as_str().unwrap();
    match op {
        "lit" => literal(&e["v"]),
        "col" => e["name"].as_str().unwrap().to_string(),
        "cmp" | "arith" => format!("(({}) {} ({}))", expr(&e["a"]), e["f"].as_str().unwrap(), expr(&e["b"])),
        "is" => format!("(({}) {} ({}))", expr(&e["a"]), if e["neg"].as_bool().unwrap() { "IS NOT" } else { "IS" }, expr(&e["b"])),
        "bool" => format!("(({}) {} ({}))", expr(&e["a"]), e["f"].as_str().unwrap().to_uppercase(), expr(&e["b"])),
        "neg" => format!("(-({}))", expr(&e["a"])),
        "not" => format!("(NOT ({}))", expr(&e["a"])),
        "in" => format!("(({}) {} ({}))", expr(&e["a"]), if e["neg"].as_bool().unwrap() { "NOT IN" } else { "IN" },
                        e["vs"].as_array().unwrap().iter().map(expr).collect::<Vec<_>>().join(", ")),
        "call" => {
            let f = e["f"].as_str().unwrap();
            let args: Vec<String> = e["args"].as_array().unwrap().iter().map(expr).collect();
            if f == "array" { format!("array[{}]", args.join(", ")) }
            else if let Some(part) = f.strip_prefix("extract_") { format!("EXTRACT({} FROM ({}))", part.to_uppercase(), args[0]) }
            else { format!("{}({})", f, args.join(", ")) }
        }
        "idx" => format!("(({})[{}])", expr(&e["a"]), expr(&e["i"])),
        "cast" => format!("(({})::{})", expr(&e["a"]), type_sql(e["ty"].as_str().unwrap())),
        "case" => {
            let mut s = String::from("(CASE");
            for c in e["cl"].as_array().unwrap() { s += &format!(" WHEN ({}) THEN ({})", expr(&c[0]), expr(&c[1])); }
            s += &format!(" ELSE ({}) END)", expr(&e["el"]));
            s
        }
        o => panic!("expr op {}", o)
    }
}

/// binding strength of an expression node under the standard SQL precedence (C13): OR 1 < AND 2 < NOT 3 < comparisons, IS, IN 4 < + - 5 < * / 6
/// < unary minus 7 < cast, subscript 8 < primaries 9
fn level(e: &J) -> u8 {
    match e["op"].as_str().unwrap() {
        "bool" => if e["f"] == "or" { 1 } else { 2 },
        "not" => 3,
        "cmp" | "is" | "in" => 4,
        "arith" => if e["f"] == "+" || e["f"] == "-" { 5 } else { 6 },
        "neg" => 7,
        "cast" | "idx" => 8,
        _ => 9
    }
}

fn wrap(e: &J, min_level: u8) -> String { let s = expr_min(e); if level(e) < min_level { format!("({})", s) } else { s } }

/// the same expression written with the fewest parentheses the standard precedence allows (binary operators associate to the left):
/// what a user would type.  Used by the statements marked `min` (PrecMenu of MC_Engine.tla).
pub fn expr_min(e: &J) -> String {
    let op = e["op"].as_str().unwrap();
    let l = level(e);
    match op {
        "lit" => literal(&e["v"]),
        "col" => e["name"].as_str().unwrap().to_string(),
        "cmp" | "arith" => format!("{} {} {}", wrap(&e["a"], l), e["f"].as_str().unwrap(), wrap(&e["b"], l + 1)),
        "bool" => format!("{} {} {}", wrap(&e["a"], l), e["f"].as_str().unwrap().to_uppercase(), wrap(&e["b"], l + 1)),
        "is" => format!("{} {} {}", wrap(&e["a"], l), if e["neg"].as_bool().unwrap() { "IS NOT" } else { "IS" }, wrap(&e["b"], l + 1)),
        "in" => format!("{} {} ({})", wrap(&e["a"], l), if e["neg"].as_bool().unwrap() { "NOT IN" } else { "IN" },
                        e["vs"].as_array().unwrap().iter().map(expr_min).collect::<Vec<_>>().join(", ")),
        "neg" => { let inner = wrap(&e["a"], l); if inner.starts_with('-') { format!("- {}", inner) } else { format!("-{}", inner) } }      // (`--` would start a comment)
        "not" => format!("NOT {}", wrap(&e["a"], l)),
        "call" => {
            let f = e["f"].as_str().unwrap();
            let args: Vec<String> = e["args"].as_array().unwrap().iter().map(expr_min).collect();
            if f == "array" { format!("array[{}]", args.join(", ")) }
            else if let Some(part) = f.strip_prefix("extract_") { format!("EXTRACT({} FROM {})", part.to_uppercase(), args[0]) }
            else { format!("{}({})", f, args.join(", ")) }
        }
        "idx" => format!("{}[{}]", wrap(&e["a"], l), expr_min(&e["i"])),
        "cast" => format!("{}::{}", wrap(&e["a"], l), type_sql(e["ty"].as_str().unwrap())),
        "case" => {
            let mut s = String::from("CASE");
            for c in e["cl"].as_array().unwrap() { s += &format!(" WHEN {} THEN {}", expr_min(&c[0]), expr_min(&c[1])); }
            s += &format!(" ELSE {} END", expr_min(&e["el"]));
            s
        }
        o => panic!("expr op {}", o)
    }
}

/// literals of the minimal form are written the way a user writes them: -5, -0.25 (a unary minus on the number)
fn render(e: &J, min: bool) -> String { if min { expr_min(e) } else { expr(e) } }

pub fn aggregate(it: &J) -> String {
    let a = it["a"].as_str().unwrap();
    match a {
        "key" => expr(&it["e"]),
        "count_star" => "COUNT(*)".into(),
        "count" => format!("COUNT({})", it["col"].as_str().unwrap()),
        "count_distinct" => format!("COUNT(DISTINCT {})", it["col"].as_str().unwrap()),
        "string_agg" => format!("STRING_AGG({}, {})", expr(&it["e"]), quote(&text_of(&serde_json::json!({"s": it["delim"]})))),
        "percentile" => format!("PERCENTILE({}, {})", expr(&it["e"]), decimal(it["pn"].as_i64().unwrap(), it["pd"].as_i64().unwrap())),
        _ => format!("{}({})", a.to_uppercase(), expr(&it["e"]))
    }
}

fn is_none(e: &J) -> bool { e["op"].as_str() == Some("none") }

pub fn item(it: &J) -> String {
    let base = aggregate(it);
    let body = if it["a"] != "key" && !is_none(&it["wrap"]) { expr(&it["wrap"]).replace("$value", &base) } else { base };
    format!("{} AS {}", body, it["as"].as_str().unwrap())
}

pub fn having(h: &J) -> String {
    match h["h"].as_str().unwrap() {
        "agg" => format!("(({}) {} ({}))", aggregate(&h["it"]), h["f"].as_str().unwrap(), literal(&h["c"])),
        "key" => format!("(({}) {} ({}))", expr(&h["e"]), h["f"].as_str().unwrap(), literal(&h["c"])),
        "keynull" => format!("(({}) {} NULL)", expr(&h["e"]), if h["neg"].as_bool().unwrap() { "IS NOT" } else { "IS" }),
        "and" => format!("(({}) AND ({}))", having(&h["l"]), having(&h["r"])),
        "or" => format!("(({}) OR ({}))", having(&h["l"]), having(&h["r"])),
        o => panic!("having {}", o)
    }
}

/// the SQL text of a statement of Sem.tla; `jpath` = file of the joined table u
pub fn statement(q: &J, jpath: &str) -> String { statement_for(q, jpath, "plain") }

/// `tdef` = the table variant: "numjoin" joins ON t.v = u.w (INT against REAL)
pub fn statement_for(q: &J, jpath: &str, tdef: &str) -> String {
    let mut s = String::from("SELECT ");
    if q["distinct"].as_bool().unwrap() { s += "DISTINCT "; }
    let min = q["min"].as_bool().unwrap_or(false);
    if q["kind"] == "select" {
        if q["star"].as_bool().unwrap() { s += "*"; }
        else {
            let ps: Vec<String> = q["proj"].as_array().unwrap().iter().map(|p| {
                let e = if p["e"]["op"] == "col" { p["e"]["name"].as_str().unwrap().to_string() } else { render(&p["e"], min) };
                let a = p["as"].as_str().unwrap();
                if a.is_empty() { e } else { format!("{} AS {}", e, a) }
            }).collect();
            s += &ps.join(", ");
        }
    } else {
        s += &q["items"].as_array().unwrap().iter().map(item).collect::<Vec<_>>().join(", ");
    }
    s += " FROM t";
    match q["join"].as_str().unwrap() {
        // (ON a.x = b.y names the two sides in either order: statements without WHERE write the joined side first)
        "inner" if tdef == "selfj" => s += &format!(" INNER JOIN t::{} ON t.k = t.k", quote(jpath)),
        "outer" if tdef == "selfj" => s += &format!(" OUTER JOIN t::{} ON t.k = t.k", quote(jpath)),
        "inner" => s += &format!(" INNER JOIN u::{} ON {}", quote(jpath), if tdef == "numjoin" { "t.v = u.w" } else if is_none(&q["where"]) { "u.k = t.k" } else { "t.k = u.k" }),
        "badfile" => s += &format!(" INNER JOIN u::{} ON t.k = u.k", quote(&format!("{}.does-not-exist", jpath))),
        "dirfile" => s += &format!(" INNER JOIN u::{} ON t.k = u.k", quote(std::path::Path::new(jpath).parent().unwrap().to_str().unwrap())),
        "badcol" => s += &format!(" INNER JOIN u::{} ON t.k = u.nosuch", quote(jpath)),
        "badqcol" => s += &format!(" INNER JOIN u::{} ON t.nosuch = u.k", quote(jpath)),
        "badqcolouter" => s += &format!(" OUTER JOIN u::{} ON u.k = t.nosuch", quote(jpath)),
        "outer" => s += &format!(" OUTER JOIN u::{} ON {}", quote(jpath), if tdef == "numjoin" { "u.w = t.v" } else { "t.k = u.k" }),
        _ => {}
    }
    if !is_none(&q["where"]) { s += &format!(" WHERE {}", render(&q["where"], min)); }
    if q["kind"] == "agg" {
        let g = q["group"].as_array().unwrap();
        if !g.is_empty() { s += &format!(" GROUP BY {}", g.iter().map(expr).collect::<Vec<_>>().join(", ")); }
        if q["having"]["h"] != "none" { s += &format!(" HAVING {}", having(&q["having"])); }
    }
    let lim = q["limit"].as_i64().unwrap();
    // 2000000001 / 2000000002 stand for i64::MAX / 2^62 (TLC integers are 32-bit): "LIMIT <huge>" is the idiom for "everything"
    if lim >= 0 { s += &format!(" LIMIT {}", match lim { 2000000001 => i64::MAX, 2000000002 => 1i64 << 62, x => x }); }
    s
}

pub fn table_defs(tdef: &str) -> String {
    let (kmod, vmod) = match tdef { "knn" => (" NOT NULL", ""), "vdef" => ("", " DEFAULT 7"), "bothnn" => (" NOT NULL", " NOT NULL"), "nndef" => (" NOT NULL", " DEFAULT 7"), _ => ("", "") };
    if tdef == "udef" {
        return "CREATE TABLE t(line = 'k=([a-z]+)? v=(-?[0-9]+)?', line[1] => k TEXT, line[2] => v INT);\nCREATE TABLE u(jl = 'k=([a-z]+)? v=(-?[0-9]+)?', jl[1] => k TEXT, jl[2] => w INT DEFAULT 7);".to_string();
    }
    if tdef == "ukdef" {
        return "CREATE TABLE t(line = 'k=([a-z]+)? v=(-?[0-9]+)?', line[1] => k TEXT, line[2] => v INT);\nCREATE TABLE u(jl = 'k=([a-z]+)? v=(-?[0-9]+)?', jl[1] => k TEXT DEFAULT 'a', jl[2] => w INT);".to_string();
    }
    let (a, z) = if tdef == "anch" { ("^", "$") } else { ("", "") };
    if tdef == "vreal" {
        return "CREATE TABLE t(line = 'k=([a-z]+)? v=(-?[0-9.]+)?', line[1] => k TEXT, line[2] => v REAL);\nCREATE TABLE u(jl = 'k=([a-z]+)? v=(-?[0-9]+)?', jl[1] => k TEXT, jl[2] => w INT);".to_string();
    }
    format!("CREATE TABLE t(line = '{}k=([a-z]+)? v=(-?[0-9]+)?{}', line[1] => k TEXT{}, line[2] => v INT{});\n\
             CREATE TABLE u(jl = 'k=([a-z]+)? v=(-?[0-9]+)?', jl[1] => k TEXT, jl[2] => w {});", a, z, kmod, vmod, if tdef == "numjoin" { "REAL" } else { "INT" })
}

pub fn line_text(l: &J) -> String {
    match l["kind"].as_str().unwrap() {
        "kv" => format!("k={} v={}", if l["k"]["t"] == "null" { String::new() } else { text_of(&l["k"]) },
                        if l["v"]["t"] == "null" { String::new() } else if l["v"]["t"] == "real" { format!("{:.2}", real_of(&l["v"])) } else { int_of(&l["v"]).to_string() }),
        "kvpost" => format!("k={} v={}{}", if l["k"]["t"] == "null" { String::new() } else { text_of(&l["k"]) },
                            if l["v"]["t"] == "null" { String::new() } else { int_of(&l["v"]).to_string() }, text_of(&serde_json::json!({"s": l["post"]}))),
        "garbage" => "###".into(),
        "empty" => String::new(),
        "near" => "k=a v1".into(),
        "bigv" => "k= v=99999999999999999999".into(),
        "longpre" => format!("{}k=a v=1", char::from_u32(l["c"].as_u64().unwrap_or(35) as u32).unwrap().to_string().repeat(l["n"].as_u64().unwrap() as usize)),
        o => panic!("line kind {}", o)
    }
}
