//! Binding of spec/Reader.tla to FileExecutor's line reading (and the join loader's).
use crate::common::*;
use crate::engine::{run_batch, setup_tables};
use serde_json::{json, Value as J};
use sqlgrep::executor::OutputFormat;

fn expand(bytes: &[u8], unit: usize) -> Vec<u8> {
    let mut out = Vec::new();
    for b in bytes { if *b == 120 { out.extend(std::iter::repeat(b'x').take(unit)); } else { out.push(*b); } }
    out
}

fn expected_line(cps: &J, unit: usize) -> String {
    let mut s = String::new();
    for c in cps.as_array().unwrap() {
        let c = c.as_u64().unwrap() as u32;
        if c == 120 { for _ in 0..unit { s.push('x'); } } else { s.push(char::from_u32(c).unwrap()); }
    }
    s
}

pub fn replay(cases: &[J]) -> J {
    let dir = scratch();
    let mut rep = Report::new("reader");
    let tables = setup_tables("CREATE TABLE t('(.*)' => x TEXT);\nCREATE TABLE u('(.*)' => y TEXT);").unwrap();
    let none = json!({"at": "none", "n": 0});
    for (ci, case) in cases.iter().enumerate() {
        tick(case);
        // 'x' stands for a run of ordinary bytes; every 50th case is also run with runs around the BufReader capacity
        let units: Vec<usize> = if ci % 200 == 0 { vec![1, 8191, 8192, 8193, 65535, 65536, 100000] } else if ci % 50 == 0 { vec![1, 8191, 8192, 8193] } else { vec![1] };
        for unit in units {
            let mut paths = Vec::new();
            for (i, f) in case["files"].as_array().unwrap().iter().enumerate() {
                let p = dir.join(format!("r{}.log", i));
                std::fs::write(&p, expand(&bytes_of(f), unit)).unwrap();
                paths.push(p);
            }
            let exp: Vec<String> = case["lines"].as_array().unwrap().iter().map(|l| expected_line(l, unit)).collect();
            let obs = run_batch(&tables, "SELECT x FROM t", &paths, &none, OutputFormat::Json);
            let got: Vec<String> = obs.records.iter().map(|r| r["x"].as_str().unwrap_or("\u{0}not-a-string").to_string()).collect();
            let cnt = run_batch(&tables, "SELECT COUNT(*) AS n FROM t", &paths, &none, OutputFormat::Json);
            let n = cnt.records.get(0).map(|r| r["n"].as_u64().unwrap_or(u64::MAX)).unwrap_or(0);
            // the joined file is read by a second loop of the code: the same lines must arrive there
            let jq = format!("SELECT COUNT(*) AS n FROM t INNER JOIN u::{} ON t.x = u.y", crate::sql::quote(paths[0].to_str().unwrap()));
            let jn = if paths.len() == 1 {
                let j = run_batch(&tables, &jq, &paths, &none, OutputFormat::Json);
                if j.status != "ok" { u64::MAX } else { j.records.get(0).map(|r| r["n"].as_u64().unwrap_or(u64::MAX)).unwrap_or(0) }
            } else { 0 };
            // self-join on the whole line: every line pairs with each of its duplicates
            let exp_jn: u64 = if paths.len() == 1 { exp.iter().map(|a| exp.iter().filter(|b| *b == a).count() as u64).sum() } else { 0 };
            let short = |v: &Vec<String>| v.iter().map(|s| if s.len() > 40 { format!("{}..({} bytes)", s.chars().take(8).collect::<String>(), s.len()) } else { s.clone() }).collect::<Vec<_>>();
            let observed = json!({"lines": short(&got), "status": obs.status, "total_lines": obs.consumed, "count": n, "join_pairs": jn, "unit": unit});
            let expected = json!({"lines": short(&exp), "status": "ok", "total_lines": exp.len(), "count": exp.len(), "join_pairs": exp_jn, "unit": unit});
            let lost = case["lost"].as_bool().unwrap();
            if got == exp && obs.status == "ok" && obs.consumed as usize == exp.len() && n as usize == exp.len() && cnt.status == "ok" && jn == exp_jn {
                if lost { rep.dev_witness("InvalidUtf8EndsFile", case); rep.count("dev_InvalidUtf8EndsFile"); }
                rep.ok(case, format!("{}|{}", case["files"], unit), !exp.is_empty());
            } else {
                rep.mismatch(case, expected, observed, "FileExecutor line reading differs from Reader.tla");
            }
        }
    }
    cleanup_scratch();
    rep.finish()
}
