//! Binding of spec/Reader.tla to FileExecutor's line reading (and the join loader's).
use crate::common::*;
use crate::engine::{run_batch, setup_tables};
use serde_json::{json, Value as J};
use sqlgrep::executor::OutputFormat;

fn expand(bytes: &[u8], unit: usize) -> Vec<u8> {
    let mut out = Vec::new();
    for b in bytes { if *b == 120 { out.extend(std::iter::repeat(b'x').take(unit)); } else { out.push(*b); } }
    out
}

fn expected_line(cps: &J, unit: usize) -> String {
    let mut s = String::new();
    for c in cps.as_array().unwrap() {
        let c = c.as_u64().unwrap() as u32;
        if c == 120 { for _ in 0..unit { s.push('x'); } } else { s.push(char::from_u32(c).unwrap()); }
    }
    s
}

/// a reader that hands its bytes out in reads of at most `chunk` bytes and fails the `fault`-th read call once with ErrorKind::Interrupted
/// (a signal arriving during read(2)): the standard contract is that such a read is simply retried
struct FaultyReader { data: Vec<u8>, pos: usize, chunk: usize, calls: usize, fault: Option<usize> }
impl std::io::Read for FaultyReader {
    fn read(&mut self, buf: &mut [u8]) -> std::io::Result<usize> {
        let call = self.calls; self.calls += 1;
        if Some(call) == self.fault { return Err(std::io::Error::new(std::io::ErrorKind::Interrupted, "interrupted")); }
        let n = std::cmp::min(std::cmp::min(self.chunk, buf.len()), self.data.len() - self.pos);
        buf[..n].copy_from_slice(&self.data[self.pos..self.pos + n]);
        self.pos += n;
        Ok(n)
    }
}

/// lossy_lines (the line reader of the batch driver and of the join loader) over short and interrupted reads: the lines are those of the bytes
fn faulty_runs(bytes: &[u8], exp: &[String]) -> Option<J> {
    for cap in [1usize, 2, 3, 8] {
        for chunk in [1usize, 2, 64] {
            let total_calls = bytes.len() / std::cmp::min(chunk, cap).max(1) + 3;
            let mut faults: Vec<Option<usize>> = vec![None];
            faults.extend((0..total_calls).map(Some));
            for fault in faults {
                let r = FaultyReader { data: bytes.to_vec(), pos: 0, chunk, calls: 0, fault };
                let got: Vec<Result<String, String>> = std::panic::catch_unwind(std::panic::AssertUnwindSafe(|| {
                    sqlgrep::helpers::lossy_lines(std::io::BufReader::with_capacity(cap, r)).map(|l| l.map_err(|e| format!("{:?}", e.kind()))).collect()
                })).unwrap_or_else(|_| vec![Err("panic".to_string())]);
                let ok = got.len() == exp.len() && got.iter().zip(exp.iter()).all(|(g, e)| g.as_ref().ok() == Some(e));
                if !ok { return Some(json!({"capacity": cap, "read_chunk": chunk, "interrupted_read_call": fault, "lines": got.iter().map(|g| format!("{:?}", g)).collect::<Vec<_>>()})); }
            }
        }
    }
    None
}

pub fn replay(cases: &[J]) -> J {
    let dir = scratch();
    let mut rep = Report::new("reader");
    // a file whose size is reported as 0 although it has content (procfs): its lines still reach the query
    if let Ok(text) = std::fs::read_to_string("/proc/version") {
        let tables0 = setup_tables("CREATE TABLE t('(.*)' => x TEXT);").unwrap();
        let obs = run_batch(&tables0, "SELECT x FROM t", &[std::path::PathBuf::from("/proc/version")], &json!({"at": "none", "n": 0}), OutputFormat::Json);
        let got: Vec<String> = obs.records.iter().map(|r| r["x"].as_str().unwrap_or("").to_string()).collect();
        let exp: Vec<String> = text.lines().map(|l| l.to_string()).collect();
        if got != exp { rep.mismatch(&json!({"files": ["/proc/version"], "note": "size 0 in metadata, content when read"}), json!({"lines": exp}), json!({"lines": got, "status": obs.status}), "a file of reported size 0 with content lost its lines"); }
        else { rep.count("procfs_file_read"); }
    }
    let tables = setup_tables("CREATE TABLE t('(.*)' => x TEXT);\nCREATE TABLE u('(.*)' => y TEXT);").unwrap();
    let none = json!({"at": "none", "n": 0});
    for (ci, case) in cases.iter().enumerate() {
        tick(case);
        // 'x' stands for a run of ordinary bytes; every 50th case is also run with runs around the BufReader capacity
        let units: Vec<usize> = if ci % 200 == 0 { vec![1, 8191, 8192, 8193, 65535, 65536, 100000] } else if ci % 50 == 0 { vec![1, 8191, 8192, 8193] } else { vec![1] };
        for unit in units {
            let mut paths = Vec::new();
            for (i, f) in case["files"].as_array().unwrap().iter().enumerate() {
                let p = dir.join(format!("r{}.log", i));
                std::fs::write(&p, expand(&bytes_of(f), unit)).unwrap();
                paths.push(p);
            }
            let exp: Vec<String> = case["lines"].as_array().unwrap().iter().map(|l| expected_line(l, unit)).collect();
            let obs = run_batch(&tables, "SELECT x FROM t", &paths, &none, OutputFormat::Json);
            let got: Vec<String> = obs.records.iter().map(|r| r["x"].as_str().unwrap_or("\u{0}not-a-string").to_string()).collect();
            let cnt = run_batch(&tables, "SELECT COUNT(*) AS n FROM t", &paths, &none, OutputFormat::Json);
            let n = cnt.records.get(0).map(|r| r["n"].as_u64().unwrap_or(u64::MAX)).unwrap_or(0);
            // the joined file is read by a second loop of the code: the same lines must arrive there
            let jq = format!("SELECT COUNT(*) AS n FROM t INNER JOIN u::{} ON t.x = u.y", crate::sql::quote(paths[0].to_str().unwrap()));
            let jn = if paths.len() == 1 {
                let j = run_batch(&tables, &jq, &paths, &none, OutputFormat::Json);
                if j.status != "ok" { u64::MAX } else { j.records.get(0).map(|r| r["n"].as_u64().unwrap_or(u64::MAX)).unwrap_or(0) }
            } else { 0 };
            // self-join on the whole line: every line pairs with each of its duplicates
            let exp_jn: u64 = if paths.len() == 1 { exp.iter().map(|a| exp.iter().filter(|b| *b == a).count() as u64).sum() } else { 0 };
            let short = |v: &Vec<String>| v.iter().map(|s| if s.len() > 40 { format!("{}..({} bytes)", s.chars().take(8).collect::<String>(), s.len()) } else { s.clone() }).collect::<Vec<_>>();
            let observed = json!({"lines": short(&got), "status": obs.status, "total_lines": obs.consumed, "count": n, "join_pairs": jn, "unit": unit});
            let expected = json!({"lines": short(&exp), "status": "ok", "total_lines": exp.len(), "count": exp.len(), "join_pairs": exp_jn, "unit": unit});
            let lost = case["lost"].as_bool().unwrap();
            // the same bytes through the public line reader over short reads and one interrupted read (single file, short contents)
            if unit == 1 && paths.len() == 1 {
                if let Some(bad) = faulty_runs(&bytes_of(&case["files"][0]), &exp) {
                    rep.mismatch(case, json!({"lines": short(&exp)}), bad, "lossy_lines over short / interrupted reads differs from Reader.tla");
                    continue;
                }
                rep.count("faulty_reader_runs");
            }
            if got == exp && obs.status == "ok" && obs.consumed as usize == exp.len() && n as usize == exp.len() && cnt.status == "ok" && jn == exp_jn {
                if lost { rep.dev_witness("InvalidUtf8EndsFile", case); rep.count("dev_InvalidUtf8EndsFile"); }
                rep.ok(case, format!("{}|{}", case["files"], unit), !exp.is_empty());
            } else {
                rep.mismatch(case, expected, observed, "FileExecutor line reading differs from Reader.tla");
            }
        }
    }
    cleanup_scratch();
    rep.finish()
}
