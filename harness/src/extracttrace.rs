//! impl -> spec (semantic) for Extract.tla over an open-ended space of definitions and lines.
//!
//! Random table definitions (patterns drawn from a pool of realistic regular expressions in capture and split mode,
//! inline patterns, JSON paths; every column type and modifier) and random lines (log-like tokens, carriage returns,
//! tabs, Unicode blanks, numeric extremes, JSON documents written by a randomised writer: escapes in keys and
//! strings, insignificant blanks, alternative number spellings).  What each pattern *matches* is asked of the
//! `regex` crate directly and what the line *is* as a JSON document of `serde_json` (both are the trusted base);
//! the event carries those answers, the definition and the row the real code produced.  Trace_Extract.tla computes
//! the row from the answers with Extract.tla (typed conversion, DEFAULT, TRIM, arrays / TIMESTAMP position by
//! position, JSON paths, admission) and requires the observed row to be that row.
use crate::common::*;
use crate::sql::quote;
use crate::val::*;
use rand::{Rng, SeedableRng};
use serde_json::{json, Value as J};
use sqlgrep::data_model::{ColumnDefinition, ColumnOptions, ColumnParsing, JsonAccess, RegexMode, RegexResultReference, TableDefinition};
use sqlgrep::execution::execution_engine::{ExecutionConfig, ExecutionEngine};
use sqlgrep::model::ValueType;

type R = rand::rngs::StdRng;

const CAPS: &[&str] = &[
    r"^(\S+) (.*)$", r"(\d+)-(\d+)", r"([a-z]+)=([^ ;]*)", r"(?:k=(\w+))? ?(?:v=(-?\d+))?", r"(.+?):(.*)", r"^(.*)$", r"(\w+)\s+(\w+)?",
    r"([0-9.]+)", r"(a|b)(c)?", r"(?i)(err|warn)\b", r"\[(.*?)\]", r"(\d{4})-(\d{2})-(\d{2})[T ](\d{2}):(\d{2}):(\d{2})(?:\.(\d+))?",
    r"(\d+) (\w+) (\d+)", r"(.)(.)?$", r"^\s*(\S.*?)\s*$", r"x(.*)y", r"([^,]*),([^,]*)(?:,(.*))?", r"(\p{L}+)",
    r"(-?\d+(?:\.\d+)?(?:[eE][-+]?\d+)?)", r"(true|false|TRUE)", r"(-?\d+):(\d+):(\d+)", r"^([0-9]+) (.*)$", r"(.*) (\S+)$", r"v=(\S*)",
    r"([^\t]*)\t([^\t]*)", r"(\s+)", r"([+-]?(?:inf|nan|\d+\.?\d*))", r"^(\w+)", r"(\w+)$", r"(.+)",
];
const SPLITS: &[&str] = &[",", ";", r"\s+", r"\t", "[,;]", r" *\| *", "=", ":", " ", r"\s*,\s*", "-"];
const TS_PATTERN: usize = 11;
const DMY_PATTERN: usize = 12;

const TOKENS: &[&str] = &[
    "a", "b", "c", "err", "WARN", "Err", "k=a", "k=b", "v=12", "v=-3", "v=", "k=", "x", "y", "xy", "ab", "ac", "2021-03-04 05:06:07", "2021-03-04T05:06:07.123",
    "2020-02-29 23:59:59.999999", "2021-02-30 00:00:00", "2021-13-01 00:00:00", "12:30:00", "-1:0:0", "0:90:0", "4 Mar 2021", "31 feb 2020", "7 jun 1999", "1 May 2000",
    "0", "7", "-1", "+5", "007", "1.5", ".5", "5.", "1e3", "2.5e-1", "inf", "-inf", "nan", "NaN", "Infinity", "0.25", "-0.0", "100", "999999999", "9223372036854775807",
    "9223372036854775808", "-9223372036854775808", "4294967297", "2147483648", "true", "false", "TRUE", "[x y]", "[]", "x..y", "é", "ß", "日本", "Ǆ", "done", "50%",
    "copying", "first", "second", "note", "200", "404", "-", "--", "'", "\"q\"", "\\", "{", "}",
];
const SEPS: &[&str] = &[" ", " ", " ", ",", ";", "\t", "  ", "\r", ":", "-", "=", " | ", "", "\u{2003}", "\u{a0}", ", ", "\r ", ".", "\u{b}", "\u{85}"];

const KEYS: &[&str] = &["a", "b", "c", "n", "name", "größe", "id", "x1", "v"];
const ODD_KEYS: &[&str] = &["0", "1", "a b", "a.b", "", "A", "é"];

fn pick<'a>(r: &mut R, xs: &[&'a str]) -> &'a str { xs[r.gen_range(0..xs.len())] }
fn cps(s: &str) -> J { J::Array(s.chars().map(|c| json!(c as u32)).collect()) }

// ---- JSON documents: a random value, written by a randomised writer ---------------------------------------------
fn gen_doc(r: &mut R, depth: u32) -> J {
    let k = if depth == 0 { r.gen_range(0..6) } else { r.gen_range(0..9) };
    match k {
        0 => J::Null,
        1 => json!(r.gen_bool(0.5)),
        2 => { let pool: [i64; 12] = [0, 1, -1, 7, 42, 100, 999999999, -5, i64::MAX, i64::MIN, 4294967297, 2147483648]; json!(pool[r.gen_range(0..pool.len())]) }
        3 => { let pool = [0.0, 1.5, -0.25, 2.0, 100.0, 0.5, -3.75, 1024.0]; json!(pool[r.gen_range(0..pool.len())]) }
        4 => json!(pick(r, &["", "a", "x y", "12", "-3", "1.5", "true", "é", "größe", " pad ", "2021-03-04 05:06:07", "1:30:00", "a\"b", "back\\slash", "tab\there", "日本", "\u{1f600}", "nan", "7"])),
        5 => json!(u64::MAX - r.gen_range(0..2) as u64 * (u64::MAX - i64::MAX as u64 - 1)),       // 18446744073709551615 or 9223372036854775808
        6 | 7 => {
            let n = r.gen_range(0..4);
            let mut m = serde_json::Map::new();
            for _ in 0..n {
                let key = if r.gen_bool(0.15) { pick(r, ODD_KEYS) } else { pick(r, KEYS) };
                if !m.contains_key(key) { m.insert(key.to_string(), gen_doc(r, depth - 1)); }       // no duplicate keys (left open by the property)
            }
            J::Object(m)
        }
        _ => { let n = r.gen_range(0..4); J::Array((0..n).map(|_| gen_doc(r, depth - 1)).collect()) }
    }
}

fn write_str(r: &mut R, s: &str, esc: f64, out: &mut String) {
    out.push('"');
    for c in s.chars() {
        let must = c == '"' || c == '\\' || (c as u32) < 0x20;
        if must || r.gen_bool(esc) {
            match c {
                '"' if r.gen_bool(0.7) => out.push_str("\\\""),
                '\\' if r.gen_bool(0.7) => out.push_str("\\\\"),
                '\t' if r.gen_bool(0.5) => out.push_str("\\t"),
                '/' => out.push_str("\\/"),
                _ => { let mut b = [0u16; 2]; for u in c.encode_utf16(&mut b) { out.push_str(&format!("\\u{:04x}", u)); } }
            }
        } else { out.push(c); }
    }
    out.push('"');
}
fn ws(r: &mut R, p: f64, out: &mut String) { if r.gen_bool(p) { out.push_str(pick(r, &[" ", "  ", "\t", " \t "])); } }
fn write_num(r: &mut R, n: &serde_json::Number, out: &mut String) {
    if let Some(i) = n.as_i64() {
        if i.unsigned_abs() < 1000 && r.gen_bool(0.2) {
            // another spelling of the same mathematical value (it is then a REAL for serde_json: the oracle decides)
            match r.gen_range(0..4) { 0 => out.push_str(&format!("{}.0", i)), 1 => out.push_str(&format!("{}e0", i)), 2 => out.push_str(&format!("{}E+0", i)), _ => out.push_str(&format!("{}0e-1", i)) }
            return;
        }
        if i == 0 && r.gen_bool(0.2) { out.push_str("-0"); return; }
    }
    out.push_str(&n.to_string());
}
fn write_doc(r: &mut R, d: &J, esc: f64, wsp: f64, out: &mut String) {
    match d {
        J::Object(m) => {
            out.push('{'); ws(r, wsp, out);
            for (i, (k, v)) in m.iter().enumerate() {
                if i > 0 { out.push(','); ws(r, wsp, out); }
                write_str(r, k, esc, out); ws(r, wsp, out); out.push(':'); ws(r, wsp, out);
                write_doc(r, v, esc, wsp, out); ws(r, wsp, out);
            }
            out.push('}');
        }
        J::Array(xs) => {
            out.push('['); ws(r, wsp, out);
            for (i, v) in xs.iter().enumerate() { if i > 0 { out.push(','); ws(r, wsp, out); } write_doc(r, v, esc, wsp, out); ws(r, wsp, out); }
            out.push(']');
        }
        J::String(s) => write_str(r, s, esc, out),
        J::Number(n) => write_num(r, n, out),
        o => out.push_str(&o.to_string())
    }
}

/// serde_json's reading of a line -> the abstract document of Extract.tla
fn abstract_doc(d: &J) -> J {
    match d {
        J::Null => json!({"k": "null"}),
        J::Bool(b) => json!({"k": "bool", "b": b}),
        J::String(s) => json!({"k": "str", "s": cps(s)}),
        J::Number(n) => {
            if let Some(i) = n.as_i64() { json!({"k": "num", "v": jint(i)}) }
            else if n.is_u64() { json!({"k": "num", "v": {"t": "u64big"}}) }
            else { json!({"k": "num", "v": jreal(n.as_f64().unwrap())}) }
        }
        J::Array(xs) => json!({"k": "arr", "xs": xs.iter().map(abstract_doc).collect::<Vec<_>>()}),
        J::Object(m) => json!({"k": "obj", "fs": m.iter().map(|(k, v)| json!([k, abstract_doc(v)])).collect::<Vec<_>>()})
    }
}

/// a leaf that fits (or, one time in three, does not fit) the declared type of the column that addresses it
fn leaf_for(r: &mut R, c: &J) -> J {
    if r.gen_bool(0.3) { return gen_doc(r, 1); }
    let ty = if c["ty"] == "arr" { c["el"].as_str().unwrap() } else { c["ty"].as_str().unwrap() };
    let one = |r: &mut R| -> J {
        if c["conv"] == true {
            return json!(pick(r, &["12", "-3", "1.5", "true", "false", "x y", "2021-03-04 05:06:07", "1:30:00", "", " 7", "9223372036854775807", "9223372036854775808", "inf", "1e2"]));
        }
        match ty {
            "int" => { let pool: [i64; 9] = [0, 1, -1, 42, 999999999, i64::MAX, i64::MIN, 4294967297, 2147483648];
                       if r.gen_bool(0.15) { json!(9223372036854775808u64 + r.gen_range(0..2) as u64 * 9223372036854775807u64) } else if r.gen_bool(0.1) { json!(1.0) } else { json!(pool[r.gen_range(0..pool.len())]) } }
            "real" => { let pool = [0.0, 1.5, -0.25, 2.0, 100.0]; if r.gen_bool(0.3) { json!(r.gen_range(-3..100)) } else { json!(pool[r.gen_range(0..pool.len())]) } }
            "bool" => json!(r.gen_bool(0.5)),
            "text" => json!(pick(r, &["", "a", "x y", "12", "é", " pad ", "a\"b", "tab\there", "日本", "\u{1f600}", "null"])),
            _ => json!(pick(r, &["2021-03-04 05:06:07", "1:30:00", "x"]))
        }
    };
    if c["ty"] == "arr" && r.gen_bool(0.8) { let n = r.gen_range(0..4); return J::Array((0..n).map(|_| if r.gen_bool(0.15) { gen_doc(r, 0) } else { one(r) }).collect()); }
    one(r)
}

/// plant a value at the end of a column's path (creating the objects / arrays on the way; an existing node of another kind stops the walk)
fn plant(r: &mut R, node: &mut J, path: &[J], leaf: J) {
    if path.is_empty() { *node = leaf; return; }
    let st = &path[0];
    if st["k"] == "field" {
        if node.is_null() { *node = J::Object(serde_json::Map::new()); }
        if let J::Object(m) = node {
            let key = st["name"].as_str().unwrap().to_string();
            if !m.contains_key(&key) { m.insert(key.clone(), J::Null); }
            plant(r, m.get_mut(&key).unwrap(), &path[1..], leaf);
        }
    } else {
        let i = st["i"].as_u64().unwrap() as usize;
        if node.is_null() { let n = i + r.gen_range(0..3); *node = J::Array((0..n).map(|_| gen_doc(r, 0)).collect()); }     // sometimes one too short: the index is absent
        if let J::Array(xs) = node { if i < xs.len() { plant(r, &mut xs[i], &path[1..], leaf); } }
    }
}

/// a document built along the JSON paths of the definition (so that paths resolve, fully or up to a node of the wrong kind), plus unrelated members
fn doc_for(r: &mut R, cols: &[J]) -> J {
    let mut root = J::Null;
    for c in cols.iter().filter(|c| c["src"] == "json") {
        if r.gen_bool(0.2) { continue; }
        let path = c["path"].as_array().unwrap();
        let cut = if r.gen_bool(0.15) { r.gen_range(0..path.len() + 1) } else { path.len() };      // a scalar where the path wants to go on
        let leaf = if cut < path.len() { gen_doc(r, 0) } else { leaf_for(r, c) };
        plant(r, &mut root, &path[..cut], leaf);
    }
    if let J::Object(m) = &mut root { for _ in 0..r.gen_range(0..3) { let k = pick(r, KEYS); if !m.contains_key(k) { m.insert(k.to_string(), gen_doc(r, 1)); } } }
    root
}

// ---- lines -----------------------------------------------------------------------------------------------------
pub fn gen_line(r: &mut R, cols: &[J]) -> String {
    let kind = r.gen_range(0..10);
    let any_json = cols.iter().any(|c| c["src"] == "json");
    if kind < 3 || (any_json && kind < 7) {
        let d = if any_json && r.gen_bool(0.75) { doc_for(r, cols) } else { gen_doc(r, 3) };
        let d = if d.is_object() || r.gen_bool(0.3) { d } else { let mut m = serde_json::Map::new(); m.insert(pick(r, KEYS).to_string(), d); J::Object(m) };
        let mut s = String::new();
        let esc = *[0.0, 0.0, 0.3, 1.0].get(r.gen_range(0..4)).unwrap();
        let wsp = *[0.0, 0.3, 0.8].get(r.gen_range(0..3)).unwrap();
        if r.gen_bool(0.15) { s.push_str(pick(r, &[" ", "\t", "  "])); }
        write_doc(r, &d, esc, wsp, &mut s);
        if r.gen_bool(0.15) { s.push_str(pick(r, &[" ", "\r", "\t", " trailing", " {}", ","])); }
        return s;
    }
    if kind == 3 {
        if r.gen_bool(0.4) {
            // a long line of multi-byte characters after 0-3 ASCII characters (any fixed byte offset falls inside a character for some of them), possibly ending like a row
            let c = ['ä', '日', '😀', 'é'][r.gen_range(0..4)];
            let mut s: String = "note:  ".chars().take(r.gen_range(0..8)).collect();
            for _ in 0..r.gen_range(20..130) { s.push(c); }
            if r.gen_bool(0.5) { s.push(' '); s.push_str(pick(r, TOKENS)); }
            return s;
        }
        return pick(r, &["", " ", "\r", "{", "[1,", "null", "12", "\"s\"", "{\"a\":}", "\u{feff}{\"a\":1}", "x"]).to_string();
    }
    let n = r.gen_range(1..6);
    let mut s = String::new();
    if r.gen_bool(0.1) { s.push_str(pick(r, SEPS)); }
    for i in 0..n { if i > 0 { s.push_str(pick(r, SEPS)); } s.push_str(pick(r, TOKENS)); }
    if r.gen_bool(0.15) { s.push_str(pick(r, SEPS)); }
    s
}

// ---- definitions -----------------------------------------------------------------------------------------------
pub struct Pat { name: String, text: String, split: bool, inline: bool }

fn scalar_types() -> [&'static str; 6] { ["text", "int", "real", "bool", "ts", "iv"] }
fn default_of(r: &mut R, ty: &str) -> J {
    match ty {
        "int" => jint([7, 0, -1][r.gen_range(0..3)]),
        "real" => jreal([2.5, 0.0][r.gen_range(0..2)]),
        "text" => json!({"t": "text", "s": cps(pick(r, &["dflt", "", " d "]))}),
        "bool" => json!({"t": "bool", "v": r.gen_bool(0.5)}),
        _ => json!({"t": "nodef"})
    }
}
fn ident_like(s: &str) -> bool { !s.is_empty() && s.chars().next().unwrap().is_alphabetic() && s.chars().all(|c| c.is_alphanumeric() || c == '_') && s.chars().all(|c| !c.is_uppercase()) }

pub fn gen_definition(r: &mut R) -> (Vec<Pat>, Vec<J>) {
    let mut pats: Vec<Pat> = Vec::new();
    let np = r.gen_range(0..4);
    for i in 0..np {
        let split = r.gen_bool(0.25);
        let text = if split { pick(r, SPLITS) } else if r.gen_bool(0.12) { CAPS[TS_PATTERN] } else if r.gen_bool(0.06) { CAPS[DMY_PATTERN] } else { pick(r, CAPS) };
        pats.push(Pat { name: format!("p{}", i + 1), text: text.to_string(), split, inline: false });
    }
    let nc = r.gen_range(1..5);
    let text_only = r.gen_range(0..7) == 0;
    let mut cols = Vec::new();
    for _ in 0..nc {
        let named: Vec<usize> = (0..pats.len()).filter(|i| !pats[*i].inline).collect();
        let k = if text_only { r.gen_range(3..8) } else { r.gen_range(0..10) };
        let mut col = json!({"src": "one", "refs": [], "path": [], "ty": "text", "el": "", "nn": false, "trim": false, "conv": false, "micro": false, "def": {"t": "nodef"}});
        let ngroups = |p: &Pat| -> usize { if p.split { 4 } else { regex::Regex::new(&p.text).unwrap().captures_len() } };
        if k < 3 {
            // a JSON path
            let depth = r.gen_range(1..4);
            let mut path = Vec::new();
            for j in 0..depth {
                if r.gen_bool(if j == 0 { 0.1 } else { 0.3 }) { path.push(json!({"k": "idx", "i": r.gen_range(0..3)})); }
                else { let key = if r.gen_bool(0.1) { pick(r, ODD_KEYS) } else { pick(r, KEYS) }; path.push(json!({"k": "field", "name": key})); }
            }
            col["src"] = json!("json"); col["path"] = J::Array(path);
            if r.gen_bool(0.25) { col["ty"] = json!("arr"); col["el"] = json!(pick(r, &["int", "text", "real", "bool"])); } else { col["ty"] = json!(pick(r, &scalar_types())); }
            if r.gen_bool(0.25) { col["conv"] = json!(true); }
        } else if k < 4 || named.is_empty() {
            // an inline pattern (bound to its first group)
            let text = pick(r, CAPS).to_string();
            let name = format!("_i{}", pats.len() + 1);
            pats.push(Pat { name: name.clone(), text, split: false, inline: true });
            col["refs"] = json!([{"p": name, "g": 1}]);
            col["ty"] = json!(pick(r, &scalar_types()));
        } else if k < 8 {
            let p = &pats[named[r.gen_range(0..named.len())]];
            let g = r.gen_range(0..ngroups(p) + 1);       // group 0 (the whole match) up to one beyond the last group
            col["refs"] = json!([{"p": p.name, "g": g}]);
            col["ty"] = json!(pick(r, &scalar_types()));
        } else {
            // several groups: an array or a TIMESTAMP, groups in any order, possibly from several patterns
            col["src"] = json!("multi");
            let ts_pat = named.iter().find(|i| pats[**i].text == CAPS[TS_PATTERN]);
            let dmy_pat = named.iter().find(|i| pats[**i].text == CAPS[DMY_PATTERN]);
            if let (Some(i), true) = (ts_pat, r.gen_bool(0.7)) {
                let n = r.gen_range(2..8);
                col["refs"] = J::Array((1..=n).map(|g| json!({"p": pats[*i].name, "g": g})).collect());
                col["ty"] = json!("ts");
                if r.gen_bool(0.3) { col["micro"] = json!(true); }
            } else if let (Some(i), true) = (dmy_pat, r.gen_bool(0.7)) {
                col["refs"] = json!([{"p": pats[*i].name, "g": 3}, {"p": pats[*i].name, "g": 2}, {"p": pats[*i].name, "g": 1}]);
                col["ty"] = json!("ts");
            } else {
                let n = r.gen_range(2..4);
                let mut refs = Vec::new();
                for _ in 0..n { let p = &pats[named[r.gen_range(0..named.len())]]; refs.push(json!({"p": p.name, "g": r.gen_range(0..ngroups(p) + 1)})); }
                col["refs"] = J::Array(refs);
                if r.gen_bool(0.8) { col["ty"] = json!("arr"); col["el"] = json!(pick(r, &["int", "text", "real", "bool"])); } else { col["ty"] = json!("ts"); }
            }
        }
        // one definition in seven is "text only": every column a single TEXT group without modifiers (what a grep-like table looks like)
        if text_only { if col["src"] == "one" { col["ty"] = json!("text"); cols.push(col); continue; } }
        // modifiers
        let ty = col["ty"].as_str().unwrap().to_string();
        if r.gen_bool(0.15) { col["nn"] = json!(true); }
        if ty == "text" && r.gen_bool(0.4) { col["trim"] = json!(true); }
        if r.gen_bool(0.25) { col["def"] = default_of(r, &ty); }
        cols.push(col);
    }
    (pats, cols)
}

fn type_sql(ty: &str, el: &str) -> String {
    let base = |t: &str| match t { "text" => "TEXT", "int" => "INT", "real" => "REAL", "bool" => "BOOLEAN", "ts" => "TIMESTAMP", "iv" => "INTERVAL", o => panic!("type {}", o) }.to_string();
    if ty == "arr" { format!("{}[]", base(el)) } else { base(ty) }
}
fn value_type(ty: &str, el: &str) -> ValueType {
    let base = |t: &str| match t { "text" => ValueType::String, "int" => ValueType::Int, "real" => ValueType::Float, "bool" => ValueType::Bool,
                                   "ts" => ValueType::Timestamp, "iv" => ValueType::Interval, o => panic!("type {}", o) };
    if ty == "arr" { ValueType::Array(Box::new(base(el))) } else { base(ty) }
}
fn modifiers(c: &J) -> Vec<String> {
    let mut m = Vec::new();
    if c["nn"] == true { m.push("NOT NULL".to_string()); }
    if c["trim"] == true { m.push("TRIM".to_string()); }
    if c["conv"] == true { m.push("CONVERT".to_string()); }
    if c["micro"] == true { m.push("MICROSECONDS".to_string()); }
    if c["def"]["t"] != "nodef" { m.push(format!("DEFAULT {}", crate::sql::literal(&c["def"]))); }
    m
}

/// CREATE TABLE text, when the grammar can say it (one modifier per column, identifier-like JSON keys)
pub fn definition_sql(pats: &[Pat], cols: &[J]) -> Option<String> {
    let mut parts: Vec<String> = pats.iter().filter(|p| !p.inline).map(|p| format!("{} = {}{}", p.name, if p.split { "split " } else { "" }, quote(&p.text))).collect();
    for (i, c) in cols.iter().enumerate() {
        let mods = modifiers(c);
        if mods.len() > 1 { return None; }
        if c["def"]["t"] == "int" && int_of(&c["def"]) < 0 { return None; }       // DEFAULT takes a literal: a negative number goes through the API
        let src = if c["src"] == "json" {
            let mut s = String::from("{ ");
            for st in c["path"].as_array().unwrap() {
                if st["k"] == "field" { let n = st["name"].as_str().unwrap(); if !ident_like(n) { return None; } s += &format!(".{}", n); } else { s += &format!("[{}]", st["i"]); }
            }
            s + " }"
        } else {
            let refs = c["refs"].as_array().unwrap();
            let p0 = pats.iter().find(|p| p.name == refs[0]["p"].as_str().unwrap()).unwrap();
            if p0.inline { quote(&p0.text) }
            else { refs.iter().map(|r| format!("{}[{}]", r["p"].as_str().unwrap(), r["g"])).collect::<Vec<_>>().join(", ") }
        };
        parts.push(format!("{} => c{} {}{}", src, i + 1, type_sql(c["ty"].as_str().unwrap(), c["el"].as_str().unwrap()), mods.get(0).map(|m| format!(" {}", m)).unwrap_or_default()));
    }
    Some(format!("CREATE TABLE x(\n  {}\n);", parts.join(",\n  ")))
}

fn definition_api(pats: &[Pat], cols: &[J]) -> Option<TableDefinition> {
    let mut defs = Vec::new();
    for (i, c) in cols.iter().enumerate() {
        let parsing = if c["src"] == "json" {
            let parts = c["path"].as_array().unwrap().iter().map(|st| {
                if st["k"] == "field" { JsonAccess::Field { name: st["name"].as_str().unwrap().to_string(), inner: None } }
                else { JsonAccess::Array { index: st["i"].as_u64().unwrap() as usize, inner: None } }
            }).collect();
            ColumnParsing::Json(JsonAccess::from_linear(parts))
        } else {
            let refs: Vec<RegexResultReference> = c["refs"].as_array().unwrap().iter()
                .map(|r| RegexResultReference::new(r["p"].as_str().unwrap().to_string(), r["g"].as_u64().unwrap() as usize)).collect();
            if c["src"] == "one" { ColumnParsing::Regex(refs.into_iter().next().unwrap()) } else { ColumnParsing::MultiRegex(refs) }
        };
        let mut o = ColumnOptions::new();
        o.nullable = c["nn"] != true;
        o.trim = c["trim"] == true;
        o.convert = c["conv"] == true;
        o.microseconds = c["micro"] == true;
        if c["def"]["t"] != "nodef" { o.default_value = Some(concretise(&c["def"])); }
        defs.push(ColumnDefinition::with_options(parsing, &format!("c{}", i + 1), value_type(c["ty"].as_str().unwrap(), c["el"].as_str().unwrap()), o));
    }
    TableDefinition::new("x", pats.iter().map(|p| (p.name.as_str(), p.text.as_str(), if p.split { RegexMode::Split } else { RegexMode::Captures })).collect(), defs)
}

/// every number of an event must be readable by TLC (32-bit integers; REALs in the dyadic universe)
fn tlc_readable(v: &J) -> bool {
    match v {
        J::Number(n) => n.as_i64().map(|i| i.unsigned_abs() < (1 << 31) - 1).unwrap_or(false),
        J::Array(xs) => xs.iter().all(tlc_readable),
        J::Object(m) => m.get("c").map(|c| c != "other").unwrap_or(true) && m.values().all(tlc_readable),
        _ => true
    }
}

pub fn trace(seed: u64, n: usize) -> Vec<J> {
    let mut r = R::seed_from_u64(seed ^ 0xE87AC7);
    let mut events = Vec::new();
    let stmt = sqlgrep::parsing::parse("SELECT * FROM x").unwrap();
    while events.len() < n {
        let (pats, cols) = gen_definition(&mut r);
        let sql = definition_sql(&pats, &cols);
        // inline patterns are named by the parser: through the API they carry the names this driver gave them
        let mut tables = sqlgrep::Tables::new();
        let via;
        match &sql {
            Some(s) if r.gen_bool(0.85) => {
                via = "parser";
                match std::panic::catch_unwind(|| sqlgrep::parsing::parse(s)) {
                    Ok(Ok(st)) => { tables.add_tables(st); }
                    Ok(Err(e)) => { events.push(json!({"ev": "extract", "open": false, "cols": cols, "line": {"pats": {"zz": {"m": false, "gs": []}}, "doc": {"k": "nodoc"}},
                                                       "out": {"st": "rejected", "row": []}, "src": format!("{} -- {}", s, e)})); continue; }
                    Err(_) => { events.push(json!({"ev": "extract", "open": false, "cols": cols, "line": {"pats": {"zz": {"m": false, "gs": []}}, "doc": {"k": "nodoc"}},
                                                   "out": {"st": "panic", "row": []}, "src": s})); continue; }
                }
            }
            _ => { via = "api"; match definition_api(&pats, &cols) { Some(t) => tables.add_table(t), None => { eprintln!("definition rejected by the API: {:?}", sql); std::process::exit(2); } } }
        }
        let any_json = cols.iter().any(|c| c["src"] == "json");
        let mut seen_lines: Vec<(String, bool)> = Vec::new();
        for _ in 0..r.gen_range(2..7) {
            let text = gen_line(&mut r, &cols);
            tick(&json!({"line": text, "def": sql}));
            // the oracle's half: what the patterns match (regex crate) and what the line is as JSON (serde_json)
            let mut pj = serde_json::Map::new();
            pj.insert("zz".to_string(), json!({"m": false, "gs": []}));
            for p in &pats {
                let re = regex::Regex::new(&p.text).unwrap();
                let e = if p.split {
                    let mut gs = vec![json!({"ok": true, "s": cps(&text)})];
                    for f in re.split(&text) { gs.push(json!({"ok": true, "s": cps(f)})); }
                    json!({"m": true, "gs": gs})
                } else {
                    match re.captures(&text) {
                        None => json!({"m": false, "gs": []}),
                        Some(c) => json!({"m": true, "gs": (0..c.len()).map(|i| match c.get(i) { Some(m) => json!({"ok": true, "s": cps(m.as_str())}), None => json!({"ok": false, "s": []}) }).collect::<Vec<_>>()})
                    }
                };
                pj.insert(p.name.clone(), e);
            }
            let doc = if !any_json { json!({"k": "nodoc"}) } else { match serde_json::from_str::<J>(&text) { Ok(d) => abstract_doc(&d), Err(_) => json!({"k": "nodoc"}) } };
            // the code's half
            let t2 = text.clone();
            let res = std::panic::catch_unwind(std::panic::AssertUnwindSafe(|| {
                let mut engine = ExecutionEngine::new(&tables, &stmt);
                match engine.execute(t2, &ExecutionConfig::default()) {
                    Ok(out) => match out.result_row {
                        Some(rr) => json!({"st": "row", "row": rr.data[0].columns.iter().map(project).collect::<Vec<_>>()}),
                        None => json!({"st": "norow", "row": []})
                    },
                    Err(_) => json!({"st": "err", "row": []})
                }
            }));
            let mut out = res.unwrap_or(json!({"st": "panic", "row": []}));
            let mut line = json!({"pats": pj, "doc": doc});
            let mut open = false;
            if !tlc_readable(&out) || !tlc_readable(&line) {
                // a number TLC cannot read (beyond 32 bits and away from the modelled bases, or a REAL outside the dyadic universe): totality only
                open = true;
                out["row"] = json!([]);
                line = json!({"pats": {"zz": {"m": false, "gs": []}}, "doc": {"k": "nodoc"}});
            }
            seen_lines.push((text.clone(), out["st"] == "row"));
            events.push(json!({"ev": "extract", "open": open, "cols": cols, "line": line, "out": out, "src": format!("{} via {} -- {:?}", sql.clone().unwrap_or_default(), via, text)}));
            if events.len() >= n { break; }
        }
        // C06 as a law between two batch runs: the lines that gave no row above are invisible to every kind of statement -- the output over all the lines
        // is the output over the row lines alone (a line that ends in a carriage return is left out: in a file that CR would belong to the line end)
        if r.gen_bool(0.5) && seen_lines.iter().any(|(_, row)| !row) {
            let keep: Vec<&(String, bool)> = seen_lines.iter().filter(|(t, _)| !t.ends_with('\r') && !t.contains('\n')).collect();
            let dir = scratch();
            let (fa, fr) = (dir.join("noise_all.log"), dir.join("noise_rows.log"));
            std::fs::write(&fa, keep.iter().map(|(t, _)| format!("{}\n", t)).collect::<String>()).unwrap();
            std::fs::write(&fr, keep.iter().filter(|(_, row)| *row).map(|(t, _)| format!("{}\n", t)).collect::<String>()).unwrap();
            let none = json!({"at": "none", "n": 0});
            for q in ["SELECT COUNT(*) AS n FROM x", "SELECT * FROM x", "SELECT COUNT(*) * 2 AS n FROM x", "SELECT DISTINCT c1 FROM x", "SELECT c1, COUNT(*) AS n FROM x GROUP BY c1",
                      "SELECT * FROM x LIMIT 2", "SELECT COUNT(c1) AS n, COUNT(*) AS m FROM x", "SELECT COUNT(*) AS n FROM x WHERE c1 IS NULL OR c1 IS NOT NULL"] {
                tick(&json!({"noise law": q, "def": sql}));
                let a = crate::engine::run_batch(&tables, q, &[fa.clone()], &none, sqlgrep::executor::OutputFormat::Json);
                let b = crate::engine::run_batch(&tables, q, &[fr.clone()], &none, sqlgrep::executor::OutputFormat::Json);
                events.push(json!({"ev": "noiselaw", "q": q, "all": {"st": a.status, "out": a.raw}, "rows": {"st": b.status, "out": b.raw},
                                   "src": format!("{} via {} -- {:?}", sql.clone().unwrap_or_default(), via, keep)}));
            }
        }
    }
    cleanup_scratch();
    events
}
