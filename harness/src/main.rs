//! vh — the Rust side of the TLA+ binding for sqlgrep.
//!
//!   vh replay <module> <cases.ndjson> <out.json>   spec -> impl: run TLC-generated behaviours on the real code
//!   vh trace  <module> <seed> <n> <out.ndjson>     impl -> spec: drive the real code, record a trace for TLC
//!
//! A panic in the code under test is data (outcome "panic"), never a tool failure.
//! Exit status: 0 = ran to completion (mismatches are reported in the output file), 2 = tool error, 3 = hang.

mod common;
mod follow;
mod val;
mod sql;
mod engine;
mod reader;
mod printer;
mod values;
mod grammar;
mod lexical;
mod parsetotal;
mod extract;
mod extracttrace;
mod printertrace;
mod semtrace;
mod laws;
mod total;
mod exprtrace;
mod cli;

use std::process::exit;

fn usage() -> ! {
    eprintln!("usage: vh replay <module> <cases.ndjson> <out.json> | vh trace <module> <seed> <n> <out.ndjson>");
    exit(2)
}

fn main() {
    let args: Vec<String> = std::env::args().collect();
    if args.len() < 2 { usage(); }
    // silence panic backtraces of the code under test: they are caught and reported as outcomes
    if std::env::var("VH_DEBUG").is_err() { std::panic::set_hook(Box::new(|_| {})); }
    common::start_watchdog();
    match args[1].as_str() {
        "replay" if args.len() == 5 => {
            // cases are processed in chunks (a thorough run can emit millions of behaviours); the per-chunk reports are merged
            let module = args[2].clone();
            let run = |cases: &Vec<serde_json::Value>| -> serde_json::Value {
                match module.as_str() {
                    "follow" => follow::replay(cases),
                    "follow-exec" => follow::replay_exec(cases),
                    "engine" => engine::replay(cases),
                    "engine-follow" => follow::replay_engine_follow(cases),
                    "reader" => reader::replay(cases),
                    "printer" => printer::replay(cases),
                    "values" => values::replay(cases),
                    "grammar" => grammar::replay(cases),
                    "lexical" => lexical::replay(cases),
                    "parsetotal" => parsetotal::replay(cases),
                    "extract" => extract::replay(cases),
                    "cli" => cli::replay(cases),
                    "session" => cli::replay_session(cases),
                    m => { eprintln!("unknown module {}", m); exit(2) }
                }
            };
            let report = common::replay_chunked(&args[3], 20000, run);
            common::write_json(&args[4], &report);
        }
        "trace" if args.len() == 6 => {
            let seed: u64 = args[3].parse().unwrap_or_else(|_| usage());
            let n: usize = args[4].parse().unwrap_or_else(|_| usage());
            let events = match args[2].as_str() {
                "follow" => follow::trace(seed, n),
                "values" => values::trace(seed, n),
                "parse" => parsetotal::trace(seed, n),
                "laws" => laws::trace(seed, n),
                "total" => total::trace(seed, n),
                "expr" => exprtrace::trace(seed, n),
                "extract" => extracttrace::trace(seed, n),
                "printer" => printertrace::trace(seed, n),
                "sem" => semtrace::trace(seed, n),
                "process" => total::trace_process(seed, n),
                "sigint" => cli::trace_sigint(seed, n),
                m => { eprintln!("unknown module {}", m); exit(2) }
            };
            common::write_ndjson(&args[5], &events);
        }
        // child mode used by follow-exec: runs FollowFileExecutor on one case, hook-driven
        "follow-child" if args.len() == 3 => follow::child(&args[2]),
        // child mode used by parsetotal: classifies one text (a crash of the process is the observation)
        "parse-child" if args.len() == 3 => parsetotal::child(&args[2]),
        _ => usage()
    }
}
