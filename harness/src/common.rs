use serde_json::{json, Value as J};
use std::io::{BufRead, BufReader, Write};
use std::sync::atomic::{AtomicU64, Ordering};
use std::sync::Mutex;

pub static PROGRESS: AtomicU64 = AtomicU64::new(0);
pub static CURRENT: Mutex<String> = Mutex::new(String::new());

/// Exit with status 3 if no case finishes for `VH_HANG_SECS` seconds (default 60): a hang in the
/// code under test must not hang the check.
pub fn start_watchdog() {
    let secs: u64 = std::env::var("VH_HANG_SECS").ok().and_then(|s| s.parse().ok()).unwrap_or(60);
    std::thread::spawn(move || {
        let mut last = PROGRESS.load(Ordering::SeqCst);
        let mut still = 0;
        loop {
            std::thread::sleep(std::time::Duration::from_secs(1));
            let now = PROGRESS.load(Ordering::SeqCst);
            if now == last { still += 1; } else { still = 0; last = now; }
            if still >= secs {
                let cur = CURRENT.lock().map(|c| c.clone()).unwrap_or_default();
                println!("HANG {}", cur);
                std::process::exit(3);
            }
        }
    });
}

pub fn tick(current: &J) {
    PROGRESS.fetch_add(1, Ordering::SeqCst);
    if let Ok(mut c) = CURRENT.lock() { *c = current.to_string(); }
}

pub fn read_ndjson(path: &str) -> Vec<J> {
    let f = std::fs::File::open(path).unwrap_or_else(|e| { eprintln!("cannot open {}: {}", path, e); std::process::exit(2) });
    let mut out = Vec::new();
    for l in BufReader::new(f).lines() {
        let l = l.unwrap();
        if l.trim().is_empty() { continue; }
        out.push(serde_json::from_str(&l).unwrap_or_else(|e| { eprintln!("bad json line {}: {}", l, e); std::process::exit(2) }));
    }
    out
}

pub fn write_json(path: &str, v: &J) {
    let mut f = std::fs::File::create(path).unwrap();
    f.write_all(serde_json::to_string(v).unwrap().as_bytes()).unwrap();
}

pub fn write_ndjson(path: &str, vs: &[J]) {
    let mut f = std::io::BufWriter::new(std::fs::File::create(path).unwrap());
    for v in vs { writeln!(f, "{}", serde_json::to_string(v).unwrap()).unwrap(); }
}

/// Scratch directory for this process, under /verif/build/tmp (never /tmp).
pub fn scratch() -> std::path::PathBuf {
    let base = std::env::var("VH_SCRATCH").unwrap_or_else(|_| "/verif/build/tmp".to_string());
    let p = std::path::PathBuf::from(base).join(format!("vh-{}", std::process::id()));
    std::fs::create_dir_all(&p).unwrap();
    p
}

pub fn cleanup_scratch() {
    let base = std::env::var("VH_SCRATCH").unwrap_or_else(|_| "/verif/build/tmp".to_string());
    let p = std::path::PathBuf::from(base).join(format!("vh-{}", std::process::id()));
    let _ = std::fs::remove_dir_all(p);
}

/// Collects per-case results into the report the check script reads.
pub struct Report {
    pub module: String,
    pub cases: u64,
    pub mismatches: Vec<J>,
    pub n_mismatch: u64,
    pub nontrivial: std::collections::HashSet<String>,
    pub samples: Vec<J>,
    pub devs: std::collections::BTreeMap<String, J>,
    pub counters: std::collections::BTreeMap<String, u64>
}

impl Report {
    pub fn new(module: &str) -> Report {
        Report { module: module.to_string(), cases: 0, mismatches: Vec::new(), n_mismatch: 0,
                 nontrivial: Default::default(), samples: Vec::new(), devs: Default::default(), counters: Default::default() }
    }
    pub fn count(&mut self, key: &str) { *self.counters.entry(key.to_string()).or_insert(0) += 1; }
    /// `key`: canonical text of the case (distinctness); `nontrivial`: by the module's rule.
    pub fn ok(&mut self, case: &J, key: String, nontrivial: bool) {
        self.cases += 1;
        if nontrivial { self.nontrivial.insert(key); }
        if self.samples.len() < 5 && (nontrivial || self.cases < 3) { self.samples.push(case.clone()); }
    }
    pub fn mismatch(&mut self, case: &J, expected: J, observed: J, what: &str) {
        self.cases += 1;
        self.n_mismatch += 1;
        if self.mismatches.len() < 20 {
            self.mismatches.push(json!({"case": case, "expected": expected, "observed": observed, "what": what}));
        }
    }
    /// a case in which an as-built deviation fired and the code reproduced it
    pub fn dev_witness(&mut self, dev: &str, case: &J) {
        self.devs.entry(dev.to_string()).or_insert_with(|| case.clone());
    }
    pub fn finish(self) -> J {
        json!({
            "module": self.module, "cases": self.cases, "n_mismatch": self.n_mismatch,
            "mismatches": self.mismatches, "distinct_nontrivial": self.nontrivial.len(),
            "samples": self.samples, "dev_witnesses": self.devs, "counters": self.counters
        })
    }
}

pub fn bytes_of(v: &J) -> Vec<u8> {
    v.as_array().map(|a| a.iter().map(|x| x.as_u64().unwrap() as u8).collect()).unwrap_or_default()
}

pub fn jbytes(b: &[u8]) -> J { J::Array(b.iter().map(|x| json!(*x)).collect()) }


/// Streams an ndjson file in chunks through `run` and merges the per-chunk reports (see Report::finish).
pub fn replay_chunked<F: Fn(&Vec<J>) -> J>(path: &str, chunk: usize, run: F) -> J {
    let f = std::fs::File::open(path).unwrap_or_else(|e| { eprintln!("cannot open {}: {}", path, e); std::process::exit(2) });
    let mut merged: Option<J> = None;
    let mut buf: Vec<J> = Vec::new();
    let mut flush = |buf: &mut Vec<J>, merged: &mut Option<J>| {
        if buf.is_empty() && merged.is_some() { return; }
        let r = run(buf);
        buf.clear();
        match merged {
            None => { *merged = Some(r); }
            Some(m) => {
                for k in ["cases", "n_mismatch", "distinct_nontrivial"] { m[k] = json!(m[k].as_u64().unwrap_or(0) + r[k].as_u64().unwrap_or(0)); }
                let mm = m["mismatches"].as_array_mut().unwrap();
                for x in r["mismatches"].as_array().unwrap() { if mm.len() < 20 { mm.push(x.clone()); } }
                let ss = m["samples"].as_array_mut().unwrap();
                for x in r["samples"].as_array().unwrap() { if ss.len() < 5 { ss.push(x.clone()); } }
                for (d, w) in r["dev_witnesses"].as_object().unwrap() { if m["dev_witnesses"].get(d).is_none() { m["dev_witnesses"][d] = w.clone(); } }
                for (c, n) in r["counters"].as_object().unwrap() { let old = m["counters"][c].as_u64().unwrap_or(0); m["counters"][c] = json!(old + n.as_u64().unwrap_or(0)); }
            }
        }
    };
    for l in BufReader::new(f).lines() {
        let l = l.unwrap();
        if l.trim().is_empty() { continue; }
        PROGRESS.fetch_add(1, Ordering::SeqCst);        // reading counts as progress for the watchdog
        buf.push(serde_json::from_str(&l).unwrap_or_else(|e| { eprintln!("bad json line {}: {}", l, e); std::process::exit(2) }));
        if buf.len() >= chunk { flush(&mut buf, &mut merged); }
    }
    flush(&mut buf, &mut merged);
    merged.unwrap()
}
