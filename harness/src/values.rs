//! Binding of spec/Values.tla (MC_Values) to the trait impls of sqlgrep::model::Value.
use crate::common::*;
use crate::val::*;
use serde_json::{json, Value as J};
use std::cmp::Ordering;
use std::hash::{Hash, Hasher};

fn h_std<T: Hash>(v: &T) -> u64 { let mut h = std::collections::hash_map::DefaultHasher::new(); v.hash(&mut h); h.finish() }
fn h_fnv<T: Hash>(v: &T) -> u64 {
    // FNV-1a, the hasher sqlgrep uses for DISTINCT (fnv crate): same algorithm, written out
    struct Fnv(u64);
    impl Hasher for Fnv {
        fn finish(&self) -> u64 { self.0 }
        fn write(&mut self, bytes: &[u8]) { for b in bytes { self.0 ^= *b as u64; self.0 = self.0.wrapping_mul(0x100000001b3); } }
    }
    let mut h = Fnv(0xcbf29ce484222325); v.hash(&mut h); h.finish()
}
fn ord(o: Ordering) -> i64 { match o { Ordering::Less => -1, Ordering::Equal => 0, Ordering::Greater => 1 } }

pub fn observe(a: &J, b: &J) -> J {
    let (x, y) = (concretise(a), concretise(b));
    let r = std::panic::catch_unwind(std::panic::AssertUnwindSafe(|| {
        json!({"eq": x == y, "cmp": ord(x.cmp(&y)), "pcmp": x.partial_cmp(&y).map(ord),
               "lt": x < y, "gt": x > y, "le": x <= y, "ge": x >= y,
               "hasheq": h_std(&x) == h_std(&y) && h_fnv(&x) == h_fnv(&y),
               "vec_hasheq": h_fnv(&vec![x.clone()]) == h_fnv(&vec![y.clone()])})
    }));
    r.unwrap_or(json!({"panic": true}))
}

pub fn replay(cases: &[J]) -> J {
    let mut rep = Report::new("values");
    for case in cases {
        tick(case);
        let o = observe(&case["a"], &case["b"]);
        let (eq, cmp) = (case["eq"].as_bool().unwrap(), case["cmp"].as_i64().unwrap());
        let matches = |eq: bool, cmp: i64| {
            o["eq"] == eq && o["cmp"] == cmp && o["pcmp"] == cmp
                && o["lt"] == (cmp < 0) && o["gt"] == (cmp > 0) && o["le"] == (cmp <= 0) && o["ge"] == (cmp >= 0)
        };
        // equal values must hash equally (the converse is not required of a hash)
        let hash_ok = |eq: bool| !eq || (o["hasheq"] == true && o["vec_hasheq"] == true);
        let exp_hash = case["hasheq"].as_bool().unwrap();
        let fired: Vec<String> = case["fired"].as_array().unwrap().iter().map(|d| d.as_str().unwrap().to_string()).collect();
        if o["panic"] == true {
            rep.mismatch(case, json!({"eq": eq, "cmp": cmp}), o, "comparison panicked");
        } else if matches(eq, cmp) && hash_ok(eq) && (!exp_hash || o["hasheq"] == true) {
            for d in &fired { rep.dev_witness(d, case); rep.count(&format!("dev_{}", d)); }
            rep.ok(case, format!("{}|{}", case["a"], case["b"]), case["a"]["t"] == case["b"]["t"] || (case["a"]["t"] != "null" && case["b"]["t"] != "null"));
        } else if !fired.is_empty() && matches(case["ideal"]["eq"].as_bool().unwrap(), case["ideal"]["cmp"].as_i64().unwrap()) && hash_ok(case["ideal"]["eq"].as_bool().unwrap()) {
            rep.count("stale_finding_ideal_outcome");
            rep.ok(case, format!("{}|{}", case["a"], case["b"]), true);
        } else {
            rep.mismatch(case, json!({"eq": eq, "cmp": cmp, "hasheq_if_eq": true}), o, "Value ==/cmp/hash differs from Values.tla");
        }
    }
    rep.finish()
}

// impl -> spec: random values (wider than the bounded universe), observed relations logged for Trace_Values.tla
pub fn trace(seed: u64, n: usize) -> Vec<J> {
    use rand::{Rng, SeedableRng};
    let mut rng = rand::rngs::StdRng::seed_from_u64(seed);
    fn gen(rng: &mut rand::rngs::StdRng, depth: u32, kind: u32) -> J {
        match kind {
            0 => json!({"t": "null"}),
            1 => match rng.gen_range(0..4) {
                0 => jint(rng.gen_range(-1000..1000)),
                1 => jint(i64::MAX - rng.gen_range(0..3)),
                2 => jint(i64::MIN + rng.gen_range(0..3)),
                _ => jint(rng.gen_range(-3..3))
            },
            2 => match rng.gen_range(0..9) {
                8 => json!({"t": "real", "c": "nnan", "n": 0, "d": 1}),       // a NaN with the sign bit set: the same value as NaN
                0 => jreal(f64::NAN), 1 => jreal(f64::INFINITY), 2 => jreal(f64::NEG_INFINITY), 3 => jreal(-0.0), 4 => jreal(0.0),
                _ => jreal(rng.gen_range(-64..64) as f64 / [1.0, 2.0, 4.0, 8.0][rng.gen_range(0..4)])
            },
            3 => json!({"t": "bool", "v": rng.gen_bool(0.5)}),
            4 => { let len = rng.gen_range(0..4); let alpha = [97u32, 98, 65, 233, 128512, 32, 0x10FFFF];
                   json!({"t": "text", "s": (0..len).map(|_| alpha[rng.gen_range(0..alpha.len())]).collect::<Vec<_>>()}) }
            5 => { let ek = if depth > 0 { 5 } else { rng.gen_range(1..5) }; let _ = ek;
                   let ek = rng.gen_range(1..5); let len = rng.gen_range(0..4);
                   let et = ["", "int", "real", "bool", "text"][ek as usize];
                   json!({"t": "arr", "et": et, "xs": (0..len).map(|_| if rng.gen_bool(0.15) { json!({"t": "null"}) } else { gen(rng, depth + 1, ek) }).collect::<Vec<_>>()}) }
            6 => json!({"t": "ts", "f": [2021, rng.gen_range(1..3), rng.gen_range(1..4), rng.gen_range(0..3), 0, rng.gen_range(0..2), rng.gen_range(0..2) * 500000]}),
            _ => json!({"t": "iv", "ms": rng.gen_range(-3..3) * 500})
        }
    }
    let mut out = Vec::new();
    for i in 0..n {
        // mostly same-kind pairs (numbers mix INT and REAL), sometimes arbitrary
        let k = rng.gen_range(0..8);
        let ka = if k == 1 || k == 2 { rng.gen_range(1..3) } else { k };
        let kb = if rng.gen_bool(0.1) { rng.gen_range(0..8) } else if k == 1 || k == 2 { rng.gen_range(1..3) } else { k };
        let a = gen(&mut rng, 0, ka);
        let b = if rng.gen_bool(0.2) { a.clone() } else { gen(&mut rng, 0, kb) };
        let mut o = observe(&a, &b);
        if o["pcmp"].is_null() { o["pcmp"] = json!(-2); }      // None: not a number the spec can ever predict
        out.push(json!({"ev": "cmp", "i": i, "a": a, "b": b, "o": o}));
        tick(&json!({"i": i}));
    }
    out
}
