//! Binding of spec/Engine.tla (+ Sem.tla, Expr.tla) to ExecutionEngine / FileExecutor.
use crate::common::*;
use crate::sql;
use crate::val::*;
use serde_json::{json, Value as J};
use sqlgrep::execution::execution_engine::{ExecutionConfig, ExecutionEngine};
use sqlgrep::executor::{DisplayOptions, FileExecutor, OutputFormat, Printer};
use sqlgrep::verif_hooks::{self, Hooks};
use std::cell::RefCell;
use std::fs::File;
use std::rc::Rc;
use std::sync::atomic::{AtomicBool, Ordering};
use std::sync::Arc;

pub struct CapturePrinter {
    pub lines: Rc<RefCell<Vec<String>>>,
    pub running: Arc<AtomicBool>,
    pub stop_after: Option<usize>,     // clear `running` after this many non-empty records
    pub records: usize
}

impl Printer for CapturePrinter {
    fn println(&mut self, line: &str) {
        self.lines.borrow_mut().push(line.to_string());
        if !line.is_empty() {
            self.records += 1;
            if Some(self.records) == self.stop_after { self.running.store(false, Ordering::SeqCst); }
        }
    }
}

pub fn setup_tables(defs: &str) -> Result<sqlgrep::Tables, String> {
    let mut tables = sqlgrep::Tables::new();
    match sqlgrep::parsing::parse(defs) {
        Ok(st) => { if !tables.add_tables(st) { return Err("not a CREATE TABLE".into()); } }
        Err(e) => return Err(format!("definition rejected: {}", e))
    }
    Ok(tables)
}

fn write_lines(path: &std::path::Path, lines: &[J]) {
    let mut s = String::new();
    for l in lines { s += &sql::line_text(l); s.push('\n'); }
    std::fs::write(path, s).unwrap();
}

pub struct BatchObs { pub records: Vec<J>, pub status: String, pub consumed: u64, pub raw: Vec<String>, pub join_calls: u64, pub result_rows: u64 }

/// one batch run through FileExecutor with JSON output; `intr` = the model's interrupt point
pub fn run_batch(tables: &sqlgrep::Tables, query: &str, files: &[std::path::PathBuf], intr: &J, format: OutputFormat) -> BatchObs {
    let stmt = match sqlgrep::parsing::parse(query) {
        Ok(s) => s,
        Err(e) => return BatchObs { records: vec![], status: format!("parse_err: {}", e), consumed: 0, raw: vec![], join_calls: 0, result_rows: 0 }
    };
    let running = Arc::new(AtomicBool::new(true));
    let lines = Rc::new(RefCell::new(Vec::new()));
    let at = intr["at"].as_str().unwrap_or("none").to_string();
    let n = intr["n"].as_u64().unwrap_or(0) as usize;
    let printer = CapturePrinter { lines: lines.clone(), running: running.clone(), stop_after: if at == "print" { Some(n) } else { None }, records: 0 };
    let mut fs = Vec::new();
    for p in files { fs.push(File::open(p).unwrap()); }
    let mut opts = DisplayOptions::default();
    opts.output_format = format;
    let (r1, r2) = (running.clone(), running.clone());
    let calls = Rc::new(RefCell::new(0usize));
    let c2 = calls.clone();
    let at1 = at.clone();
    let jcalls = Rc::new(RefCell::new(0u64));
    let jc2 = jcalls.clone();
    verif_hooks::install(Hooks {
        follow_retry: None,
        batch_line: Some(Box::new(move |_f, _l| {
            let mut c = c2.borrow_mut();
            if at1 == "line" && *c == n { r1.store(false, Ordering::SeqCst); }
            *c += 1;
        })),
        join_line: Some(Box::new(move |i| { *jc2.borrow_mut() += 1; if at == "join" && i == n { r2.store(false, Ordering::SeqCst); } }))
    });
    let res = std::panic::catch_unwind(std::panic::AssertUnwindSafe(|| {
        let engine = ExecutionEngine::new(tables, &stmt);
        let mut ex = FileExecutor::with_output_printer(running.clone(), fs, opts, printer, engine).unwrap();
        let r = ex.execute();
        (r.is_ok(), ex.statistics().total_lines, ex.statistics().total_result_rows)
    }));
    verif_hooks::clear();
    let raw = lines.borrow().clone();
    let (status, consumed, result_rows) = match res { Ok((true, c, n)) => ("ok".to_string(), c, n), Ok((false, c, n)) => ("err".to_string(), c, n), Err(_) => ("panic".to_string(), 0, 0) };
    let records = raw.iter().filter(|l| !l.is_empty()).map(|l| serde_json::from_str::<J>(l).unwrap_or(json!({"\u{0}unparsable": l}))).collect();
    let join_calls = *jcalls.borrow();
    BatchObs { records, status, consumed, raw, join_calls, result_rows }
}

/// expected rows (abstract) -> expected JSON records; None if a value has no JSON form (non-finite REAL)
fn expected_records(cols: &J, rows: &J) -> Option<Vec<J>> {
    let names: Vec<&str> = cols.as_array().unwrap().iter().map(|c| c.as_str().unwrap()).collect();
    let mut out = Vec::new();
    for r in rows.as_array().unwrap() {
        let mut m = serde_json::Map::new();
        for (i, v) in r.as_array().unwrap().iter().enumerate() { m.insert(names[i].to_string(), expected_json(v)?); }
        out.push(J::Object(m));
    }
    Some(out)
}

fn records_match(obs: &[J], exp: &[J]) -> bool {
    obs.len() == exp.len() && obs.iter().zip(exp.iter()).all(|(o, e)| {
        match (o.as_object(), e.as_object()) {
            (Some(o), Some(e)) => o.len() == e.len() && o.iter().zip(e.iter()).all(|((ko, vo), (ke, ve))| ko == ke && json_eq(vo, ve)),
            _ => false
        }
    })
}

/// the projection of observed values knows one NaN; the model's second NaN (sign bit set) is the same value with other bits
pub fn norm_nan(v: &J) -> J {
    match v {
        J::Array(a) => J::Array(a.iter().map(norm_nan).collect()),
        J::Object(m) => {
            if m.get("t").and_then(|t| t.as_str()) == Some("real") && m.get("c").and_then(|c| c.as_str()) == Some("nnan") {
                let mut m2 = m.clone(); m2.insert("c".into(), json!("nan")); return J::Object(m2);
            }
            J::Object(m.iter().map(|(k, x)| (k.clone(), norm_nan(x))).collect())
        }
        _ => v.clone()
    }
}

pub fn replay(cases: &[J]) -> J {
    let dir = scratch();
    let mut rep = Report::new("engine");
    for case in cases {
        tick(case);
        let tables = match setup_tables(&sql::table_defs(case["tdef"].as_str().unwrap())) {
            Ok(t) => t, Err(e) => { rep.mismatch(case, json!("tables accepted"), json!(e), "table definition rejected"); continue; }
        };
        let jpath = dir.join("joined.log");
        write_lines(&jpath, case["jlines"].as_array().unwrap());
        let query = sql::statement_for(&case["q"], jpath.to_str().unwrap(), case["tdef"].as_str().unwrap());
        let exp_status = case["status"].as_str().unwrap();
        let devs: Vec<String> = case["fired"].as_array().map(|a| a.iter().map(|d| d.as_str().unwrap().to_string()).collect()).unwrap_or_default();
        let key = format!("{}|{}|{}|{}|{}|{}", case["tdef"], query, case["files"], case["jlines"], case["mode"], case["intr"]);
        if case["mode"] == "batch" {
            let mut paths = Vec::new();
            for (i, f) in case["files"].as_array().unwrap().iter().enumerate() {
                let p = dir.join(format!("in{}.log", i));
                write_lines(&p, f.as_array().unwrap());
                paths.push(p);
            }
            let obs = run_batch(&tables, &query, &paths, &case["intr"], OutputFormat::Json);
            let observed = json!({"records": obs.records, "status": obs.status, "consumed": obs.consumed, "join_lines_read": obs.join_calls, "total_result_rows": obs.result_rows, "query": query});
            let exp_recs = expected_records(&case["cols"], &case["printed"]);
            let expected = json!({"records": exp_recs, "status": exp_status, "consumed": case["consumed"], "join_lines_read": case["jcalls"]});
            let ok = match exp_status {
                "unk" => obs.status != "panic" && !obs.status.starts_with("parse_err"),
                _ => obs.status == exp_status
                     && exp_recs.as_ref().map(|e| records_match(&obs.records, e)).unwrap_or(true)
                     && (exp_status == "panic" || obs.consumed == case["consumed"].as_u64().unwrap())
                     && (exp_status != "ok" || case["jcalls"].as_u64().map(|j| j == obs.join_calls).unwrap_or(true))
                     // statistics().total_result_rows counts exactly the records printed
                     && (exp_status == "panic" || obs.result_rows == obs.records.len() as u64)
            };
            if ok {
                for d in &devs { rep.dev_witness(d, case); rep.count(&format!("dev_{}", d)); }
                rep.ok(case, key, exp_status != "unk" && !case["printed"].as_array().unwrap().is_empty());
            } else {
                // a listed finding that no longer reproduces is not a violation: the Ideal outcome is always accepted
                let ideal_ok = case["ideal"]["st"] != "same" && obs.status == case["ideal"]["st"].as_str().unwrap_or("")
                    && expected_records(&case["cols"], &case["ideal"]["recs"]).map(|e| records_match(&obs.records, &e)).unwrap_or(false);
                if ideal_ok { rep.count("stale_finding_ideal_outcome"); rep.ok(case, key, true); }
                else { rep.mismatch(case, expected, observed, "FileExecutor differs from Engine.tla (batch)"); }
            }
        } else {
            // incr: one ExecutionEngine::execute(line, update+result) per line, typed rows compared step by step
            let stmt = match sqlgrep::parsing::parse(&query) {
                Ok(s) => s,
                Err(e) => { rep.mismatch(case, json!("statement accepted"), json!(format!("{} :: {}", e, query)), "statement rejected by the parser"); continue; }
            };
            let lines: Vec<&J> = case["files"].as_array().unwrap().iter().flat_map(|f| f.as_array().unwrap().iter()).collect();
            let steps = case["steps"].as_array().unwrap();
            let res = std::panic::catch_unwind(std::panic::AssertUnwindSafe(|| {
                let mut obs = Vec::new();
                let mut engine = if case["q"]["join"] == "none" { ExecutionEngine::new(&tables, &stmt) } else {
                    match ExecutionEngine::with_executed_joined_table(&tables, &stmt) { Ok(e) => e, Err(_) => { obs.push(json!({"st": "err", "recs": []})); return obs; } }
                };
                for l in &lines {
                    match engine.execute(sql::line_text(l), &ExecutionConfig::default()) {
                        Ok(out) => match out.result_row {
                            Some(rr) => obs.push(json!({"st": "ok", "cols": rr.columns, "recs": rr.data.iter().map(|r| r.columns.iter().map(project).collect::<Vec<_>>()).collect::<Vec<_>>()})),
                            None => obs.push(json!({"st": "none", "recs": []}))
                        },
                        Err(_) => { obs.push(json!({"st": "err", "recs": []})); break; }
                    }
                }
                obs
            }));
            let obs = match res { Ok(o) => o, Err(_) => vec![json!({"st": "panic"})] };
            // compare step by step while the model knows the outcome
            let is_agg = case["q"]["kind"] == "agg";
            let mut ok = true;
            let mut nontrivial = false;
            let mut why = String::new();
            for (i, st) in steps.iter().enumerate() {
                let est = st["st"].as_str().unwrap();
                if est == "unk" { if obs.iter().any(|o| o["st"] == "panic") { ok = false; why = "panic".into(); } break; }
                let o = match obs.get(i) { Some(o) => o, None => { ok = false; why = format!("step {} missing", i); break; } };
                let ost = o["st"].as_str().unwrap();
                // a SELECT step with no row is `None` in the code and an empty "ok" step in the model
                let e_empty = st["recs"].as_array().unwrap().is_empty();
                // an aggregate step on which no row passed shows nothing new: either no table at all, or the current table once more
                let same_st = if !is_agg && est == "ok" && e_empty { ost == "none" || (ost == "ok" && o["recs"].as_array().unwrap().is_empty()) }
                              else if is_agg && est == "none" { ost == "none" || (ost == "ok" && o["recs"] == norm_nan(&st["recs"])) }
                              else { ost == est };
                if !same_st { ok = false; why = format!("step {}: status {} vs model {}", i, ost, est); break; }
                if est == "ok" && !e_empty {
                    if o["recs"] != norm_nan(&st["recs"]) { ok = false; why = format!("step {}: rows differ", i); break; }
                    if o["cols"] != case["cols"] { ok = false; why = format!("step {}: column names differ", i); break; }
                    nontrivial = true;
                }
                if est == "err" || est == "panic" { break; }
            }
            if ok && steps.len() < obs.len() && steps.last().map(|s| s["st"] != "unk" && s["st"] != "err").unwrap_or(true) && !steps.is_empty() {
                ok = false; why = "more steps than the model".into();
            }
            if ok { rep.ok(case, key, nontrivial); }
            else { rep.mismatch(case, json!({"steps": steps}), json!({"steps": obs, "why": why, "query": query}), "ExecutionEngine differs from Engine.tla (incremental)"); }
        }
    }
    cleanup_scratch();
    rep.finish()
}
