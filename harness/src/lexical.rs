//! Binding of spec/Lexical.tla to sqlgrep::parsing::parse: every layout variant of a statement
//! (case of keywords and names, whitespace, comments, semicolon, clause order) parses to the same statement.
use crate::common::*;
use serde_json::{json, Value as J};

fn text_of(cps: &J) -> String { cps.as_array().unwrap().iter().map(|c| char::from_u32(c.as_u64().unwrap() as u32).unwrap()).collect() }

pub fn parse_dbg(text: &str) -> Result<String, String> {
    let t = text.to_string();
    match std::panic::catch_unwind(move || sqlgrep::parsing::parse(&t)) {
        Ok(Ok(st)) => Ok(format!("{:?}", st)),
        Ok(Err(e)) => Err(format!("error: {}", e)),
        Err(_) => Err("panic".to_string())
    }
}

pub fn replay(cases: &[J]) -> J {
    let mut rep = Report::new("lexical");
    let mut base_cache: std::collections::HashMap<u64, (String, Result<String, String>)> = Default::default();
    for case in cases {
        tick(case);
        let si = case["si"].as_u64().unwrap();
        let (base_text, reference) = base_cache.entry(si).or_insert_with(|| {
            let t = case["base"].as_array().unwrap().iter().map(|l| text_of(&l["s"])).collect::<Vec<_>>().join(" ");
            let r = parse_dbg(&t);
            (t, r)
        }).clone();
        let text = text_of(&case["text"]);
        let got = parse_dbg(&text);
        match (&reference, &got) {
            (Ok(r), Ok(g)) if r == g => rep.ok(case, text.clone(), case["edits"].as_u64().unwrap() > 0),
            (Err(e), _) => rep.mismatch(case, json!("the base layout parses"), json!({"base": base_text, "result": e}), "base statement rejected by the parser"),
            _ => rep.mismatch(&json!({"si": si, "text": text, "perm": case["perm"], "semi": case["semi"]}), json!({"same statement as": base_text}),
                              json!({"text": text, "result": got.clone().unwrap_or_else(|e| e), "reference": reference.clone().unwrap_or_default()}),
                              "a layout variant parses differently from the base statement (Lexical.tla)")
        }
    }
    rep.finish()
}
