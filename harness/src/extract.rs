//! Binding of spec/Extract.tla to TableDefinition::extract (through the parser and the engine).
use crate::common::*;
use crate::sql::quote;
use crate::val::*;
use serde_json::{json, Value as J};
use sqlgrep::data_model::{ColumnDefinition, ColumnOptions, ColumnParsing, JsonAccess, RegexMode, RegexResultReference, TableDefinition};
use sqlgrep::execution::execution_engine::{ExecutionConfig, ExecutionEngine};
use sqlgrep::model::ValueType;

pub const CAP_PATTERN: &str = "P:(?:A<([^>]*)>)?(?:B<([^>]*)>)?(?:C<([^>]*)>)?(?:D<([^>]*)>)?(?:E<([^>]*)>)?(?:F<([^>]*)>)?(?:G<([^>]*)>)?";
pub const INL_PATTERN: &str = "I<([^>]*)>";
pub const TAG_PATTERN: &str = "#([0-9]+)#";

fn cps(v: &J) -> String { v.as_array().unwrap().iter().map(|c| char::from_u32(c.as_u64().unwrap() as u32).unwrap()).collect() }

fn type_sql(ty: &str, el: &str) -> String {
    let base = |t: &str| match t { "text" => "TEXT", "int" => "INT", "real" => "REAL", "bool" => "BOOLEAN", "ts" => "TIMESTAMP", "iv" => "INTERVAL", o => panic!("type {}", o) }.to_string();
    if ty == "arr" { format!("{}[]", base(el)) } else { base(ty) }
}
fn value_type(ty: &str, el: &str) -> ValueType {
    let base = |t: &str| match t { "text" => ValueType::String, "int" => ValueType::Int, "real" => ValueType::Float, "bool" => ValueType::Bool,
                                   "ts" => ValueType::Timestamp, "iv" => ValueType::Interval, o => panic!("type {}", o) };
    if ty == "arr" { ValueType::Array(Box::new(base(el))) } else { base(ty) }
}

fn modifiers(c: &J) -> Vec<String> {
    let mut m = Vec::new();
    if c["nn"] == true { m.push("NOT NULL".to_string()); }
    if c["trim"] == true { m.push("TRIM".to_string()); }
    if c["conv"] == true { m.push("CONVERT".to_string()); }
    if c["micro"] == true { m.push("MICROSECONDS".to_string()); }
    if c["def"]["t"] != "nodef" { m.push(format!("DEFAULT {}", crate::sql::literal(&c["def"]))); }
    m
}

fn path_sql(path: &J) -> String {
    let mut s = String::from("{ ");
    for st in path.as_array().unwrap() {
        if st["k"] == "field" { s += &format!(".{}", st["name"].as_str().unwrap()); } else { s += &format!("[{}]", st["i"]); }
    }
    s + " }"
}

/// CREATE TABLE text; None when a column carries more modifiers than the grammar can express (then the API is used)
pub fn definition_sql(cols: &J) -> Option<String> {
    let mut parts = vec![format!("p = {}", quote(CAP_PATTERN)), "s = split ';'".to_string(), format!("tag = {}", quote(TAG_PATTERN))];
    for (i, c) in cols.as_array().unwrap().iter().enumerate() {
        let mods = modifiers(c);
        if mods.len() > 1 { return None; }
        let src = match c["src"].as_str().unwrap() {
            "json" => path_sql(&c["path"]),
            _ => {
                let refs = c["refs"].as_array().unwrap();
                if refs.len() == 1 && refs[0]["p"] == "i" { if refs[0]["g"] != 1 { return None; } quote(INL_PATTERN) }
                else {
                    if refs.iter().any(|r| r["p"] == "i") { return None; }
                    refs.iter().map(|r| format!("{}[{}]", r["p"].as_str().unwrap(), r["g"])).collect::<Vec<_>>().join(", ")
                }
            }
        };
        parts.push(format!("{} => c{} {}{}", src, i + 1, type_sql(c["ty"].as_str().unwrap(), c["el"].as_str().unwrap()),
                           mods.get(0).map(|m| format!(" {}", m)).unwrap_or_default()));
    }
    Some(format!("CREATE TABLE x(\n  {}\n);", parts.join(",\n  ")))
}

/// the same definition built through the public API
pub fn definition_api(cols: &J) -> TableDefinition {
    let mut defs = Vec::new();
    for (i, c) in cols.as_array().unwrap().iter().enumerate() {
        let parsing = match c["src"].as_str().unwrap() {
            "json" => {
                let parts = c["path"].as_array().unwrap().iter().map(|st| {
                    if st["k"] == "field" { JsonAccess::Field { name: st["name"].as_str().unwrap().to_string(), inner: None } }
                    else { JsonAccess::Array { index: st["i"].as_u64().unwrap() as usize, inner: None } }
                }).collect();
                ColumnParsing::Json(JsonAccess::from_linear(parts))
            }
            _ => {
                let refs: Vec<RegexResultReference> = c["refs"].as_array().unwrap().iter()
                    .map(|r| RegexResultReference::new(r["p"].as_str().unwrap().to_string(), r["g"].as_u64().unwrap() as usize)).collect();
                if refs.len() == 1 { ColumnParsing::Regex(refs.into_iter().next().unwrap()) } else { ColumnParsing::MultiRegex(refs) }
            }
        };
        let mut o = ColumnOptions::new();
        o.nullable = c["nn"] != true;
        o.trim = c["trim"] == true;
        o.convert = c["conv"] == true;
        o.microseconds = c["micro"] == true;
        if c["def"]["t"] != "nodef" { o.default_value = Some(concretise(&c["def"])); }
        defs.push(ColumnDefinition::with_options(parsing, &format!("c{}", i + 1), value_type(c["ty"].as_str().unwrap(), c["el"].as_str().unwrap()), o));
    }
    TableDefinition::new("x", vec![("p", CAP_PATTERN, RegexMode::Captures), ("s", ";", RegexMode::Split), ("tag", TAG_PATTERN, RegexMode::Captures),
                                   ("i", INL_PATTERN, RegexMode::Captures)], defs).unwrap()
}

fn json_text(d: &J, tag: Option<&str>, top: bool) -> String {
    match d["k"].as_str().unwrap() {
        "obj" => {
            let mut fs: Vec<String> = d["fs"].as_array().unwrap().iter().map(|f| format!("{}: {}", serde_json::to_string(f[0].as_str().unwrap()).unwrap(), json_text(&f[1], None, false))).collect();
            if top { if let Some(t) = tag { fs.push(format!("\"zz\":\"#{}#\"", t)); } }
            format!("{{{}}}", fs.join(", "))
        }
        "arr" => format!("[{}]", d["xs"].as_array().unwrap().iter().map(|x| json_text(x, None, false)).collect::<Vec<_>>().join(",")),
        "num" => match d["v"]["t"].as_str().unwrap() {
            "int" => int_of(&d["v"]).to_string(),
            "u64big" => "9223372036854775808".to_string(),
            "huge" => "18446744073709551616".to_string(),
            _ => { let x = real_of(&d["v"]); if x.fract() == 0.0 { format!("{:.1}", x) } else { format!("{}", x) } }
        },
        "str" => serde_json::to_string(&cps(&d["s"])).unwrap(),
        "bool" => d["b"].as_bool().unwrap().to_string(),
        _ => "null".to_string()
    }
}

pub fn line_text(case: &J) -> String {
    let l = &case["line"];
    let tag = if l["tag"]["ok"] == true { Some(cps(&l["tag"]["s"])) } else { None };
    let t = tag.as_deref();
    let tagtxt = t.map(|x| format!("#{}#", x)).unwrap_or_default();
    if l["doc"]["k"] != "nodoc" {
        // layout codes: insignificant whitespace around / inside the document (a JSON text stays the same document)
        let body = json_text(&l["doc"], t, true);
        return match l["ndk"].as_u64().unwrap() {
            6 => format!("   {}", body), 7 => format!("{} ", body), 8 => format!("{}\t", body), 9 => format!("{}\r", body),
            10 => format!(" {} ", body.replace(",", " , ").replace(":", " : ").replace("{", "{ ").replace("[", "[ ")),
            _ => body
        };
    }
    match l["ndk"].as_u64().unwrap() {
        0 => cps(&case["text"]),
        1 => tagtxt,
        2 => format!("plain text {}", tagtxt),
        3 => format!("{{\"a\": {}", tagtxt),
        4 => format!("{{\"a\": 1}} trailing {}", tagtxt),
        _ => format!("{{\"a\": 1}} {{\"a\": 2}} {}", tagtxt)
    }
}

/// the capture groups the regex crate itself reports for the line must be the ones the abstract line claims
fn concretisation_ok(case: &J, text: &str) -> Result<(), String> {
    let l = &case["line"];
    if l["ndk"] != 0 || l["doc"]["k"] != "nodoc" { return Ok(()); }
    let re = regex::Regex::new(CAP_PATTERN).unwrap();
    match (re.captures(text), l["cap"]["m"].as_bool().unwrap()) {
        (None, false) => Ok(()),
        (Some(c), true) => {
            for (i, g) in l["cap"]["gs"].as_array().unwrap().iter().enumerate() {
                let want = if g["ok"] == true { Some(cps(&g["s"])) } else { None };
                let got = c.get(i + 1).map(|m| m.as_str().to_string());
                if want != got { return Err(format!("group {}: regex crate says {:?}, abstract line says {:?}", i + 1, got, want)); }
            }
            Ok(())
        }
        (a, b) => Err(format!("match: regex crate {:?}, abstract line {}", a.is_some(), b))
    }
}

pub fn replay(cases: &[J]) -> J {
    let mut rep = Report::new("extract");
    for case in cases {
        tick(case);
        let text = line_text(case);
        if let Err(e) = concretisation_ok(case, &text) { eprintln!("concretisation error: {} for {}", e, case); std::process::exit(2); }
        let sql = definition_sql(&case["cols"]);
        let mut tables = sqlgrep::Tables::new();
        let via;
        match &sql {
            Some(s) => {
                via = "parser";
                match std::panic::catch_unwind(|| sqlgrep::parsing::parse(s)) {
                    Ok(Ok(st)) => { tables.add_tables(st); }
                    Ok(Err(e)) => { rep.mismatch(case, json!("definition accepted"), json!({"definition": s, "error": format!("{}", e)}), "CREATE TABLE rejected"); continue; }
                    Err(_) => { rep.mismatch(case, json!("definition accepted"), json!({"definition": s, "error": "panic"}), "CREATE TABLE parsing panicked"); continue; }
                }
            }
            None => { via = "api"; tables.add_table(definition_api(&case["cols"])); }
        }
        let stmt = sqlgrep::parsing::parse("SELECT * FROM x").unwrap();
        let t2 = text.clone();
        let res = std::panic::catch_unwind(std::panic::AssertUnwindSafe(|| {
            let mut engine = ExecutionEngine::new(&tables, &stmt);
            match engine.execute(t2, &ExecutionConfig::default()) {
                Ok(out) => match out.result_row {
                    Some(rr) => json!({"st": "row", "row": rr.data[0].columns.iter().map(project).collect::<Vec<_>>(), "cols": rr.columns}),
                    None => json!({"st": "norow"})
                },
                Err(e) => json!({"st": "err", "error": format!("{}", e)})
            }
        }));
        let obs = res.unwrap_or(json!({"st": "panic"}));
        let est = case["st"].as_str().unwrap();
        let ok = match est {
            "unk" => obs["st"] != "panic" && obs["st"] != "err",
            "row" => obs["st"] == "row" && obs["row"] == case["row"],
            _ => obs["st"] == "norow"
        };
        if ok { rep.count(&format!("via_{}", via)); rep.ok(case, format!("{}|{}", case["cols"], text), est == "row"); }
        else { rep.mismatch(case, json!({"st": est, "row": case["row"]}), json!({"observed": obs, "line": text, "definition": sql}), "extracted row differs from Extract.tla"); }
    }
    rep.finish()
}
